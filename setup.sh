#!/bin/bash
# Offline: builds the verifier's venv (python 3.12 of /venv + z3-solver + jsonschema from the wheelhouse) and
# checks the Lean lemma. Idempotent.
set -e
cd "$(dirname "$0")"
if [ ! -x .venv/bin/python ] || ! .venv/bin/python -c "import z3, jsonschema" 2>/dev/null; then
  rm -rf .venv
  /venv/bin/python -m venv .venv
  PIP_NO_INDEX=1 .venv/bin/pip install -q --no-index --find-links /opt/veriftools/wheels z3-solver jsonschema
  echo "import site; site.addsitedir('/venv/lib/python3.12/site-packages')" > .venv/lib/python3.12/site-packages/_venv_overlay.pth
fi
.venv/bin/python -c "import z3, jsonschema, sys; sys.path.insert(0, '${VF_REPO:-/repo}'); import pony.orm; print('verifier venv ok: z3', z3.get_version_string())"
if [ -f lean/StrHom.lean ]; then
  (cd lean && lean StrHom.lean && echo "lean: StrHom.lean checked") || { echo "lean lemma failed"; exit 1; }
fi
