"""Specification library 3.2: meaning of the SQL ASTs emitted by the functions under contract.

Every SQL value is a pair (is_null, v) (three-valued logic); functions are polymorphic over z3 terms and
concrete Python values. Dialect clauses are taken from the vendors' manuals (cited inline); the SQLite clauses are
validated against the real sqlite3 engine at start-up, the PostgreSQL / MySQL / Oracle clauses cannot be executed in
this sandbox and are ASSUMED CONTRACTS ON DEPENDENCIES."""
from .logic import ite, And, Or, Not, Eq, Max, Min, clamp
from .inputs import term


class SqlError(Exception):
    pass


def _v(x):
    return term(x)


def sqlint(ast, env, dialect):
    """Integer-valued SQL AST -> (is_null, value). env: column name -> (is_null, value); env['__len__'] = n."""
    op = ast[0]
    if op == 'VALUE':
        v = ast[1]
        if v is None:
            return True, 0
        return False, _v(v)
    if op in ('COLUMN', 'PARAM'):
        return env[_colkey(ast)]
    if op in ('LENGTH', 'ARRAY_LENGTH'):
        return env.get('__lennull__', False), env['__len__']
    if op in ('ADD', 'SUB'):
        n1, v1 = sqlint(ast[1], env, dialect); n2, v2 = sqlint(ast[2], env, dialect)
        return Or(n1, n2), (v1 + v2 if op == 'ADD' else v1 - v2)
    if op == 'NEG':
        n1, v1 = sqlint(ast[1], env, dialect)
        return n1, -v1
    if op == 'COALESCE':
        n1, v1 = sqlint(ast[1], env, dialect); n2, v2 = sqlint(ast[2], env, dialect)
        return And(n1, n2), ite(n1, v2, v1)
    if op == 'MAX':
        # greatest(a, b): MySQL/Oracle/SQLite max(): NULL if any argument is NULL; PostgreSQL ignores NULLs
        assert ast[1] is False and len(ast) == 4
        n1, v1 = sqlint(ast[2], env, dialect); n2, v2 = sqlint(ast[3], env, dialect)
        if dialect == 'PostgreSQL':
            return And(n1, n2), ite(n1, v2, ite(n2, v1, Max(v1, v2)))
        return Or(n1, n2), Max(v1, v2)
    if op == 'IF':
        cn, cv = sqlbool(ast[1], env, dialect)
        n1, v1 = sqlint(ast[2], env, dialect); n2, v2 = sqlint(ast[3], env, dialect)
        t = And(Not(cn), cv)
        return ite(t, n1, n2), ite(t, v1, v2)
    if op == 'CASE':
        assert ast[1] is None
        default = ast[3] if len(ast) > 3 else None
        rn, rv = (True, 0) if default is None else sqlint(default, env, dialect)
        for cond, e in reversed(list(ast[2])):
            cn, cv = sqlbool(cond, env, dialect); n1, v1 = sqlint(e, env, dialect)
            t = And(Not(cn), cv)
            rn, rv = ite(t, n1, rn), ite(t, v1, rv)
        return rn, rv
    raise NotImplementedError('sqlint: %r' % (op,))


def _colkey(ast):
    return tuple(ast) if ast[0] == 'COLUMN' else ('PARAM', ast[1])


def sqlbool(ast, env, dialect):
    """Boolean SQL AST -> (is_null, value) under three-valued logic."""
    op = ast[0]
    cmp = {'GE': lambda a, b: a >= b, 'GT': lambda a, b: a > b, 'LT': lambda a, b: a < b, 'LE': lambda a, b: a <= b,
           'EQ': lambda a, b: Eq(a, b), 'NE': lambda a, b: Not(Eq(a, b))}
    if op in cmp:
        n1, v1 = sqlint(ast[1], env, dialect); n2, v2 = sqlint(ast[2], env, dialect)
        return Or(n1, n2), cmp[op](v1, v2)
    if op == 'AND':
        parts = [sqlbool(a, env, dialect) for a in ast[1:]]
        anyfalse = Or(*[And(Not(n), Not(v)) for n, v in parts])
        anynull = Or(*[n for n, v in parts])
        return And(Not(anyfalse), anynull), Not(anyfalse)
    if op == 'OR':
        parts = [sqlbool(a, env, dialect) for a in ast[1:]]
        anytrue = Or(*[And(Not(n), v) for n, v in parts])
        anynull = Or(*[n for n, v in parts])
        return And(Not(anytrue), anynull), anytrue
    if op == 'NOT':
        n, v = sqlbool(ast[1], env, dialect)
        return n, Not(v)
    if op == 'IS_NULL':
        n, v = sqlint(ast[1], env, dialect)
        return False, n
    if op == 'IS_NOT_NULL':
        n, v = sqlint(ast[1], env, dialect)
        return False, Not(n)
    raise NotImplementedError('sqlbool: %r' % (op,))


def substr(dialect, n, pos, ln):
    """substr(s, pos[, ln]) on a string of length n: (error, a, b) with [a, b) the 0-based window returned
    (a == b: empty string — on Oracle: NULL, which Oracle does not distinguish from '').  ln None = omitted."""
    if dialect == 'PostgreSQL':
        # PostgreSQL 16 manual 9.4, substring(string from start for count): "If start is less than 1 the positions
        # before 1 are counted but yield nothing"; textanycat.c text_substring: negative length -> ERROR 22011
        s0 = pos - 1
        e0 = n if ln is None else s0 + ln
        a = clamp(s0, 0, n); b = clamp(e0, 0, n)
        err = False if ln is None else ln < 0
        return err, a, ite(b < a, a, b)
    if dialect == 'MySQL':
        # MySQL 8.0 manual 12.8 SUBSTRING(str,pos,len): pos 0 -> ''; negative pos counts from the end; len < 1 -> '';
        # a position outside the string -> ''
        s0 = ite(pos > 0, pos - 1, n + pos)
        valid = And(Not(Eq(pos, 0)), s0 >= 0, s0 < n)
        e0 = n if ln is None else Min(s0 + ln, n)
        emp = Or(Not(valid), e0 <= s0)
        return False, ite(emp, 0, s0), ite(emp, 0, e0)
    if dialect == 'Oracle':
        # Oracle SQL reference SUBSTR: position 0 is treated as 1; negative position counts backward from the end;
        # substring_length < 1 -> NULL; Oracle '' IS NULL, so empty and NULL coincide
        s0 = ite(pos > 0, pos - 1, ite(Eq(pos, 0), 0, n + pos))
        valid = And(s0 >= 0, s0 < n)
        e0 = n if ln is None else Min(s0 + ln, n)
        emp = Or(Not(valid), e0 <= s0)
        return False, ite(emp, 0, s0), ite(emp, 0, e0)
    if dialect == 'SQLite':
        # sqlite3 func.c substrFunc (validated against the real engine at start-up)
        p1 = pos
        big = n + abs_(pos) + 5
        if ln is None:
            p2 = big; neg = False
        else:
            neg = ln < 0
            p2 = ite(neg, -ln, ln)
        # if p1 < 0: p1 += n; if p1 < 0: p2 += p1 (clamped at 0), p1 = 0 ; elif p1 > 0: p1 -= 1 ; elif p2 > 0: p2 -= 1
        p1a = p1 + n
        c_neg = p1 < 0
        c_neg2 = And(c_neg, p1a < 0)
        p2_1 = ite(c_neg2, Max(p2 + p1a, 0), ite(And(Eq(p1, 0), p2 > 0), p2 - 1, p2))
        p1_1 = ite(c_neg, ite(p1a < 0, 0, p1a), ite(p1 > 0, p1 - 1, p1))
        # if negP2: p1 -= p2; if p1 < 0: p2 += p1; p1 = 0
        p1_2n = p1_1 - p2_1
        p2_2 = ite(neg, ite(p1_2n < 0, p2_1 + p1_2n, p2_1), p2_1)
        p1_2 = ite(neg, ite(p1_2n < 0, 0, p1_2n), p1_1)
        # if p1 + p2 > len: p2 = len - p1, clamped at 0
        p2_3 = ite(p1_2 + p2_2 > n, Max(n - p1_2, 0), p2_2)
        a = Min(p1_2, n)
        return False, a, Min(a + p2_3, n)
    raise NotImplementedError(dialect)


def abs_(x):
    return ite(x < 0, -x, x)


def selfcheck_sqlite(N=5):
    """Validate the SQLite substr clause against the real engine, exhaustively for small values."""
    import sqlite3
    con = sqlite3.connect(':memory:')
    cnt = 0
    for n in range(N + 1):
        s = 'abcdefghij'[:n]
        for pos in range(-N - 2, N + 3):
            for ln in [None] + list(range(-N - 1, N + 2)):
                if ln is None:
                    got = con.execute('select substr(?, ?)', (s, pos)).fetchone()[0]
                else:
                    got = con.execute('select substr(?, ?, ?)', (s, pos, ln)).fetchone()[0]
                err, a, b = substr('SQLite', n, pos, ln)
                assert not err and s[a:b] == got, ('sqlite substr spec mismatch', s, pos, ln, got, s[a:b])
                cnt += 1
    return cnt
