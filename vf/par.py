"""Native (un-instrumented, input-free) bounded runs are independent of each other: a contract may compute the results of all its configurations once, in forked worker
processes, and let each configuration read its own. Under `python -m vf.replay` only the requested configuration is computed (in process)."""
import multiprocessing, os, sys

_RESULTS = {}


def replaying():
    return bool(sys.argv) and 'replay' in os.path.basename(sys.argv[0] or '') or any(a == 'vf.replay' for a in sys.argv[:3])


def precomputed(key, items, worker, item):
    """worker(item) for `item`, where all `items` are computed at first use in a pool of forked processes"""
    if replaying() or os.environ.get('VF_SERIAL'):
        return worker(item)
    if key not in _RESULTS:
        items = list(items)
        with multiprocessing.get_context('fork').Pool(min(len(items), os.cpu_count() or 1)) as pool:
            _RESULTS[key] = dict(zip([repr(i) for i in items], pool.map(worker, items, chunksize=1)))
    return _RESULTS[key][repr(item)]
