"""Operators that work both on z3 terms (while building obligations) and on concrete Python values
(while replaying a counterexample on the real code), so that the *same* contract text is used for both."""
import z3


def is_sym(x):
    return isinstance(x, z3.ExprRef)


def _any_sym(*xs):
    return any(isinstance(x, z3.ExprRef) for x in xs)


def _b(x):
    if isinstance(x, z3.ExprRef):
        return x
    return z3.BoolVal(bool(x))


def _i(x):
    if isinstance(x, z3.ExprRef):
        return x
    if isinstance(x, bool):
        return z3.IntVal(int(x))
    if isinstance(x, int):
        return z3.IntVal(x)
    raise TypeError('cannot lift %r' % (x,))


def ite(c, a, b):
    if isinstance(c, z3.ExprRef):
        if not _any_sym(a, b):
            if isinstance(a, bool) and isinstance(b, bool):
                return z3.If(c, z3.BoolVal(a), z3.BoolVal(b))
            return z3.If(c, _i(a), _i(b))
        if isinstance(a, z3.ExprRef):
            if not isinstance(b, z3.ExprRef):
                b = z3.BoolVal(b) if z3.is_bool(a) else (z3.RealVal(b) if z3.is_real(a) else _i(b))
        else:
            a = z3.BoolVal(a) if z3.is_bool(b) else (z3.RealVal(a) if z3.is_real(b) else _i(a))
        return z3.If(c, a, b)
    return a if c else b


def And(*xs):
    if _any_sym(*xs):
        return z3.And(*[_b(x) for x in xs])
    return all(xs)


def Or(*xs):
    if _any_sym(*xs):
        return z3.Or(*[_b(x) for x in xs])
    return any(xs)


def Not(x):
    if isinstance(x, z3.ExprRef):
        return z3.Not(x)
    return not x


def Implies(a, b):
    if _any_sym(a, b):
        return z3.Implies(_b(a), _b(b))
    return (not a) or bool(b)


def Iff(a, b):
    if _any_sym(a, b):
        return _b(a) == _b(b)
    return bool(a) == bool(b)


def Eq(a, b):
    if _any_sym(a, b):
        if isinstance(a, z3.ExprRef) and z3.is_bool(a) or isinstance(b, z3.ExprRef) and z3.is_bool(b):
            return _b(a) == _b(b)
        return (a if isinstance(a, z3.ExprRef) else _lift_like(a, b)) == (b if isinstance(b, z3.ExprRef) else _lift_like(b, a))
    return a == b


def _lift_like(v, like):
    if z3.is_real(like):
        return z3.RealVal(v)
    if z3.is_fp(like):
        return z3.FPVal(v, like.sort())
    return _i(v)


def Min(a, b):
    return ite(a <= b, a, b)


def Max(a, b):
    return ite(a >= b, a, b)


def clamp(x, lo, hi):
    return ite(x < lo, lo, ite(x > hi, hi, x))
