"""Char-wise string encodings (DESIGN 2.6): normal form extraction from SymStr results of the REAL quoting functions,
reference lexers (spec library 3.3) as one-step functions over code points, and the finite local conditions whose
lifting to all strings is lean/StrHom.lean (decodes_enc, enc_injective')."""
import z3
from .logic import ite, And, Or, Not, Eq
from .proxy import SymStr

CHAR, STOP, ERR, WILD, END = 0, 1, 2, 3, 4
EOT = -1          # end of text as a code point


def apply_chain(chain, text):
    """The image of a concrete text under a replace chain: executes the same str.replace calls the real code made."""
    for a, b in chain:
        text = text.replace(a, b)
    return text


def normal_form(s, name):
    """SymStr -> (prefix literal, chain, suffix literal) when it is  prefix + Hom(chain, <name>) + suffix, else None."""
    if not isinstance(s, SymStr):
        return None
    syms = [k for k, p in enumerate(s.pieces) if p[0] == 'sym']
    if len(syms) != 1 or s.pieces[syms[0]][1] != name:
        return None
    k = syms[0]
    pre, post = s.pieces[:k], s.pieces[k + 1:]
    if any(p[0] != 'lit' for p in pre + post):
        return None
    return ''.join(p[1] for p in pre), s.pieces[k][2], ''.join(p[1] for p in post)


def classes(chain, extra=''):
    """Character classes: every character mentioned by the chain or special to the lexer, plus 'other'."""
    cs = []
    for a, b in chain:
        for ch in a + b:
            if ch not in cs: cs.append(ch)
    for ch in extra:
        if ch not in cs: cs.append(ch)
    return cs


# ------------------------------------------------------------------ reference lexers: step(c0, c1) -> (kind, decoded code point, consumed)
def sql_string_lexer(q="'"):
    """Body of a standard SQL string literal / quoted identifier with quote character q: qq -> q ; q -> end."""
    Q = ord(q)
    def step(c0, c1):
        isq = Eq(c0, Q)
        dbl = And(isq, Eq(c1, Q))
        kind = ite(isq, ite(Eq(c1, Q), CHAR, STOP), ite(Eq(c0, EOT), ERR, CHAR))
        return kind, c0, ite(dbl, 2, 1)
    return step


_MYSQL_ESC = {ord('n'): 10, ord('t'): 9, ord('r'): 13, ord('0'): 0, ord('b'): 8, ord('Z'): 26}


def mysql_string_lexer():
    """MySQL 8.0 manual 9.1.1, default sql_mode (NO_BACKSLASH_ESCAPES off): backslash escapes inside '...'."""
    std = sql_string_lexer("'")
    def step(c0, c1):
        k, ch, n = std(c0, c1)
        bs = Eq(c0, 92)
        esc = c1
        for code, val in _MYSQL_ESC.items():
            esc = ite(Eq(c1, code), val, esc)
        keep = Or(Eq(c1, ord('%')), Eq(c1, ord('_')))       # \% and \_ stay two characters outside pattern context
        kind = ite(bs, ite(Eq(c1, EOT), ERR, CHAR), k)
        ch2 = ite(bs, ite(keep, 92, esc), ch)
        n2 = ite(bs, ite(keep, 1, 2), n)
        return kind, ch2, n2
    return step


def percent_pass(text):
    """DB-API 'format' / 'pyformat' drivers run the statement through Python %-formatting: %% -> % ; a lone % starts a
    placeholder (a change of the statement's structure). Returns (ok, decoded text)."""
    out = []; i = 0
    while i < len(text):
        if text[i] == '%':
            if i + 1 < len(text) and text[i + 1] == '%':
                out.append('%'); i += 2; continue
            return False, None
        out.append(text[i]); i += 1
    return True, ''.join(out)


def like_lexer(escape):
    """LIKE pattern tokenizer: escape char makes the next character literal; % and _ are wildcards."""
    E = None if escape is None else ord(escape)
    def step(c0, c1):
        if E is None:
            isesc = False
        else:
            isesc = Eq(c0, E)
        wild = Or(Eq(c0, ord('%')), Eq(c0, ord('_')))
        kind = ite(isesc, ite(Eq(c1, EOT), ERR, CHAR), ite(wild, WILD, ite(Eq(c0, EOT), END, CHAR)))
        ch = ite(isesc, c1, c0)
        n = ite(isesc, 2, 1)
        return kind, ch, n
    return step


# ------------------------------------------------------------------ local conditions
def local_condition(lexer, image, c, d0, d1):
    """step(image(c) ++ [d0, d1, ...]) consumes exactly image(c) and yields the character c, in one step.
    image: list of code points (ints, or [o] for the symbolic 'other' character); c: the logical character's code point."""
    seq = list(image) + [d0, d1]
    kind, ch, n = lexer(seq[0], seq[1])
    return And(Eq(kind, CHAR), Eq(ch, c), Eq(n, len(image)))


def stop_condition(lexer, close, d0, d1, stop_kinds=(STOP,)):
    seq = [ord(x) for x in close] + [d0, d1]
    kind, ch, n = lexer(seq[0], seq[1])
    return And(Or(*[Eq(kind, k) for k in stop_kinds]), Eq(n, max(len(close), 1) if close else n))


def decode_concrete(lexer, text, stop_kinds=(STOP,)):
    """Run the reference lexer on a concrete text: -> (decoded string, rest) or None on error. Used for native replay and
    for validating the lexers against real engines."""
    out = []; i = 0
    for _ in range(len(text) + 2):
        c0 = ord(text[i]) if i < len(text) else EOT
        c1 = ord(text[i + 1]) if i + 1 < len(text) else EOT
        kind, ch, n = lexer(c0, c1)
        if kind == CHAR:
            out.append(chr(ch)); i += n
        elif kind in stop_kinds:
            return ''.join(out), text[i + (n if kind == STOP else 0):]
        else:
            return None
    return None


def selfcheck_sqlite_literals(maxlen=3):
    """Validate the standard SQL string-literal lexer against the real sqlite3 engine: for every string over a small alphabet,
    the engine's reading of the literal text equals the reference lexer's."""
    import sqlite3, itertools
    con = sqlite3.connect(':memory:')
    lex = sql_string_lexer("'")
    n = 0
    for L_ in range(maxlen + 1):
        for tup in itertools.product("a'%\\", repeat=L_):
            body = ''.join(tup)
            text = "'" + body + "'"
            mine = decode_concrete(lex, text[1:] )
            try:
                theirs = con.execute('select ' + text).fetchone()[0]
                theirs = (theirs, '')
            except sqlite3.Error:
                theirs = None
            if mine is None or mine[1] != '':
                continue             # not a single complete literal (e.g. ''%'' is two literals and an operator): nothing to compare
            assert mine == theirs, ('sql literal lexer mismatch', text, mine, theirs)
            n += 1
    return n


def selfcheck_sqlite_like(maxlen=2):
    """Validate the LIKE tokenizer semantics (with ESCAPE '!') against sqlite3 for small patterns made of literal tokens only:
    x LIKE '%' || tokens || '%' ESCAPE '!'  <=>  decoded literal in x."""
    import sqlite3, itertools
    con = sqlite3.connect(':memory:')
    con.execute('PRAGMA case_sensitive_like = true')
    lex = like_lexer('!')
    n = 0
    alphabet = 'a!%_'
    for L_ in range(maxlen + 1):
        for tup in itertools.product(alphabet, repeat=L_):
            pat = ''.join(tup)
            dec = decode_concrete(lex, pat, stop_kinds=(END,))
            if dec is None:      # contains a wildcard or dangling escape: not a literal-only pattern
                continue
            lit = dec[0]
            for xl in range(3):
                for xt in itertools.product(alphabet, repeat=xl):
                    x = ''.join(xt)
                    try:
                        got = con.execute("select ? like ? escape '!'", (x, '%' + pat + '%')).fetchone()[0]
                    except sqlite3.Error:
                        continue
                    assert bool(got) == (lit in x), ('LIKE tokenizer mismatch', x, pat, lit, got)
                    n += 1
    return n
