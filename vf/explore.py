"""Path enumeration by re-execution of the REAL function over a decision log (DESIGN 2.4).

A *decision* is either an SMT branch (a proxy was observed as a bool) or a finite choice
(fault bit: does this effect raise? / harness partition).  `explore` re-runs the function once per
path, depth first, until the log is exhausted.  A run is exhaustive iff no path ended in
Concretization/Unsupported and the budget was not reached.
"""
import z3, time


class Concretization(BaseException):
    """A proxy was about to leak into C code as a concrete value. Path is UNDECIDED (never 'held')."""


class Unsupported(BaseException):
    """An observation on a proxy that the encoding does not model. Path is UNDECIDED."""


class PathBudget(BaseException):
    pass


class Run:
    cur = None

    def __init__(self, trace, pre):
        self.trace = trace          # list of [choice, n_alternatives_left(list), tag]
        self.pos = 0
        self.solver = z3.Solver()
        self.solver.set('timeout', 20000)
        self.pre = list(pre)
        self.solver.add(*self.pre)
        self.pc = []                # path condition (z3 Bool terms)
        self.axioms = []            # side axioms introduced by proxies on this path (len >= 0 ...)
        self.ghost = []             # ghost trace of effects
        self.counter = {}
        self.state = {}             # harness scratch (objects built on this path)
        self.smt_s = 0.0
        self.unknown_feas = 0
        self.forced = None          # replay mode: list of recorded finite choices

    def fresh_name(self, base):
        n = self.counter.get(base, 0)
        self.counter[base] = n + 1
        return '%s!%d' % (base, n)

    def add_axiom(self, ax):
        self.axioms.append(ax)
        self.solver.add(ax)


def cur():
    r = Run.cur
    if r is None:
        raise RuntimeError('proxy observed outside of an exploration run')
    return r


def _check(solver, cond):
    solver.push()
    solver.add(cond)
    t0 = time.time()
    r = solver.check()
    cur().smt_s += time.time() - t0
    solver.pop()
    return r


def decide(cond, tag='smt'):
    """Fork on a z3 Bool term. Returns the Python bool chosen on this path."""
    r = cur()
    if z3.is_true(cond):
        return True
    if z3.is_false(cond):
        return False
    if r.pos < len(r.trace):
        b = r.trace[r.pos][0]
    else:
        t = _check(r.solver, cond)
        f = _check(r.solver, z3.Not(cond))
        if t == z3.unknown or f == z3.unknown:
            r.unknown_feas += 1
        t_ok = t != z3.unsat
        f_ok = f != z3.unsat
        if t_ok and f_ok:
            r.trace.append([True, [False], tag])
        elif t_ok:
            r.trace.append([True, [], tag])
        elif f_ok:
            r.trace.append([False, [], tag])
        else:
            # pre ∧ pc is unsat: the path is infeasible (can only happen via unknown); treat as dead
            raise Infeasible()
        b = r.trace[r.pos][0]
    r.pos += 1
    c = cond if b else z3.Not(cond)
    r.solver.add(c)
    r.pc.append(c)
    return b


class Infeasible(BaseException):
    pass


def choose(n, tag='choice'):
    """Finite non-SMT choice among range(n) (fault bits, harness partitions). All alternatives explored."""
    r = cur()
    if n <= 0:
        raise ValueError(n)
    if r.forced is not None:
        if not r.forced:
            raise RuntimeError('replay: more choices requested than recorded')
        c = r.forced.pop(0)
        r.trace.append([c, [], 'c:' + tag]); r.pos += 1
        return c
    if r.pos < len(r.trace):
        c = r.trace[r.pos][0]
    else:
        r.trace.append([0, list(range(1, n)), 'c:' + tag])
        c = 0
    r.pos += 1
    return c


def choose_from(seq, tag='choice'):
    seq = list(seq)
    return seq[choose(len(seq), tag)]


class Path:
    __slots__ = ('pc', 'axioms', 'outcome', 'value', 'ghost', 'state', 'decisions', 'pre', 'smt_s')

    def __init__(self, run, outcome, value):
        self.pc = list(run.pc)
        self.axioms = list(run.axioms)
        self.outcome = outcome      # 'ret' | 'exc' | 'undecided'
        self.value = value          # return value | exception instance | message
        self.ghost = list(run.ghost)
        self.state = run.state
        self.decisions = [(t[0], t[2]) for t in run.trace[:run.pos]]
        self.pre = run.pre
        self.smt_s = run.smt_s

    def __repr__(self):
        return '<Path %s %r decisions=%r>' % (self.outcome, self.value, self.decisions)


def explore(fn, pre=(), budget=20000, setup=None, teardown=None):
    """Run fn() once per path. Returns (paths, exhaustive: bool, note)."""
    trace = []
    paths = []
    exhaustive = True
    note = ''
    while True:
        run = Run(trace, pre)
        Run.cur = run
        try:
            if setup is not None:
                setup(run)
            try:
                v = fn()
                p = Path(run, 'ret', v)
            except (Concretization, Unsupported) as e:
                p = Path(run, 'undecided', '%s: %s' % (type(e).__name__, e))
                import traceback
                p.value += ' @ ' + ' <- '.join('%s:%d' % (f.name, f.lineno) for f in traceback.extract_tb(e.__traceback__)[-4:])
                exhaustive = False
                note = p.value
            except Infeasible:
                p = None
            except (KeyboardInterrupt, SystemExit, PathBudget, MemoryError):
                raise
            except BaseException as e:
                p = Path(run, 'exc', e)
        finally:
            try:
                if teardown is not None:
                    teardown(run)
            finally:
                Run.cur = None
        if p is not None:
            paths.append(p)
        if run.unknown_feas:
            note = note or 'feasibility unknown on %d branches (both sides explored)' % run.unknown_feas
        trace = run.trace[:run.pos]
        while trace and not trace[-1][1]:
            trace.pop()
        if not trace:
            break
        last = trace[-1]
        alts = list(last[1])
        nxt = alts.pop(0)
        trace[-1] = [nxt, alts, last[2]]
        if len(paths) >= budget:
            exhaustive = False
            note = 'path budget %d reached' % budget
            break
    return paths, exhaustive, note


def replay_run(fn, choices, setup=None, teardown=None):
    """Concrete re-execution with the recorded finite choices (no proxies, hence no SMT decisions)."""
    run = Run([], ())
    run.forced = list(choices)
    Run.cur = run
    try:
        if setup is not None:
            setup(run)
        try:
            v = fn()
            p = Path(run, 'ret', v)
        except (KeyboardInterrupt, SystemExit):
            raise
        except BaseException as e:
            p = Path(run, 'exc', e)
    finally:
        try:
            if teardown is not None:
                teardown(run)
        finally:
            Run.cur = None
    return p
