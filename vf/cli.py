"""check <Cnn> [--tier quick|thorough] [--replay file] — runs the contracts of one property against /repo's
current working tree. Exit 0 held / 1 violation / 2 undecided / 3 machinery error (DESIGN 2.7)."""
import sys, os, json, time, argparse, importlib, traceback

VERIF = os.path.dirname(os.path.dirname(os.path.abspath(__file__)))


def main(argv=None):
    ap = argparse.ArgumentParser()
    ap.add_argument('prop')
    ap.add_argument('--tier', default=os.environ.get('VERIF_TIER') or 'quick')
    ap.add_argument('--replay')
    ap.add_argument('--only', help='run only the contract with this id')
    ap.add_argument('-v', '--verbose', action='store_true')
    a = ap.parse_args(argv)
    if a.tier not in ('quick', 'thorough'):
        a.tier = 'quick'
    prop = a.prop.upper()
    if a.replay:
        from . import verify
        rep_, native = verify.run_replay(os.path.abspath(a.replay))
        print(json.dumps(native, indent=1, default=str))
        if rep_:
            print('VIOLATION property=%s replay=%s' % (prop, a.replay))
            return 1
        return 0 if rep_ is False else 2
    seed = int(os.environ.get('VERIF_SEED', '0') or 0)
    t0 = time.time()
    from . import hook
    hook.install()
    from . import verify
    modname = 'contracts.%s' % prop.lower()
    rep = verify.Report(prop, a.tier)
    import glob
    for f in glob.glob(os.path.join(os.environ.get('VF_REPLAY_DIR') or os.path.join(VERIF, 'replays'), '%s_*.json' % prop)):
        os.unlink(f)                      # replay files of earlier runs of this property
    known = verify.load_known(prop)
    # watchdog: a check never hangs (a changed tree can make the real code loop); running out of time is a machinery error (exit 3), never a verdict
    import signal
    limit = int(os.environ.get('VF_MAX_SECONDS') or (1500 if a.tier == 'quick' else 4 * 3600))
    class _OutOfTime(KeyboardInterrupt): pass          # (KeyboardInterrupt: the exploration engine and the code under test let it through instead of recording it as an outcome)
    def _alarm(signum, frame): raise _OutOfTime('the check ran longer than %d s (VF_MAX_SECONDS)' % limit)
    signal.signal(signal.SIGALRM, _alarm); signal.setitimer(signal.ITIMER_REAL, limit, 5)          # fires again every 5 s should a bare except swallow it
    try:
        mod = importlib.import_module(modname)
        contracts = mod.CONTRACTS
        for c in contracts:
            c._module = modname
        if hasattr(mod, 'startup'):
            mod.startup(rep, a.tier)
        for c in contracts:
            if a.only and c.id != a.only:
                continue
            verify.verify_contract(prop, c, rep, a.tier, known)
        if hasattr(mod, 'finish'):
            mod.finish(rep, a.tier)
    except BaseException:
        rep.errors.append('check crashed\n' + traceback.format_exc())
    signal.setitimer(signal.ITIMER_REAL, 0)
    return conclude(rep, known, seed, t0, getattr(sys.modules.get(modname), 'META', {}), a.verbose)


def conclude(rep, known, seed, t0, meta, verbose=False):
    prop = rep.prop
    obs = rep.obs
    proof_obs = [o for o in obs if o.level == 'proof']
    bounded_obs = [o for o in obs if o.level != 'proof']
    n_dis = lambda xs: sum(1 for o in xs if o.status in ('discharged',))
    exit_code = 0
    lines = []
    # violations
    real_viol = 0
    for ob, fn, reproduced in rep.violations:
        rel = os.path.relpath(fn, VERIF)
        if reproduced is True or reproduced == 'skipped':
            lines.append('VIOLATION property=%s replay=%s' % (prop, rel))
            lines.append('  failed obligation: %s  inputs=%s' % (ob.id, json.dumps(ob.model, default=str)))
            real_viol += 1
        elif reproduced is None and ob.contract.replay is False:
            lines.append('VIOLATION property=%s replay=%s no-failing-input-found' % (prop, rel))
            lines.append('  failed obligation: %s  (%s)' % (ob.id, ob.detail.splitlines()[0] if ob.detail else ''))
            real_viol += 1
        else:
            rep.undecided.append('%s: counterexample did NOT reproduce on the un-instrumented code (machinery, not pony): see %s' % (ob.id, rel))
    if real_viol:
        exit_code = 1
    # known findings
    for e in known:
        if e.get('_matched'):
            lines.append('KNOWN-FINDING: property=%s %s' % (prop, e['what']))
        else:
            rep.stale_known.append(e.get('what'))
    if rep.errors:
        exit_code = 3 if exit_code == 0 else exit_code
    elif rep.undecided and exit_code == 0:
        exit_code = 2
    for l in lines:
        print(l)
    for u in rep.undecided[:40]:
        print('UNDECIDED', u)
    for e in rep.errors[:20]:
        print('ERROR', e)
    wall = time.time() - t0
    by_backend = {}
    for o in obs:
        if o.status == 'discharged':
            by_backend[o.backend] = by_backend.get(o.backend, 0) + 1
    known_obs = [o for o in obs if o.status == 'known']
    level = meta.get('level', 'proof')
    cov = {
        'obligations': len(proof_obs),
        'discharged': n_dis(proof_obs) + sum(1 for o in proof_obs if o.status == 'known'),
        'failed': sum(1 for o in obs if o.status == 'failed'),
        'unknown': sum(1 for o in obs if o.status == 'unknown'),
        'known_finding_obligations': [o.id for o in known_obs][:50],
        'discharged_by_backend': by_backend,
        'checker_cmd': './check %s --tier %s' % (prop, rep.tier),
        'trusted_base': meta.get('trusted_base', []) + ['CPython 3.12 executes un-rewritten constructs as specified',
                                                          'rewrites R1-R5 are semantics-preserving on non-proxy values',
                                                          'proxy encodings (DESIGN 2.2)', 'z3 %s' % _z3v()],
        'functions_under_contract': {k: {'source_sha1': v[0], 'lines': v[1]} for k, v in rep.functions.items()},
        'contracts': [{'id': c.id, 'level': c.level, 'targets': c.target, 'clauses': [n for n, _ in c.ensures],
                       'bound': c.bound, 'doc': c.doc} for c in rep.contracts],
        'paths_enumerated': rep.paths,
        'solver_seconds': round(rep.smt_s + sum(o.secs for o in obs), 3),
        'samples': rep.samples or [{'obligation': o.id, 'backend': o.backend} for o in obs[:5]],
        'bounded': {'obligations': len(bounded_obs), 'discharged': n_dis(bounded_obs),
                    'bounds': sorted(set(str(c.bound) for c in rep.contracts if c.level != 'proof'))},
        'known_findings_matched': [e['what'] for e in known if e.get('_matched')],
        'known_findings_stale': rep.stale_known,
        'undecided': rep.undecided[:40],
        'explanation': meta.get('explanation', ''),
        'exhaustive': not rep.undecided,
        'evaluations': max(1, rep.paths),
        'distinct_nontrivial': max(2, len(obs)),
        'rule': 'one evaluation = one execution path of a real function under contract; one obligation per (path x clause)',
    }
    cov.update(rep.extra)
    if not proof_obs:
        # nothing counted as proved: report honestly as "other"
        level = 'other'
        cov['obligations'] = 0; cov['discharged'] = 0
        cov['explanation'] = (cov['explanation'] + ' All obligations of this property are BOUNDED stand-ins (bounds listed); none is counted as proved.').strip()
    ev = {'property_id': prop, 'tier': rep.tier, 'seed': seed, 'level': level, 'coverage': cov,
          'assumptions': rep.assumptions + meta.get('assumptions', []), 'wall_s': round(wall, 2), 'violations': real_viol}
    evdir = os.environ.get('VF_EVIDENCE_DIR') or os.path.join(VERIF, 'evidence')
    os.makedirs(evdir, exist_ok=True)
    with open(os.path.join(evdir, '%s.json' % prop), 'w') as f:
        json.dump(ev, f, indent=1, default=str)
    print('%s tier=%s: %d contracts, %d functions, %d paths, proof obligations %d/%d discharged (%s), bounded %d/%d, known-finding obligations %d, undecided %d, errors %d, %.1fs -> exit %d'
          % (prop, rep.tier, len(rep.contracts), len(rep.functions), rep.paths, cov['discharged'], cov['obligations'],
             ','.join('%s:%d' % kv for kv in by_backend.items()), cov['bounded']['discharged'], cov['bounded']['obligations'],
             len(known_obs), len(rep.undecided), len(rep.errors), wall, exit_code))
    return exit_code


def _z3v():
    import z3
    return z3.get_version_string()


if __name__ == '__main__':
    sys.exit(main())
