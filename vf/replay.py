"""Native replay of a counterexample: the UN-instrumented real code from /repo's working tree, in a fresh
interpreter, with the concrete inputs of the counter-model and the recorded finite choices (fault bits).
Usage: python -m vf.replay <replay.json>   -> last stdout line is a JSON verdict."""
import sys, json, importlib, traceback


def main(fn):
    doc = json.load(open(fn))
    from . import verify, explore as ex
    mod = importlib.import_module(doc['module'])
    c = [x for x in mod.CONTRACTS if x.id == doc['contract']][0]
    cfgs = verify.get_configs(c, doc.get('tier', 'quick'))
    cfg = cfgs[doc['config_index']]
    if callable(c.replay):
        out = c.replay(cfg, doc['inputs'], doc)
        print(json.dumps(out, default=str))
        return
    case = c.case(cfg, doc['inputs'])
    choices = [a for a, tag in doc['decisions'] if str(tag).startswith('c:')]
    path = ex.replay_run(case.call, choices, case.setup, case.teardown)
    clause = doc['clause']
    out = {'outcome': path.outcome, 'value': _show(path.value), 'ghost_trace': [str(g) for g in path.ghost]}
    if clause == 'assert-safety':
        out['reproduced'] = path.outcome == 'exc' and isinstance(path.value, AssertionError)
    elif clause == 'no-unexpected-exception':
        out['reproduced'] = path.outcome == 'exc' and not isinstance(path.value, tuple(c.allowed_exc))
    else:
        if path.outcome == 'exc' and not isinstance(path.value, tuple(c.allowed_exc)):
            out['reproduced'] = False
            out['detail'] = 'native run raised an exception outside the contract: ' + ''.join(
                traceback.format_exception(type(path.value), path.value, path.value.__traceback__)[-4:])
        else:
            fn_ = dict(c.ensures)[clause]
            r = fn_(cfg, case.inputs, path)
            out['clause_value'] = None if r is None else bool(r)
            out['reproduced'] = (r is not None) and (not bool(r))
            if isinstance(getattr(path, 'state', None), dict) and path.state.get('why'): out['why'] = [str(w)[:400] for w in path.state['why']][:6]          # the contract's own explanation
    print(json.dumps(out, default=str))


def _show(v):
    try:
        return repr(v)[:500]
    except BaseException as e:
        return '<unprintable %s>' % type(e).__name__


if __name__ == '__main__':
    main(sys.argv[1])
