"""Symbolic proxy values (DESIGN 2.2). Every way a proxy could leak into C code as a concrete value raises
Concretization (BaseException, so pony's `except Exception` cannot swallow it)."""
import z3
from .explore import decide, cur, Concretization, Unsupported


class Proxy(object):
    __slots__ = ()

    def __hash__(self):
        raise Concretization('hash(%s)' % type(self).__name__)

    def __index__(self):
        raise Concretization('__index__(%s)' % type(self).__name__)

    def __int__(self):
        raise Concretization('int(%s)' % type(self).__name__)

    def __float__(self):
        raise Concretization('float(%s)' % type(self).__name__)

    def __str__(self):
        raise Concretization('str(%s)' % type(self).__name__)

    def __repr__(self):
        raise Concretization('repr(%s)' % type(self).__name__)

    def __format__(self, spec):
        raise Concretization('format(%s)' % type(self).__name__)

    def __iter__(self):
        raise Concretization('iter(%s)' % type(self).__name__)

    def __len__(self):
        raise Concretization('len(%s)' % type(self).__name__)

    def __reduce__(self):
        raise Concretization('pickle(%s)' % type(self).__name__)

    # what isinstance()/type() say under rewrite R2
    vf_type = object


class SymBool(Proxy):
    __slots__ = ('e',)
    vf_type = bool

    def __init__(self, e):
        self.e = e

    def __bool__(self):
        return decide(self.e)

    def __eq__(self, o):
        if isinstance(o, SymBool):
            return SymBool(self.e == o.e)
        if isinstance(o, bool):
            return SymBool(self.e == z3.BoolVal(o))
        return False

    def __ne__(self, o):
        r = self.__eq__(o)
        return SymBool(z3.Not(r.e)) if isinstance(r, SymBool) else (not r)

    __hash__ = Proxy.__hash__


def _lift_int(x):
    if isinstance(x, SymInt):
        return x.e
    if isinstance(x, bool):
        return z3.IntVal(int(x))
    if isinstance(x, int):
        return z3.IntVal(x)
    return None


def py_floordiv(a, b):
    """Python floor division on z3 Ints (z3's div rounds so that the remainder is non-negative)."""
    return z3.If(b > 0, a / b, (-a) / (-b))


def py_mod(a, b):
    return a - b * py_floordiv(a, b)


class SymInt(Proxy):
    """Mathematical integer: exact for Python int."""
    __slots__ = ('e',)
    vf_type = int

    def __init__(self, e):
        self.e = e if isinstance(e, z3.ExprRef) else z3.Int(e)

    def _bin(self, o, f, rev=False):
        oe = _lift_int(o)
        if oe is None:
            if isinstance(o, SymReal):
                return NotImplemented
            if isinstance(o, float):
                return NotImplemented
            return NotImplemented
        return SymInt(f(oe, self.e) if rev else f(self.e, oe))

    def __add__(self, o): return self._bin(o, lambda a, b: a + b)
    def __radd__(self, o): return self._bin(o, lambda a, b: a + b, True)
    def __sub__(self, o): return self._bin(o, lambda a, b: a - b)
    def __rsub__(self, o): return self._bin(o, lambda a, b: a - b, True)
    def __mul__(self, o): return self._bin(o, lambda a, b: a * b)
    def __rmul__(self, o): return self._bin(o, lambda a, b: a * b, True)

    def _divguard(self, d):
        if decide(d == 0):
            raise ZeroDivisionError('integer division or modulo by zero')

    def __floordiv__(self, o):
        oe = _lift_int(o)
        if oe is None: return NotImplemented
        self._divguard(oe)
        return SymInt(py_floordiv(self.e, oe))

    def __rfloordiv__(self, o):
        oe = _lift_int(o)
        if oe is None: return NotImplemented
        self._divguard(self.e)
        return SymInt(py_floordiv(oe, self.e))

    def __mod__(self, o):
        oe = _lift_int(o)
        if oe is None: return NotImplemented
        self._divguard(oe)
        return SymInt(py_mod(self.e, oe))

    def __rmod__(self, o):
        oe = _lift_int(o)
        if oe is None: return NotImplemented
        self._divguard(self.e)
        return SymInt(py_mod(oe, self.e))

    def __divmod__(self, o):
        return self // o, self % o

    def __pow__(self, o):
        if isinstance(o, int) and not isinstance(o, bool) and 0 <= o <= 8:
            r = z3.IntVal(1)
            for _ in range(o):
                r = r * self.e
            return SymInt(r)
        raise Unsupported('SymInt ** %r' % (o,))

    def __rpow__(self, o):
        raise Unsupported('%r ** SymInt' % (o,))

    def __neg__(self): return SymInt(-self.e)
    def __pos__(self): return self
    def __abs__(self): return SymInt(z3.If(self.e < 0, -self.e, self.e))

    def _cmp(self, o, f, default):
        oe = _lift_int(o)
        if oe is None:
            if isinstance(o, SymReal):
                return SymBool(f(z3.ToReal(self.e), o.e))
            if default is None:
                return NotImplemented
            return default
        return SymBool(f(self.e, oe))

    def __lt__(self, o): return self._cmp(o, lambda a, b: a < b, None)
    def __le__(self, o): return self._cmp(o, lambda a, b: a <= b, None)
    def __gt__(self, o): return self._cmp(o, lambda a, b: a > b, None)
    def __ge__(self, o): return self._cmp(o, lambda a, b: a >= b, None)
    def __eq__(self, o): return self._cmp(o, lambda a, b: a == b, False)
    def __ne__(self, o): return self._cmp(o, lambda a, b: a != b, True)

    def __bool__(self):
        return decide(self.e != 0)

    __hash__ = Proxy.__hash__


class SymReal(Proxy):
    """Exact real: used for Decimal comparisons (no quantize / NaN)."""
    __slots__ = ('e', 'pytype')

    def __init__(self, e, pytype=None):
        self.e = e if isinstance(e, z3.ExprRef) else z3.Real(e)
        self.pytype = pytype

    @property
    def vf_type(self):
        return self.pytype or object

    def _lift(self, o):
        import decimal, fractions
        if isinstance(o, SymReal): return o.e
        if isinstance(o, SymInt): return z3.ToReal(o.e)
        if isinstance(o, bool): return z3.RealVal(int(o))
        if isinstance(o, int): return z3.RealVal(o)
        if isinstance(o, decimal.Decimal):
            if not o.is_finite():
                raise Unsupported('non-finite Decimal against SymReal')
            return z3.RealVal(str(fractions.Fraction(o)))
        return None

    def _cmp(self, o, f, default):
        oe = self._lift(o)
        if oe is None:
            if default is None: return NotImplemented
            return default
        return SymBool(f(self.e, oe))

    def __lt__(self, o): return self._cmp(o, lambda a, b: a < b, None)
    def __le__(self, o): return self._cmp(o, lambda a, b: a <= b, None)
    def __gt__(self, o): return self._cmp(o, lambda a, b: a > b, None)
    def __ge__(self, o): return self._cmp(o, lambda a, b: a >= b, None)
    def __eq__(self, o): return self._cmp(o, lambda a, b: a == b, False)
    def __ne__(self, o): return self._cmp(o, lambda a, b: a != b, True)
    def __bool__(self): return decide(self.e != 0)
    __hash__ = Proxy.__hash__


FP64 = z3.Float64()


class SymFloat(Proxy):
    """IEEE-754 binary64 incl. NaN / inf / -0.0. Only comparisons, float(), truthiness, negation."""
    __slots__ = ('e',)
    vf_type = float

    def __init__(self, e):
        self.e = e if isinstance(e, z3.ExprRef) else z3.FP(e, FP64)

    def _lift(self, o):
        if isinstance(o, SymFloat): return o.e
        if isinstance(o, bool): return z3.FPVal(float(o), FP64)
        if isinstance(o, float): return z3.FPVal(o, FP64)
        if isinstance(o, int):
            if abs(o) <= 2 ** 53:
                return z3.FPVal(float(o), FP64)
            raise Unsupported('SymFloat against large int')
        return None

    def _cmp(self, o, f, default):
        oe = self._lift(o)
        if oe is None:
            if default is None: return NotImplemented
            return default
        return SymBool(f(self.e, oe))

    def __lt__(self, o): return self._cmp(o, z3.fpLT, None)
    def __le__(self, o): return self._cmp(o, z3.fpLEQ, None)
    def __gt__(self, o): return self._cmp(o, z3.fpGT, None)
    def __ge__(self, o): return self._cmp(o, z3.fpGEQ, None)
    def __eq__(self, o): return self._cmp(o, z3.fpEQ, False)
    def __ne__(self, o): return self._cmp(o, lambda a, b: z3.Not(z3.fpEQ(a, b)), True)
    def __neg__(self): return SymFloat(z3.fpNeg(self.e))
    def __bool__(self): return decide(z3.Not(z3.fpIsZero(self.e)))
    def __float__(self): raise Concretization('float(SymFloat) in C code')
    __hash__ = Proxy.__hash__


class SRef(Proxy):
    """Symbolic reference to one of an enumerated set of real objects (value read out of a SymDict)."""
    __slots__ = ('e', 'universe', 'resolved')
    # universe: ObjUniverse

    def __init__(self, e, universe):
        self.e = e
        self.universe = universe
        self.resolved = None          # the real object, once the path has fixed which one it is

    def vf_is(self, other):
        if isinstance(other, SRef):
            return SymBool(self.e == other.e)
        code = self.universe.code_of(other)
        if code is None:
            return False
        return SymBool(self.e == code)

    def __eq__(self, o):
        return self.vf_is(o)

    def __ne__(self, o):
        r = self.vf_is(o)
        return SymBool(z3.Not(r.e)) if isinstance(r, SymBool) else (not r)

    def __bool__(self):
        # entity instances are truthy; ABSENT never escapes as an SRef
        return True

    def resolve(self):
        """Fork over the universe and return the real object."""
        if self.resolved is not None:
            return self.resolved
        for obj, code in self.universe.items():
            if decide(self.e == code):
                self.resolved = obj
                return obj
        raise Unsupported('SRef outside its universe')

    def __getattr__(self, name):
        if name.startswith('__'):
            raise AttributeError(name)
        return getattr(self.resolve(), name)

    @property
    def __class__(self):
        # `obj.__class__` in the code under contract means the class of the referenced real object
        return type(self.resolve())

    @__class__.setter
    def __class__(self, value):
        self.resolve().__class__ = value

    __hash__ = Proxy.__hash__


class ObjUniverse(object):
    """Finite set of real objects with integer codes; code 0 = ABSENT."""

    def __init__(self, objs):
        self.objs = list(objs)

    open = False      # an open universe admits new real objects (created by the code under contract) with fresh codes

    def code_of(self, o):
        for i, x in enumerate(self.objs):
            if x is o:
                return z3.IntVal(i + 1)
        if self.open and not isinstance(o, Proxy) and o is not None:
            self.objs.append(o)
            return z3.IntVal(len(self.objs))
        return None

    def items(self):
        return [(o, z3.IntVal(i + 1)) for i, o in enumerate(self.objs)]

    def constraint(self, term):
        return z3.And(term >= 0, term <= len(self.objs))


ABSENT = z3.IntVal(0)


def _key_term(k):
    if isinstance(k, SymInt):
        return k.e
    if isinstance(k, bool):
        raise Unsupported('bool key')
    if isinstance(k, int):
        return z3.IntVal(k)
    return None


class SymDict(Proxy):
    """dict with arbitrary (symbolic) content: Array(Int^arity -> code), code 0 = absent.
    Keys: SymInt / int (arity 1) or tuples of them (arity n). CPython dict semantics incl. KeyError."""
    __slots__ = ('arr', 'arity', 'universe', 'name', 'log')
    vf_type = dict

    def __init__(self, arr, arity, universe, name='d'):
        self.arr = arr
        self.arity = arity
        self.universe = universe
        self.name = name
        self.log = []

    @staticmethod
    def fresh(name, arity, universe):
        dom = [z3.IntSort()] * arity
        arr = z3.Array(name, *(dom + [z3.IntSort()]))
        return SymDict(arr, arity, universe, name)

    def _idx(self, k):
        if self.arity == 1:
            if isinstance(k, tuple):
                # a tuple key in a simple index never matches an int key
                return None
            t = _key_term(k)
            return None if t is None else (t,)
        if not isinstance(k, tuple) or len(k) != self.arity:
            return None
        ts = tuple(_key_term(x) for x in k)
        if any(t is None for t in ts):
            return None
        return ts

    def _sel(self, idx):
        t = z3.Select(self.arr, *idx)
        from .explore import Run
        if Run.cur is not None:
            Run.cur.add_axiom(self.universe.constraint(t))      # a stored value is absent or one of the universe's objects
        return t

    def _wrap(self, code_term):
        return SRef(code_term, self.universe)

    def _code(self, v):
        if isinstance(v, SRef):
            return v.e
        c = self.universe.code_of(v)
        if c is None:
            raise Unsupported('value outside SymDict universe: %r' % type(v))
        return c

    def get(self, k, default=None):
        idx = self._idx(k)
        if idx is None:
            return default
        cur_ = self._sel(idx)
        if decide(cur_ == ABSENT):
            return default
        return self._wrap(cur_)

    def __getitem__(self, k):
        idx = self._idx(k)
        if idx is None:
            raise KeyError(k)
        cur_ = self._sel(idx)
        if decide(cur_ == ABSENT):
            raise KeyError('<symbolic key>')
        return self._wrap(cur_)

    def vf_contains(self, k):
        idx = self._idx(k)
        if idx is None:
            return False
        return SymBool(self._sel(idx) != ABSENT)

    def __contains__(self, k):
        r = self.vf_contains(k)
        return bool(r)

    def setdefault(self, k, v=None):
        idx = self._idx(k)
        if idx is None:
            raise Unsupported('SymDict.setdefault with non-int key')
        cur_ = self._sel(idx)
        if decide(cur_ == ABSENT):
            self.arr = z3.Store(self.arr, *(idx + (self._code(v),)))
            self.log.append(('set', k))
            return v
        return self._wrap(cur_)

    def __setitem__(self, k, v):
        idx = self._idx(k)
        if idx is None:
            raise Unsupported('SymDict[%r] = ...' % (k,))
        self.arr = z3.Store(self.arr, *(idx + (self._code(v),)))
        self.log.append(('set', k))

    def __delitem__(self, k):
        idx = self._idx(k)
        if idx is None:
            raise KeyError(k)
        if decide(self._sel(idx) == ABSENT):
            raise KeyError('<symbolic key>')
        self.arr = z3.Store(self.arr, *(idx + (ABSENT,)))
        self.log.append(('del', k))

    def pop(self, k, *default):
        idx = self._idx(k)
        if idx is None:
            if default: return default[0]
            raise KeyError(k)
        cur_ = self._sel(idx)
        if decide(cur_ == ABSENT):
            if default: return default[0]
            raise KeyError('<symbolic key>')
        self.arr = z3.Store(self.arr, *(idx + (ABSENT,)))
        self.log.append(('del', k))
        return self._wrap(cur_)

    def __bool__(self):
        raise Unsupported('truthiness of SymDict')

    __hash__ = Proxy.__hash__


class SymSet(Proxy):
    """Set of objects from a finite universe with arbitrary symbolic membership: Array(code -> Bool)."""
    __slots__ = ('arr', 'universe', 'name')
    vf_type = set

    def __init__(self, arr, universe, name='s'):
        self.arr = arr
        self.universe = universe
        self.name = name

    @staticmethod
    def fresh(name, universe):
        return SymSet(z3.Array(name, z3.IntSort(), z3.BoolSort()), universe, name)

    def _code(self, v):
        if isinstance(v, SRef):
            return v.e
        c = self.universe.code_of(v)
        if c is None:
            raise Unsupported('value outside SymSet universe: %r' % type(v))
        return c

    def member(self, v):
        return z3.Select(self.arr, self._code(v))

    def vf_contains(self, v):
        return SymBool(self.member(v))

    def __contains__(self, v):
        return bool(self.vf_contains(v))

    def add(self, v):
        self.arr = z3.Store(self.arr, self._code(v), z3.BoolVal(True))

    def discard(self, v):
        self.arr = z3.Store(self.arr, self._code(v), z3.BoolVal(False))

    def remove(self, v):
        if not decide(self.member(v)):
            raise KeyError(v)
        self.discard(v)

    def copy(self):
        return SymSet(self.arr, self.universe, self.name)

    def __bool__(self):
        raise Unsupported('truthiness of SymSet')

    __hash__ = Proxy.__hash__


# ----------------------------------------------------------------------------------------------
# Strings (DESIGN 2.2 / 2.6): a string is a list of pieces
#   ('lit', text) | ('sym', name, chain) | ('int', z3 Int term, fmt) | ('opq', tag)
# chain = tuple of (needle, repl) one-character-needle replacements applied in order (a char-wise
# homomorphism). Concatenation, %-format, join and f-strings are free-monoid operations on pieces.

def _str_atom(kind, *key):
    """A Bool atom for an observation the encoding does not interpret; the same observation on the same
    structure yields the same atom (so re-evaluation is consistent), and the path forks on it."""
    return z3.Bool('%s!%s' % (kind, '|'.join(map(str, key))))


class SymStr(Proxy):
    __slots__ = ('pieces',)
    vf_type = str

    def __init__(self, pieces):
        out = []
        for p in pieces:
            if p[0] == 'lit':
                if not p[1]:
                    continue
                if out and out[-1][0] == 'lit':
                    out[-1] = ('lit', out[-1][1] + p[1])
                    continue
            out.append(p)
        self.pieces = tuple(out)

    @staticmethod
    def sym(name):
        return SymStr([('sym', name, ())])

    @staticmethod
    def lift(x):
        if isinstance(x, SymStr):
            return x
        if isinstance(x, str):
            return SymStr([('lit', x)])
        if isinstance(x, SymInt):
            return SymStr([('int', x.e, '')])
        raise Unsupported('cannot lift %s to SymStr' % type(x).__name__)

    def key(self):
        return repr([(p[0],) + tuple(str(x) for x in p[1:]) for p in self.pieces])

    def show(self):
        out = []
        for p in self.pieces:
            if p[0] == 'lit': out.append(p[1])
            elif p[0] == 'sym': out.append('<%s%s>' % (p[1], ''.join('|%s→%s' % c for c in p[2])))
            elif p[0] == 'int': out.append('<int %s %s>' % (p[1], p[2]))
            else: out.append('<%s>' % (p[1],))
        return ''.join(out)

    def is_literal(self):
        return all(p[0] == 'lit' for p in self.pieces)

    def literal(self):
        return ''.join(p[1] for p in self.pieces)

    # --- free monoid
    def __add__(self, o):
        if isinstance(o, (str, SymStr)):
            return SymStr(self.pieces + SymStr.lift(o).pieces)
        return NotImplemented

    def __radd__(self, o):
        if isinstance(o, str):
            return SymStr((('lit', o),) + self.pieces)
        return NotImplemented

    def __mul__(self, n):
        if isinstance(n, int) and not isinstance(n, bool):
            return SymStr(self.pieces * max(n, 0))
        raise Unsupported('SymStr * %r' % (n,))

    def replace(self, a, b, *count):
        if not count and isinstance(a, str) and isinstance(b, str) and len(a) > 1 and not self.is_literal():
            # a multi-character needle cannot occur when one of its characters is known to be absent on this path
            absent = cur().state.get('absent', set())
            if len(self.pieces) == 1 and self.pieces[0][0] == 'sym' and any(((self._base_sym(ch) or self.key()), ch) in absent for ch in a):
                return self
        if count or not isinstance(a, str) or not isinstance(b, str) or len(a) != 1:
            raise Unsupported('SymStr.replace(%r, %r)' % (a, b))
        out = []
        for p in self.pieces:
            if p[0] == 'lit':
                out.append(('lit', p[1].replace(a, b)))
            elif p[0] == 'sym':
                out.append(('sym', p[1], p[2] + ((a, b),)))
            elif p[0] == 'int':
                if a in '-0123456789':
                    raise Unsupported('replace of digit in int piece')
                out.append(p)
            else:
                raise Unsupported('replace on opaque piece')
        return SymStr(out)

    # --- length
    def vf_len(self):
        total = z3.IntVal(0)
        for p in self.pieces:
            if p[0] == 'lit':
                total = total + len(p[1])
            elif p[0] == 'sym' and not p[2]:
                total = total + sym_len(p[1])
            else:
                raise Unsupported('len of %s piece' % (p[0],))
        return SymInt(z3.simplify(total))

    def __bool__(self):
        if self.is_literal():
            return bool(self.literal())
        for p in self.pieces:
            if p[0] == 'lit' and p[1]:
                return True
            if p[0] == 'int':
                return True
        return bool(self.vf_len() != 0)

    # --- observations that fork on an atom
    def _same(self, o):
        return self.pieces == o.pieces or self.key() == o.key()

    def __eq__(self, o):
        if isinstance(o, str):
            o = SymStr.lift(o)
        if not isinstance(o, SymStr):
            return False
        if self._same(o):
            return True
        if self.is_literal() and o.is_literal():
            return self.literal() == o.literal()
        a, b = sorted([self.key(), o.key()])
        atom = _str_atom('streq', a, b)
        # length reasoning where available: equal strings have equal length
        try:
            cur().add_axiom(z3.Implies(atom, self.vf_len().e == o.vf_len().e))
        except Unsupported:
            pass
        return SymBool(atom)

    def __ne__(self, o):
        r = self.__eq__(o)
        return SymBool(z3.Not(r.e)) if isinstance(r, SymBool) else (not r)

    def _base_sym(self, ch):
        """If self is Hom(chain, <name>) and the chain neither consumes nor produces ch, then  ch in self <=> ch in <name>."""
        if len(self.pieces) == 1 and self.pieces[0][0] == 'sym' and isinstance(ch, str) and len(ch) == 1:
            name, chain = self.pieces[0][1], self.pieces[0][2]
            if all(ch not in a and ch not in b for a, b in chain):
                return name
        return None

    def vf_contains(self, x):
        if isinstance(x, str) and self.is_literal():
            return x in self.literal()
        if isinstance(x, str) and len(x) >= 1 and any(p[0] == 'lit' and x in p[1] for p in self.pieces):
            return True
        if isinstance(x, str) and len(x) == 1 and x not in '-0123456789' and self._structured():
            return False        # literal pieces were checked above; the decimal rendering of an integer has only digits and '-'
        base = self._base_sym(x)
        if base is not None:
            return SymBool(char_in_sym(base, x))
        xs = SymStr.lift(x)
        return SymBool(_str_atom('contains', self.key(), xs.key()))

    def __contains__(self, x):
        return bool(self.vf_contains(x))

    def _structured(self):
        return all(p[0] in ('lit', 'int') for p in self.pieces)

    def _piece_len(self, p):
        """length of a piece as a concrete int, when it is determined (forks / fails otherwise)"""
        if p[0] == 'lit': return len(p[1])
        if p[0] == 'int' and p[2] and p[2][0] == '0' and p[2][1:].isdigit():
            w = int(p[2][1:])
            if decide(z3.And(p[1] >= 0, p[1] < 10 ** w)):      # zero-padded to exactly w digits
                return w
        if p[0] == 'int' and p[2] == '':
            # decimal rendering of a non-negative integer below 10**9: fork on the number of digits
            if decide(p[1] >= 0):
                for k in range(1, 10):
                    if decide(p[1] < 10 ** k): return k
        raise Unsupported('length of piece %r' % (p[0],))

    def split(self, sep=None, *a):
        if self.is_literal(): return self.literal().split(sep, *a)
        if a or not isinstance(sep, str) or len(sep) != 1 or sep in '-0123456789' or not self._structured():
            raise Unsupported('SymStr.split(%r)' % (sep,))
        parts = [[]]
        for p in self.pieces:
            if p[0] == 'lit':
                chunks = p[1].split(sep)
                parts[-1].append(('lit', chunks[0]))
                for c in chunks[1:]: parts.append([('lit', c)])
            else:
                parts[-1].append(p)
        return [SymStr(x) for x in parts]

    def vf_int(self):
        """int(s) for a string that is the decimal rendering of one symbolic integer"""
        if self.is_literal(): return int(self.literal())
        ps = [p for p in self.pieces if not (p[0] == 'lit' and p[1] == '')]
        if len(ps) == 1 and ps[0][0] == 'int':
            e, fmt = ps[0][1], ps[0][2]
            if fmt == '' or (fmt[0] == '0' and decide(e >= 0)):
                return SymInt(e)                   # int(str(n)) == n ; int('%06d' % n) == n for n >= 0
        if len(ps) == 2 and ps[0][0] == 'int' and ps[0][2] == '' and ps[1][0] == 'lit' and ps[1][1].isdigit() and decide(ps[0][1] >= 0):
            return SymInt(ps[0][1] * 10 ** len(ps[1][1]) + int(ps[1][1]))      # int(str(n) + 'ddd') == n * 1000 + ddd for n >= 0
        if len(ps) == 2 and ps[0] == ('lit', '-') and ps[1][0] == 'int' and ps[1][2] == '' and decide(ps[1][1] >= 0):
            return SymInt(-ps[1][1])               # int('-' + str(n)) == -n for n >= 0
        raise Unsupported('int(%s)' % self.show())

    def startswith(self, x, *a):
        if a: raise Unsupported('startswith with range')
        if isinstance(x, str) and x == '-' and self.pieces and self.pieces[0][0] == 'int' and self.pieces[0][2] in ('', ):
            return SymBool(self.pieces[0][1] < 0)   # str(n) starts with '-' iff n < 0
        if isinstance(x, tuple):
            for y in x:
                if self.startswith(y): return True
            return False
        if isinstance(x, str) and self.pieces and self.pieces[0][0] == 'lit' and len(self.pieces[0][1]) >= len(x):
            return self.pieces[0][1].startswith(x)
        if isinstance(x, str) and x == '': return True
        return SymBool(_str_atom('startswith', self.key(), SymStr.lift(x).key()))

    def endswith(self, x, *a):
        if a: raise Unsupported('endswith with range')
        if isinstance(x, tuple):
            for y in x:
                if self.endswith(y): return True
            return False
        if isinstance(x, str) and self.pieces and self.pieces[-1][0] == 'lit' and len(self.pieces[-1][1]) >= len(x):
            return self.pieces[-1][1].endswith(x)
        if isinstance(x, str) and x == '': return True
        return SymBool(_str_atom('endswith', self.key(), SymStr.lift(x).key()))

    def _derived(self, op, len_rel):
        """A derived opaque symbol op(self) with a length relation to self."""
        if self.is_literal():
            if op.startswith('prefix'): return self.literal()[:int(op[6:])]
            return getattr(self.literal(), op)()
        name = '%s(%s)' % (op, self.key())
        r = SymStr.sym(name)
        from .explore import Run
        if Run.cur is not None:
            try:
                n = self.vf_len().e
                cur().add_axiom(len_rel(sym_len(name), n))
            except Unsupported:
                pass
        return r

    def strip(self, *a):
        if a: raise Unsupported('strip(chars)')
        if len(self.pieces) == 1 and self.pieces[0][0] == 'sym' and self.pieces[0][1].startswith('strip('):
            return self
        return self._derived('strip', lambda m, n: z3.And(m >= 0, m <= n))

    def lower(self):
        return self._derived('lower', lambda m, n: m == n)

    def upper(self):
        return self._derived('upper', lambda m, n: m == n)

    def __getitem__(self, k):
        if self.is_literal():
            return self.literal()[k]
        if isinstance(k, slice) and k.step is None and k.stop is None and (k.start is None or (isinstance(k.start, int) and k.start == 0)):
            return self                       # s[0:] / s[:] is s
        if isinstance(k, slice) and k.step is None and k.start in (None, 0) and isinstance(k.stop, int) and k.stop >= 0 and self._structured():
            out = []; left = k.stop            # prefix of known-length pieces
            for p in self.pieces:
                if left <= 0: break
                n = self._piece_len(p)
                if n <= left: out.append(p); left -= n
                elif p[0] == 'lit': out.append(('lit', p[1][:left])); left = 0
                else: raise Unsupported('slice cuts an integer piece')
            return SymStr(out)
        if isinstance(k, slice) and k.step is None and k.start in (None, 0) and isinstance(k.stop, int) and k.stop >= 0:
            stop = k.stop                      # prefix of an arbitrary string: an opaque symbol whose length is min(len, stop)
            return self._derived('prefix%d' % stop, lambda m, n: m == z3.If(n <= stop, n, z3.IntVal(stop)))
        raise Unsupported('SymStr[%r]' % (k,))

    def _absent(self, ch):
        """Fork on 'ch occurs in self'; on the negative branch the fact is recorded for this path."""
        r = self.vf_contains(ch)
        present = bool(r)
        if not present:
            cur().state.setdefault('absent', set()).add((self._base_sym(ch) or self.key(), ch))
        return not present

    def index(self, ch, *pos):
        if self.is_literal():
            return self.literal().index(ch, *pos)
        if isinstance(ch, str) and len(ch) == 1 and (not pos or pos == (0,)):
            if self._absent(ch):
                raise ValueError('substring not found')
            raise Unsupported('SymStr.index: symbolic position')
        raise Unsupported('SymStr.index(%r)' % (ch,))

    def find(self, ch, *pos):
        try:
            return self.index(ch, *pos)
        except ValueError:
            return -1

    def encode(self, *a):
        raise Unsupported('SymStr.encode')

    def __mod__(self, o):
        raise Unsupported('SymStr %% args (symbolic format string)')

    __hash__ = Proxy.__hash__


def char_in_sym(name, ch):
    """The atom 'character ch occurs in the symbolic string <name>' (usable in preconditions)."""
    return z3.Bool('charin!%s!%d' % (name, ord(ch)))


def sym_len(name):
    t = z3.Int('len!%s' % name)
    from .explore import Run
    r = Run.cur
    if r is None:
        return t                      # clause evaluation after the run: axioms are already on the path
    key = ('len', name)
    if key not in r.state.setdefault('_len_ax', set()):
        r.state['_len_ax'].add(key)
        r.add_axiom(t >= 0)
    return t
