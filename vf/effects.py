"""External effects and faults as ghost-trace stubs (DESIGN 2.3): an effect appends to the ghost trace and forks into
'returns' and 'raises E' for each exception class it may raise. In native replay the recorded choices are forced."""
from .explore import cur, choose


class Fault(Exception):
    """Injected failure of an external dependency."""


def effect(name, raises=(Fault,), ret=None, may_raise=True):
    def f(*a, **k):
        r = cur()
        n = choose(1 + len(raises), 'fault:' + name) if (may_raise and raises) else 0
        if n == 0:
            r.ghost.append((name, 'ok'))
            return ret(*a, **k) if callable(ret) else ret
        exc = raises[n - 1]('injected fault in %s' % name)
        r.ghost.append((name, 'raise', type(exc).__name__))
        r.state.setdefault('faults', []).append(exc)
        raise exc
    f.__name__ = 'effect_' + name.replace('.', '_')
    return f


def note(*event):
    cur().ghost.append(tuple(event))


def names(ghost):
    return [g[0] for g in ghost]


def ok(ghost, name):
    return [i for i, g in enumerate(ghost) if g[0] == name and g[1] == 'ok']


def occ(ghost, name):
    return [i for i, g in enumerate(ghost) if g[0] == name]


class Patch(object):
    """Patch module/class attributes for the duration of one path; restored in teardown."""
    def __init__(self):
        self.saved = []

    def set(self, obj, name, value):
        missing = object()
        old = obj.__dict__.get(name, missing) if hasattr(obj, '__dict__') else getattr(obj, name, missing)
        self.saved.append((obj, name, old, missing))
        setattr(obj, name, value)

    def restore(self):
        for obj, name, old, missing in reversed(self.saved):
            if old is missing:
                try: delattr(obj, name)
                except AttributeError: pass
            else:
                setattr(obj, name, old)
        self.saved = []
