"""Instrumenting import hook (DESIGN 2.1): pony's modules are compiled from /repo's *current* source with
five mechanical AST rewrites R1-R5, so that proxies are never silently concretised inside C code.
The repository files are never edited. Each helper returns exactly the value of the original
operation whenever no operand is a proxy."""
import ast, sys, os, re, builtins, importlib.machinery

from .proxy import Proxy, SymBool, SymInt, SymStr, SymFloat, SymReal, SRef, SymDict, SymSet
from .explore import Unsupported, Concretization

REPO = os.environ.get('VF_REPO', '/repo')
STATS = {'is': 0, 'builtin': 0, 'mod': 0, 'join': 0, 'contains': 0, 'fstr': 0, 'getitem': 0}
COUNT = False       # set True for the instrumentation-equivalence run

_isinstance = isinstance
_type = type


def _has_proxy(args):
    for a in args:
        if _isinstance(a, Proxy):
            return True
        if _type(a) in (tuple, list) and a and _has_proxy(a):
            return True
    return False


def _type_of(x):
    return x.vf_type if _isinstance(x, Proxy) else _type(x)


class VF(object):
    Proxy = Proxy

    @staticmethod
    def is_(a, b):
        if COUNT: STATS['is'] += 1
        if _isinstance(a, SRef):
            return a.vf_is(b)
        if _isinstance(b, SRef):
            return b.vf_is(a)
        return a is b

    @staticmethod
    def builtin(f, *a, **k):
        if COUNT: STATS['builtin'] += 1
        if not a or not _has_proxy(a):
            return f(*a, **k)
        x = a[0]
        if f is isinstance:
            if _isinstance(x, Proxy):
                t = a[1]
                if _isinstance(x, SRef):
                    return isinstance(x.resolve(), t)
                return issubclass(x.vf_type, t)
            return f(*a, **k)
        if f is type and len(a) == 1:
            if _isinstance(x, SRef):
                return type(x.resolve())
            return x.vf_type
        if f is len:
            if not _isinstance(x, Proxy):
                return f(x)                       # a native container that merely holds proxies
            if _isinstance(x, SymStr) or hasattr(x, 'vf_len'):
                return x.vf_len()
            raise Concretization('len(%s)' % _type(x).__name__)
        if f is int:
            if _isinstance(x, SymInt): return x
            if _isinstance(x, SymBool):
                import z3
                return SymInt(z3.If(x.e, z3.IntVal(1), z3.IntVal(0)))
            if _isinstance(x, SymStr): return x.vf_int()
            raise Unsupported('int(%s)' % _type(x).__name__)
        if f is float:
            if _isinstance(x, SymFloat): return x
            raise Unsupported('float(%s)' % _type(x).__name__)
        if f is str:
            if _isinstance(x, SymStr): return x
            if _isinstance(x, SymInt): return SymStr.lift(x)
            raise Unsupported('str(%s)' % _type(x).__name__)
        if f is repr:
            return SymStr([('opq', 'repr(%s)' % _type(x).__name__)])
        if f is callable:
            return False
        if f is issubclass:
            return f(*a, **k)
        # bool abs min max divmod hash: native dispatch through the proxies' dunders
        return f(*a, **k)

    _wrapped = {}

    @staticmethod
    def wrapped(f):
        """R2 for a builtin passed to map(): a function object that dispatches like a direct call would"""
        w = VF._wrapped.get(f)
        if w is None:
            w = VF._wrapped[f] = (lambda *a, **k: VF.builtin(f, *a, **k))
        return w

    @staticmethod
    def mod(l, r):
        if COUNT: STATS['mod'] += 1
        if _isinstance(l, str):
            if _isinstance(r, tuple):
                if _has_proxy(r):
                    return _sym_format(l, r)
            elif _isinstance(r, Proxy):
                return _sym_format(l, (r,))
            elif _isinstance(r, dict) and _has_proxy(r.values()):
                return _sym_format(l, r)
        return l % r

    @staticmethod
    def join(sep, it):
        if COUNT: STATS['join'] += 1
        if _isinstance(sep, str):
            items = list(it)
            if _has_proxy(items):
                out = SymStr([])
                for n, x in enumerate(items):
                    if n: out = out + sep
                    out = out + x
                return out
            return sep.join(items)
        return sep.join(it)

    @staticmethod
    def fstr(*parts):
        if COUNT: STATS['fstr'] += 1
        out = []
        sym = False
        for p in parts:
            if _isinstance(p, str):
                out.append(p)
                continue
            v, conv, spec = p
            if _isinstance(v, Proxy):
                sym = True
                if conv in (-1, 115) and not spec and _isinstance(v, (SymStr, SymInt)):
                    out.append(SymStr.lift(v))
                else:
                    out.append(SymStr([('opq', 'fmt(%s)' % _type(v).__name__)]))
                continue
            if conv == 115: v = str(v)
            elif conv == 114: v = repr(v)
            elif conv == 97: v = ascii(v)
            out.append(format(v, spec or ''))
        if sym:
            r = SymStr([])
            for x in out: r = r + x
            return r
        return ''.join(out)

    @staticmethod
    def contains(c, x):
        if COUNT: STATS['contains'] += 1
        if _isinstance(c, Proxy):
            return c.vf_contains(x)
        if _isinstance(x, Proxy):
            if _isinstance(c, str):
                raise Unsupported('%s in str' % _type(x).__name__)
            if _isinstance(x, SRef):
                for y in c:
                    if x.vf_is(y): return True
                return False
            if _isinstance(c, (tuple, list, set, frozenset, dict)):
                for y in c:
                    if x == y: return True
                return False
            raise Unsupported('%s in %s' % (_type(x).__name__, _type(c).__name__))
        return x in c

    @staticmethod
    def getitem(x, k):
        if COUNT: STATS['getitem'] += 1
        if _isinstance(k, Proxy) and not _isinstance(x, Proxy):
            if _isinstance(x, dict):
                for key in x:
                    if k == key: return x[key]
                raise KeyError('<symbolic key>')
            if _isinstance(x, (str, bytes, list, tuple, bytearray)):
                raise Unsupported('%s[%s]' % (_type(x).__name__, _type(k).__name__))
            return x[k]
        if _type(k) is slice and not _isinstance(x, Proxy) and (
                _isinstance(k.start, Proxy) or _isinstance(k.stop, Proxy) or _isinstance(k.step, Proxy)):
            if _isinstance(x, (str, bytes, list, tuple, bytearray)):
                raise Unsupported('%s[symbolic slice]' % _type(x).__name__)
        return x[k]


_FMT = re.compile(r'%(?:\((\w+)\))?([#0\- +]*)(\d+|\*)?(?:\.(\d+))?([sdrifxXeEgGc%])')


def _sym_format(fmt, args):
    out = SymStr([])
    i = 0
    it = iter(args) if _isinstance(args, tuple) else None
    for m in _FMT.finditer(fmt):
        out = out + fmt[i:m.start()]
        i = m.end()
        name, flags, width, prec, conv = m.groups()
        if conv == '%':
            out = out + '%'
            continue
        a = args[name] if name is not None else next(it)
        spec = fmt[m.start():m.end()]
        if _type(a) in (tuple, list) and _has_proxy(a):
            out = out + SymStr([('opq', 'container-with-proxy%%%s' % conv)])
        elif not _isinstance(a, Proxy):
            if name is not None:
                spec = '%' + spec[spec.index(')') + 1:]
            out = out + (spec % (a,))
        elif _isinstance(a, SymStr) and conv == 's' and not (flags or width or prec):
            out = out + a
        elif _isinstance(a, SymInt) and conv in 'sdi':
            out = out + SymStr([('int', a.e, (flags or '') + (width or ''))])
        else:
            out = out + SymStr([('opq', '%s%%%s' % (_type(a).__name__, conv))])
    return out + fmt[i:]


builtins.__vf__ = VF

BUILTINS = {'isinstance', 'issubclass', 'type', 'callable', 'len', 'int', 'float', 'str', 'bool', 'abs', 'min', 'max',
            'divmod', 'hash', 'repr'}


def _vf(name, *args):
    return ast.Call(ast.Attribute(ast.Name('__vf__', ast.Load()), name, ast.Load()), list(args), [])


class Rewriter(ast.NodeTransformer):
    """R1 is/is not; R2 selected builtins; R3 % / join / f-strings; R4 in/not in; R5 subscript loads."""

    def visit_Compare(self, node):
        self.generic_visit(node)
        if len(node.ops) == 1:
            op = node.ops[0]; l = node.left; r = node.comparators[0]
            if isinstance(op, ast.Is): return ast.copy_location(_vf('is_', l, r), node)
            if isinstance(op, ast.IsNot): return ast.copy_location(ast.UnaryOp(ast.Not(), _vf('is_', l, r)), node)
            if isinstance(op, ast.In): return ast.copy_location(_vf('contains', r, l), node)
            if isinstance(op, ast.NotIn): return ast.copy_location(ast.UnaryOp(ast.Not(), _vf('contains', r, l)), node)
        return node

    def visit_Subscript(self, node):
        self.generic_visit(node)
        if isinstance(node.ctx, ast.Load):
            return ast.copy_location(_vf('getitem', node.value, node.slice), node)
        return node

    def visit_BinOp(self, node):
        self.generic_visit(node)
        if isinstance(node.op, ast.Mod):
            return ast.copy_location(_vf('mod', node.left, node.right), node)
        return node

    def visit_JoinedStr(self, node):
        parts = []
        for v in node.values:
            if isinstance(v, ast.Constant):
                parts.append(v)
            else:
                spec = self.visit(v.format_spec) if v.format_spec is not None else ast.Constant(None)
                parts.append(ast.Tuple([self.visit(v.value), ast.Constant(v.conversion), spec], ast.Load()))
        return ast.copy_location(_vf('fstr', *parts), node)

    def visit_Call(self, node):
        self.generic_visit(node)
        f = node.func
        if isinstance(f, ast.Name) and f.id == 'map' and node.args and isinstance(node.args[0], ast.Name) and node.args[0].id in BUILTINS:
            node.args[0] = ast.copy_location(_vf('wrapped', node.args[0]), node.args[0])
            return node
        if isinstance(f, ast.Name) and f.id in BUILTINS and not any(isinstance(a, ast.Starred) for a in node.args):
            return ast.copy_location(
                ast.Call(ast.Attribute(ast.Name('__vf__', ast.Load()), 'builtin', ast.Load()), [f] + node.args, node.keywords), node)
        if isinstance(f, ast.Attribute) and f.attr == 'join' and len(node.args) == 1 and not node.keywords \
                and not isinstance(node.args[0], ast.Starred):
            return ast.copy_location(_vf('join', f.value, node.args[0]), node)
        return node


def instrumented(path):
    p = str(path)
    return p.startswith(REPO + '/pony/') and '/tests/' not in p and '/thirdparty/' not in p


REWRITTEN = []


class Loader(importlib.machinery.SourceFileLoader):
    def source_to_code(self, data, path, *, _optimize=-1):
        tree = ast.parse(data, path)
        if instrumented(path):
            tree = Rewriter().visit(tree)
            ast.fix_missing_locations(tree)
            REWRITTEN.append(str(path))
        return compile(tree, path, 'exec', dont_inherit=True, optimize=_optimize)

    def get_code(self, fullname):   # bypass the bytecode cache: always the current working tree
        path = self.get_filename(fullname)
        return self.source_to_code(self.get_data(path), path)


_installed = False


def install():
    global _installed
    if _installed:
        return
    _installed = True
    sys.dont_write_bytecode = True
    base = importlib.machinery.FileFinder.path_hook((Loader, ['.py']))

    def hook(path):
        if not str(path).startswith(REPO):
            raise ImportError
        return base(path)
    sys.path_hooks.insert(0, hook)
    sys.path_importer_cache.clear()
    if REPO not in sys.path:
        sys.path.insert(0, REPO)
    for m in list(sys.modules):
        if m == 'pony' or m.startswith('pony.'):
            raise RuntimeError('pony imported before the instrumenting hook was installed')
