"""Contracts, obligation generation and discharge (DESIGN 2.3-2.5, 2.7)."""
import z3, time, json, os, fnmatch, subprocess, sys, hashlib, traceback
from . import explore as ex
from . import logic as L

VERIF = os.path.dirname(os.path.dirname(os.path.abspath(__file__)))
CVC5 = '/usr/bin/cvc5'
Z3NEW = 'z3-new'
MAX_REPLAYS = 10


class Case(object):
    """One configuration of one contract, ready to be explored."""

    def __init__(self, call, inputs=None, pre=(), setup=None, teardown=None, label=None):
        self.call = call                  # () -> value, runs the REAL function under the explorer
        self.inputs = inputs or {}        # name -> z3 term (or concrete value) — what a counterexample assigns
        self.pre = list(pre)              # z3 Bool terms
        self.setup = setup
        self.teardown = teardown
        self.label = label


class Contract(object):
    def __init__(self, id, target, configs, case, ensures, level='proof', allowed_exc=(), replay=None,
                 bound=None, assumptions=(), doc='', budget=20000):
        self.id = id                      # short id, unique within the property
        self.target = target if isinstance(target, (list, tuple)) else [target]   # 'module:qualname' of functions under contract
        self.configs = configs            # list of dicts (finite partition) or callable(tier) -> list
        self.case = case                  # cfg -> Case
        self.ensures = ensures            # [(name, fn(cfg, inputs, path) -> z3 Bool | bool | None)]
        self.level = level                # 'proof' | 'bounded'
        self.allowed_exc = allowed_exc    # exception classes a path may end in (each still needs its clauses)
        self.replay = replay              # (cfg, values) -> {'reproduced': bool, 'detail': str}   [runs natively]
        self.bound = bound                # text, for bounded contracts
        self.assumptions = list(assumptions)
        self.doc = doc
        self.budget = budget


class Ob(object):
    __slots__ = ('id', 'status', 'backend', 'secs', 'model', 'detail', 'contract', 'cfg', 'clause', 'level', 'known')

    def __init__(self, id, contract, cfg, clause, level):
        self.id = id; self.status = None; self.backend = None; self.secs = 0.0; self.model = None
        self.detail = ''; self.contract = contract; self.cfg = cfg; self.clause = clause; self.level = level
        self.known = None


def cfg_label(cfg):
    if not cfg:
        return '-'
    return ','.join('%s=%s' % (k, _short(v)) for k, v in cfg.items() if not k.startswith('_'))


def _short(v):
    if isinstance(v, type):
        return v.__name__
    if callable(v) and hasattr(v, '__name__'):
        return v.__name__
    s = str(v)
    return s if len(s) <= 40 else s[:37] + '...'


def get_configs(c, tier):
    configs = c.configs(tier) if callable(c.configs) else c.configs
    configs = [dict(x) for x in configs]
    for i, x in enumerate(configs):
        x['_index'] = i
    return configs


def resolve_target(t):
    import importlib
    mod, _, qual = t.partition(':')
    o = importlib.import_module(mod)
    for part in qual.split('.'):
        o = getattr(o, part)
    return o


def source_digest(t):
    import inspect
    try:
        o = resolve_target(t)
        o = getattr(o, '__func__', o)
        o = getattr(o, 'fget', o)
        src = inspect.getsource(o)
        return hashlib.sha1(src.encode()).hexdigest()[:12], len(src.splitlines())
    except Exception as e:
        return 'unavailable(%s)' % type(e).__name__, 0


def _model_values(model, inputs):
    vals = {}
    for k, t in inputs.items():
        if isinstance(t, z3.ExprRef):
            v = model.eval(t, model_completion=True)
            vals[k] = _pyval(v)
        else:
            vals[k] = t if isinstance(t, (int, str, bool, float, type(None))) else repr(t)
    return vals


def _pyval(v):
    if z3.is_int_value(v): return v.as_long()
    if z3.is_true(v): return True
    if z3.is_false(v): return False
    if z3.is_rational_value(v): return {'num': v.numerator_as_long(), 'den': v.denominator_as_long()}
    if z3.is_fp_value(v) if hasattr(z3, 'is_fp_value') else False:
        if v.isNaN(): return {'float': 'nan'}
        if v.isInf(): return {'float': '-inf' if v.isNegative() else 'inf'}
        try:
            return {'float': repr(float(eval(str(z3.simplify(z3.fpToReal(v))).replace('?', ''))))}
        except Exception:
            return {'float': str(v)}
    if z3.is_string_value(v): return v.as_string()
    return str(v)


def _second_opinion(smt2):
    """z3 said unknown: hand the same SMT-LIB text to cvc5 and to z3 5.x (DESIGN 2.4)."""
    import tempfile
    with tempfile.NamedTemporaryFile('w', suffix='.smt2', delete=False, dir=os.environ.get('TMPDIR')) as f:
        f.write(smt2 + '\n(check-sat)\n')
        name = f.name
    try:
        for cmd, nm in (([CVC5, '--tlimit=30000', name], 'cvc5'), ([Z3NEW, '-T:30', name], 'z3-new')):
            try:
                out = subprocess.run(cmd, capture_output=True, text=True, timeout=40).stdout.strip().splitlines()
            except Exception:
                continue
            if out and out[0] in ('unsat', 'sat'):
                return out[0], nm
        return 'unknown', None
    finally:
        os.unlink(name)


class Report(object):
    def __init__(self, prop, tier):
        self.prop = prop; self.tier = tier
        self.obs = []
        self.functions = {}           # target -> digest
        self.contracts = []
        self.undecided = []           # messages
        self.errors = []
        self.known_lines = []
        self.stale_known = []
        self.violations = []          # (ob, replay_path, reproduced)
        self.assumptions = []
        self.paths = 0
        self.smt_s = 0.0
        self.samples = []
        self.bounded = []
        self.extra = {}
        self.t0 = time.time()
        self.seen_classes = {}
        self.duplicates = []
        self.replays_run = 0


def load_known(prop):
    p = os.path.join(VERIF, 'known_findings.json')
    if not os.path.exists(p):
        return []
    with open(p) as f:
        data = json.load(f)
    return [e for e in data.get('findings', []) if e.get('property') == prop]


def _region_term(entry, cfg, inputs):
    """Evaluate a known-finding region over the contract's configuration and inputs -> z3 Bool | bool."""
    ns = {'And': L.And, 'Or': L.Or, 'Not': L.Not, 'Implies': L.Implies, 'ite': L.ite, 'cfg': cfg}
    ns.update({k: v for k, v in cfg.items() if not k.startswith('_')})
    ns.update(inputs)
    try:
        return eval(entry['region'], {'__builtins__': {'len': len, 'abs': abs, 'True': True, 'False': False, 'None': None,
                                                       'isinstance': isinstance, 'str': str, 'int': int}}, ns)
    except NameError:
        return False


def verify_contract(prop, c, rep, tier, known):
    for t in c.target:
        rep.functions[t] = source_digest(t)
    rep.contracts.append(c)
    if c.assumptions:
        for a in c.assumptions:
            if a not in rep.assumptions: rep.assumptions.append(a)
    configs = get_configs(c, tier)
    n_ob_before = len(rep.obs)
    for cfg in configs:
        label = cfg_label(cfg)
        try:
            case = c.case(cfg, None)
        except Exception:
            rep.errors.append('%s/%s/%s: harness error\n%s' % (prop, c.id, label, traceback.format_exc()))
            continue
        # vacuity guard 1: precondition satisfiable
        s = z3.Solver(); s.add(*case.pre)
        if s.check() == z3.unsat:
            rep.errors.append('%s/%s/%s: contradictory precondition (vacuous contract)' % (prop, c.id, label))
            continue
        try:
            paths, exhaustive, note = ex.explore(case.call, case.pre, c.budget, case.setup, case.teardown)
        except Exception:
            rep.errors.append('%s/%s/%s: explorer error\n%s' % (prop, c.id, label, traceback.format_exc()))
            continue
        rep.paths += len(paths)
        rep.smt_s += sum(p.smt_s for p in paths)
        if not paths:
            rep.errors.append('%s/%s/%s: zero feasible paths' % (prop, c.id, label))
            continue
        if not exhaustive:
            rep.undecided.append('%s/%s/%s: path enumeration not exhaustive: %s' % (prop, c.id, label, note))
        for pi, path in enumerate(paths):
            if path.outcome == 'undecided':
                continue
            if path.outcome == 'exc' and isinstance(path.value, AssertionError):
                ob = Ob('%s/%s/%s/assert-safety#%d' % (prop, c.id, label, pi), c, cfg, 'assert-safety', c.level)
                _finish_failed(ob, rep, case, path, None, 'assert statement of the real function fired under the precondition: %s\n%s' % (_safe_str(path.value), ''.join(traceback.format_tb(path.value.__traceback__)[-3:])), known)
                continue
            if path.outcome == 'exc' and not isinstance(path.value, tuple(c.allowed_exc)):
                ob = Ob('%s/%s/%s/no-unexpected-exception#%d' % (prop, c.id, label, pi), c, cfg, 'no-unexpected-exception', c.level)
                tb = ''.join(traceback.format_exception(type(path.value), path.value, path.value.__traceback__)[-6:])
                _finish_failed(ob, rep, case, path, None, 'unexpected %s: %s\n%s' % (type(path.value).__name__, _safe_str(path.value), tb), known)
                continue
            for name, fn in c.ensures:
                oid = '%s/%s/%s/%s#%d' % (prop, c.id, label, name, pi)
                try:
                    formula = fn(cfg, case.inputs, path)
                except (ex.Unsupported, ex.Concretization) as e:
                    rep.undecided.append('%s: clause not expressible: %s' % (oid, e))
                    continue
                except Exception:
                    rep.errors.append('%s: clause raised\n%s' % (oid, traceback.format_exc()))
                    continue
                if formula is None:
                    continue
                ob = Ob(oid, c, cfg, name, c.level)
                _discharge(ob, formula, case, path, rep, known)
    if len(rep.obs) == n_ob_before and not rep.errors:
        rep.errors.append('%s/%s: zero obligations generated' % (prop, c.id))


def _safe_str(e):
    try:
        return str(e)
    except BaseException:
        try:
            return '<%s with symbolic arguments>' % type(e).__name__
        except BaseException:
            return '<unprintable>'


def _matching_known(ob, known):
    out = []
    for e in known:
        pat = e.get('obligation', '*')
        if fnmatch.fnmatch(ob.id.split('#')[0], pat):
            out.append(e)
    return out


def _discharge(ob, formula, case, path, rep, known):
    t0 = time.time()
    regions = [(e, _region_term(e, ob.cfg, case.inputs)) for e in _matching_known(ob, known)]
    if not isinstance(formula, z3.ExprRef):
        # ground obligation (decided by evaluation after path enumeration)
        ob.backend = 'ground'
        if formula:
            ob.status = 'discharged'
            rep.obs.append(ob)
        else:
            hit = [e for e, r in regions if (r is True or (isinstance(r, z3.ExprRef) and _sat(case, path, [r])[0] == z3.sat))]
            if hit:
                ob.status = 'known'; ob.known = hit[0]
                hit[0].setdefault('_matched', []).append(ob.id)
                rep.obs.append(ob)
            else:
                r0, m0, _ = _sat(case, path, [])      # any input on this path is a witness
                _finish_failed(ob, rep, case, path, m0 if r0 == z3.sat else None, 'ground clause evaluated to False', known, append=True)
        ob.secs = time.time() - t0
        return
    excl = [L.Not(r) for e, r in regions if not (r is False)]
    res, model, backend = _sat(case, path, excl + [z3.Not(formula)])
    ob.backend = backend
    if res == z3.unsat:
        ob.status = 'discharged'
        rep.obs.append(ob)
        # a listed region counts as matched only if it still contains a failing input
        for e, r in regions:
            if r is False:
                continue
            r2, m2, _ = _sat(case, path, [r if isinstance(r, z3.ExprRef) else z3.BoolVal(bool(r)), z3.Not(formula)])
            if r2 == z3.sat:
                e.setdefault('_matched', []).append(ob.id)
                e.setdefault('_witness', _model_values(m2, case.inputs))
    elif res == z3.sat:
        _finish_failed(ob, rep, case, path, model, 'counter-model found by %s' % backend, known, append=True)
    else:
        ob.status = 'unknown'
        rep.obs.append(ob)
        rep.undecided.append('%s: solver returned unknown' % ob.id)
    ob.secs = time.time() - t0
    if len(rep.samples) < 6 and ob.status == 'discharged':
        rep.samples.append({'obligation': ob.id, 'path_condition': [str(x) for x in path.pc][:8],
                            'goal': str(z3.simplify(formula))[:400], 'backend': ob.backend})


def _sat(case, path, extra):
    s = z3.Solver()
    s.set('timeout', 30000)
    s.add(*case.pre); s.add(*path.pc); s.add(*path.axioms); s.add(*extra)
    r = s.check()
    if r == z3.sat:
        return r, s.model(), 'z3'
    if r == z3.unsat:
        return r, None, 'z3'
    r2, who = _second_opinion(s.to_smt2().replace('(check-sat)', ''))
    if r2 == 'unsat':
        return z3.unsat, None, who
    if r2 == 'sat':
        return z3.unknown, None, who      # no model to replay: stays undecided
    return z3.unknown, None, 'z3+cvc5+z3-new'


def _finish_failed(ob, rep, case, path, model, why, known, append=True):
    ob.status = 'failed'
    ob.detail = why
    if model is None:
        try:
            r0, model, _ = _sat(case, path, [])      # any input on this path is a witness
        except Exception:
            model = None
    vals = _model_values(model, case.inputs) if model is not None else {k: v for k, v in case.inputs.items()
                                                                         if isinstance(v, (int, str, bool, float, type(None)))}
    ob.model = vals
    rep.obs.append(ob)
    c = ob.contract
    rdir = os.environ.get('VF_REPLAY_DIR') or os.path.join(VERIF, 'replays')
    os.makedirs(rdir, exist_ok=True)
    fn = os.path.join(rdir, '%s_%s.json' % (rep.prop, hashlib.sha1(ob.id.encode()).hexdigest()[:10]))
    doc = {'property': rep.prop, 'obligation': ob.id, 'contract': c.id, 'module': c.__dict__.get('_module', None),
           'targets': c.target, 'config': {k: _short(v) for k, v in ob.cfg.items()}, 'config_index': ob.cfg.get('_index'),
           'inputs': vals, 'why': why, 'path_condition': [str(x) for x in path.pc],
           'decisions': [[a if isinstance(a, (int, bool)) else str(a), b] for a, b in path.decisions], 'tier': rep.tier, 'clause': ob.clause, 'ghost_trace': [str(g) for g in path.ghost],
           'solver_output': str(model) if model is not None else why}
    reproduced = None
    cls = (c.id, cfg_label(ob.cfg), ob.clause)
    if cls in rep.seen_classes:
        # same (contract, configuration, clause) already reported on another path: recorded, not replayed again
        doc['native'] = {'note': 'another path of the same obligation class was replayed: %s' % rep.seen_classes[cls]}
        with open(fn, 'w') as f:
            json.dump(doc, f, indent=1, default=str)
        rep.duplicates.append((ob, fn))
        return
    rep.seen_classes[cls] = os.path.basename(fn)
    if c.replay is not False:
        with open(fn, 'w') as f:
            json.dump(doc, f, indent=1, default=str)
        if rep.replays_run < MAX_REPLAYS:
            rep.replays_run += 1
            reproduced, native = run_replay(fn)
        else:
            reproduced, native = 'skipped', {'note': 'replay cap (%d) reached; run ./check %s --replay %s' % (MAX_REPLAYS, rep.prop, fn)}
        doc['native'] = native
    with open(fn, 'w') as f:
        json.dump(doc, f, indent=1, default=str)
    rep.violations.append((ob, fn, reproduced))


def run_replay(fn):
    """Replay on the UN-instrumented real code in a fresh interpreter."""
    env = dict(os.environ)
    env['PYTHONPATH'] = VERIF + os.pathsep + os.environ.get('VF_REPO', '/repo')
    env['PYTHONDONTWRITEBYTECODE'] = '1'
    try:
        p = subprocess.run([sys.executable, '-m', 'vf.replay', fn], capture_output=True, text=True, timeout=300, env=env, cwd=VERIF)
    except subprocess.TimeoutExpired:
        return None, {'error': 'replay timed out'}
    out = p.stdout.strip().splitlines()
    for line in reversed(out):
        if line.startswith('{'):
            try:
                d = json.loads(line)
                return d.get('reproduced'), d
            except ValueError:
                pass
    return None, {'error': 'replay produced no verdict', 'stdout': p.stdout[-2000:], 'stderr': p.stderr[-2000:]}
