"""Input builder: the same harness text yields proxies (verification) or concrete values (native replay)."""
import z3
from .proxy import SymInt, SymBool, SymFloat, SymReal, FP64


class Inputs(object):
    def __init__(self, values=None):
        self.values = values          # None => symbolic
        self.terms = {}               # name -> z3 term or concrete value
        self.pre = []

    @property
    def symbolic(self):
        return self.values is None

    def int(self, name):
        if self.values is None:
            t = z3.Int(name); self.terms[name] = t
            return SymInt(t)
        v = int(self.values[name]); self.terms[name] = v
        return v

    def bool(self, name):
        if self.values is None:
            t = z3.Bool(name); self.terms[name] = t
            return SymBool(t)
        v = bool(self.values[name]); self.terms[name] = v
        return v

    def real(self, name, pytype=None, conv=None):
        if self.values is None:
            t = z3.Real(name); self.terms[name] = t
            return SymReal(t, pytype)
        import fractions
        d = self.values[name]
        v = fractions.Fraction(d['num'], d['den']) if isinstance(d, dict) else fractions.Fraction(d)
        self.terms[name] = v
        return conv(v) if conv else v

    def float(self, name):
        if self.values is None:
            t = z3.FP(name, FP64); self.terms[name] = t
            return SymFloat(t)
        d = self.values[name]
        v = float(d['float']) if isinstance(d, dict) else float(d)
        self.terms[name] = v
        return v

    def ghost_int(self, name):
        """A quantified integer that is not passed to the code (e.g. the length of the stored string)."""
        if self.values is None:
            t = z3.Int(name); self.terms[name] = t
            return t
        v = int(self.values[name]); self.terms[name] = v
        return v

    def ghost_bool(self, name):
        if self.values is None:
            t = z3.Bool(name); self.terms[name] = t
            return t
        v = bool(self.values[name]); self.terms[name] = v
        return v

    def require(self, cond):
        if isinstance(cond, z3.ExprRef):
            self.pre.append(cond)
        elif not cond:
            self.pre.append(z3.BoolVal(False))


def term(x):
    """z3 term / concrete value behind a proxy or plain value."""
    return getattr(x, 'e', x)


def same(a, b):
    """Identity of symbolic terms (verification) / equality of concrete values (replay)."""
    a = term(a); b = term(b)
    if isinstance(a, z3.ExprRef) or isinstance(b, z3.ExprRef):
        return isinstance(a, z3.ExprRef) and isinstance(b, z3.ExprRef) and a.eq(b)
    return type(a) is type(b) and a == b
