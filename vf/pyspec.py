"""Specification library 3.1: Python sequence semantics as integer functions, polymorphic over z3 terms and
concrete ints (same text proves and replays). Cross-checked against CPython at start-up (selfcheck)."""
from .logic import ite, And, Or, Not, clamp, Eq


def py_slice(n, i, j):
    """Index window [a, b) of s[i:j] for len(s) == n; i / j may be None (omitted). b >= a always."""
    def norm(k, default):
        if k is None:
            return default
        k2 = ite(k < 0, k + n, k)
        return clamp(k2, 0, n)
    a = norm(i, 0)
    b = norm(j, n)
    return a, ite(b < a, a, b)


def py_index(n, i):
    """s[i]: (in_range, position)."""
    p = ite(i < 0, i + n, i)
    return And(p >= 0, p < n), p


def window(n, limit, offset):
    """Index window of R[offset:][:limit] on a list of length n (limit/offset None = omitted, both >= 0)."""
    o = 0 if offset is None else offset
    a = ite(o > n, n, o)
    if limit is None:
        b = n
    else:
        b0 = o + limit
        b = ite(b0 > n, n, b0)
    return a, ite(b < a, a, b)


def same_window(w1, w2):
    """Two windows denote the same sub-sequence: equal endpoints, or both empty."""
    (a1, b1), (a2, b2) = w1, w2
    return Or(And(Eq(a1, a2), Eq(b1, b2)), And(a1 >= b1, a2 >= b2))


def selfcheck(N=6):
    """Exhaustive cross-check of the spec functions against CPython for n,|i|,|j| <= N."""
    cnt = 0
    for n in range(N + 1):
        s = list(range(n))
        rng = [None] + list(range(-N - 1, N + 2))
        for i in rng:
            for j in rng:
                a, b = py_slice(n, i, j)
                assert s[a:b] == s[i:j], (n, i, j)
                cnt += 1
            if i is not None:
                ok, p = py_index(n, i)
                try:
                    v = s[i]; assert ok and s[p] == v
                except IndexError:
                    assert not ok
                cnt += 1
        for l in [None] + list(range(N + 2)):
            for o in [None] + list(range(N + 2)):
                a, b = window(n, l, o)
                want = s[(o or 0):]
                if l is not None: want = want[:l]
                assert s[a:b] == want, (n, l, o)
                cnt += 1
    return cnt
