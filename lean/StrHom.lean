-- StrHom: char-wise string encodings decode uniquely under a one-step lexer (DESIGN 2.6).
-- Lean 4 core only (no Mathlib).  Checked by `lean StrHom.lean` in setup.sh and re-checked by the thorough tier.
--
-- enc h s         : the encoded text, every character c of s replaced by h c   (what a chain of str.replace with
--                   one-character needles computes: a monoid homomorphism on strings)
-- step            : the reference lexer, ONE step: consumes the encoding of one logical character, or stops at the closing
--                   delimiter, or fails
-- The finite LOCAL conditions  (hc) step (h c ++ t) = char c t   and   (hs) Good t -> step (close ++ t) = stop t
-- are discharged per dialect by z3 over character classes; the theorems lift them to ALL strings.
namespace StrHom

variable {α : Type}

def enc (h : α → List α) : List α → List α
  | [] => []
  | c :: s => h c ++ enc h s

inductive Step (α : Type) where
  | char : α → List α → Step α
  | stop : List α → Step α
  | err  : Step α

def decode (step : List α → Step α) : Nat → List α → Option (List α × List α)
  | 0, _ => none
  | n+1, inp =>
    match step inp with
    | Step.char c rest =>
      match decode step n rest with
      | some (s, r) => some (c :: s, r)
      | none => none
    | Step.stop rest => some ([], rest)
    | Step.err => none

theorem enc_append (h : α → List α) (s t : List α) : enc h (s ++ t) = enc h s ++ enc h t := by
  induction s with
  | nil => simp [enc]
  | cons c s ih => simp [enc, ih, List.append_assoc]

-- the encoded literal lexes back to exactly the original string, leaving exactly the tail
theorem decodes_enc (h : α → List α) (step : List α → Step α) (close : List α) (Good : List α → Prop)
    (hc : ∀ c t, step (h c ++ t) = Step.char c t)
    (hs : ∀ t, Good t → step (close ++ t) = Step.stop t) :
    ∀ (s t : List α), Good t → decode step (s.length + 1) (enc h s ++ (close ++ t)) = some (s, t) := by
  intro s
  induction s with
  | nil =>
    intro t g
    simp [enc, decode, hs t g]
  | cons c s ih =>
    intro t g
    have e : enc h (c :: s) ++ (close ++ t) = h c ++ (enc h s ++ (close ++ t)) := by
      simp [enc, List.append_assoc]
    rw [e]
    simp only [List.length_cons]
    unfold decode
    rw [hc c (enc h s ++ (close ++ t))]
    simp [ih t g]

-- hence the encoding is injective: two values with the same literal are equal
theorem enc_injective (h : α → List α) (step : List α → Step α) (close : List α) (Good : List α → Prop)
    (hc : ∀ c t, step (h c ++ t) = Step.char c t)
    (hs : ∀ t, Good t → step (close ++ t) = Step.stop t)
    (t : List α) (g : Good t)
    (s₁ s₂ : List α) (heq : enc h s₁ = enc h s₂) (hlen : s₁.length = s₂.length) : s₁ = s₂ := by
  have d₁ := decodes_enc h step close Good hc hs s₁ t g
  have d₂ := decodes_enc h step close Good hc hs s₂ t g
  rw [heq, hlen] at d₁
  rw [d₁] at d₂
  injection d₂ with d₃
  injection d₃ with d₄ _

-- fuel-independent form of injectivity: decoding with enough fuel gives the same answer
theorem decode_mono (step : List α → Step α) :
    ∀ (n : Nat) (inp : List α) (r : List α × List α), decode step n inp = some r → decode step (n+1) inp = some r := by
  intro n
  induction n with
  | zero => intro inp r h; simp [decode] at h
  | succ n ih =>
    intro inp r h
    unfold decode at h
    unfold decode
    cases hstep : step inp with
    | char c rest =>
      rw [hstep] at h
      simp only at h
      cases hd : decode step n rest with
      | none => rw [hd] at h; simp at h
      | some p =>
        rw [hd] at h
        have := ih rest p hd
        simp only
        rw [this]
        exact h
    | stop rest => rw [hstep] at h; simpa using h
    | err => rw [hstep] at h; simp at h

theorem enc_injective' (h : α → List α) (step : List α → Step α) (close : List α) (Good : List α → Prop)
    (hc : ∀ c t, step (h c ++ t) = Step.char c t)
    (hs : ∀ t, Good t → step (close ++ t) = Step.stop t)
    (t : List α) (g : Good t)
    (s₁ s₂ : List α) (heq : enc h s₁ = enc h s₂) : s₁ = s₂ := by
  have d₁ := decodes_enc h step close Good hc hs s₁ t g
  have d₂ := decodes_enc h step close Good hc hs s₂ t g
  rw [heq] at d₁
  -- lift both to the common fuel max
  have lift : ∀ (k : Nat) (n : Nat) (inp : List α) (r : List α × List α),
      decode step n inp = some r → decode step (n + k) inp = some r := by
    intro k
    induction k with
    | zero => intro n inp r hh; simpa using hh
    | succ k ihk =>
      intro n inp r hh
      have := decode_mono step (n + k) inp r (ihk n inp r hh)
      simpa [Nat.add_assoc] using this
  have a := lift (s₂.length) (s₁.length + 1) _ _ d₁
  have b := lift (s₁.length) (s₂.length + 1) _ _ d₂
  have fuel : s₁.length + 1 + s₂.length = s₂.length + 1 + s₁.length := by omega
  rw [fuel] at a
  rw [a] at b
  injection b with b'
  injection b' with b'' _

end StrHom
