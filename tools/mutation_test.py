#!/usr/bin/env python3
"""Applies each mutant of mutants/mutants.py to a scratch copy of /repo/pony (under $TMPDIR, removed afterwards) and
runs the property's quick check against it with VF_REPO. A mutant is KILLED iff the check exits 1 with a VIOLATION line.
Usage: tools/mutation_test.py [Cnn ...] [--id mutant-id]"""
import sys, os, subprocess, tempfile, shutil, json, concurrent.futures as cf
root = os.path.dirname(os.path.dirname(os.path.abspath(__file__)))
sys.path.insert(0, os.path.join(root, 'mutants'))
import mutants

def run(mu):
    d = tempfile.mkdtemp(prefix='vfmut_')
    try:
        subprocess.check_call(['rsync', '-a', '--exclude', '.git', '--exclude', 'tests', '/repo/pony', d + '/'])
        p = os.path.join(d, mu['file'])
        s = open(p).read()
        if s.count(mu['old']) != 1:
            return mu, 'STALE (old text occurs %d times)' % s.count(mu['old']), ''
        open(p, 'w').write(s.replace(mu['old'], mu['new']))
        for f2, old2, new2 in mu.get('also', []):          # two cooperating sites
            p2 = os.path.join(d, f2); s2 = open(p2).read()
            if s2.count(old2) != 1: return mu, 'STALE (second site)', ''
            open(p2, 'w').write(s2.replace(old2, new2))
        env = dict(os.environ, VF_REPO=d, VF_EVIDENCE_DIR=d, VF_REPLAY_DIR=d)
        r = subprocess.run([os.path.join(root, 'check'), mu['prop']], capture_output=True, text=True, env=env, timeout=1800)
        viol = [l for l in r.stdout.splitlines() if l.startswith('VIOLATION')]
        first = next((l for l in r.stdout.splitlines() if 'failed obligation' in l), '')
        status = 'KILLED' if r.returncode == 1 and viol else 'SURVIVED(exit %d)' % r.returncode
        return mu, status, first.strip()[:230] if status == 'KILLED' else r.stdout[-600:]
    finally:
        shutil.rmtree(d, ignore_errors=True)

def main():
    args = sys.argv[1:]
    ids = None
    if '--id' in args:
        ids = args[args.index('--id') + 1]; args = args[:args.index('--id')]
    props = [a.upper() for a in args]
    todo = [m for m in mutants.M if (not props or m['prop'] in props) and (ids is None or m['id'] == ids)]
    bad = 0
    with cf.ThreadPoolExecutor(max_workers=12) as ex:
        for mu, status, info in ex.map(run, todo):
            print('%-28s %-4s %s  %s' % (mu['id'], mu['prop'], status, info))
            if status != 'KILLED': bad += 1
    print('%d mutants, %d not killed' % (len(todo), bad))
    return 1 if bad else 0

if __name__ == '__main__':
    sys.exit(main())
