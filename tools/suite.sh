#!/bin/bash
# Runs the repository's pinned suite (guard off) on a tree (default /repo) and prints a one-line summary;
# exit 0 iff the only non-passing tests are the 3 known ones outside the pinned baseline.
T=${1:-/repo}
cd "$T" && /venv/bin/python -m pytest -q -p no:cacheprovider --timeout=900 --continue-on-collection-errors -n 12 2>&1 | grep -E "^(FAILED|ERROR)|passed|failed" > /tmp/suite.$$.txt
cat /tmp/suite.$$.txt | tail -8
bad=$(grep -E "^(FAILED|ERROR)" /tmp/suite.$$.txt | grep -v "test_decompiler.py::TestDecompiler::test_ast_copy\|test_decompiler.py::TestDecompiler::test_ast_multiline\|test_decompiler.py::test_method" | wc -l)
rm -f /tmp/suite.$$.txt
[ "$bad" = "0" ]
