#!/usr/bin/env python3
"""Confirms a seeded change delivered by a sub-agent in its scratch worktree and runs our check against it.
usage: seed_eval.py <Cnn> <worktree> <seed-name> [extra check props...]
Steps (all in the scratch worktree, never in /repo): demo fails with the change; demo passes without; suite unchanged with the change;
then ./check <Cnn> with VF_REPO=<worktree>. Copies patch.diff / demo.py / meta.json to /verif/seeded/<seed-name>/ with what was run."""
import sys, os, subprocess, json, shutil
prop, wt, name = sys.argv[1], sys.argv[2], sys.argv[3]
props = [prop] + sys.argv[4:]
root = os.path.dirname(os.path.dirname(os.path.abspath(__file__)))
sd = os.path.join(wt, '_seed')
def sh(cmd, **kw): return subprocess.run(cmd, shell=True, capture_output=True, text=True, **kw)
ran = []
patch = os.path.join(sd, 'patch.diff')
# normalise: make sure the change is applied
st = sh('git -C %s diff --quiet -- pony' % wt)
if st.returncode == 0:
    r = sh('git -C %s apply %s' % (wt, patch)); assert r.returncode == 0, r.stderr
r1 = sh('cd %s && /venv/bin/python _seed/demo.py' % wt); ran.append(('demo with change', r1.returncode, r1.stdout[-300:]))
r = sh('git -C %s apply -R %s' % (wt, patch)); assert r.returncode == 0, r.stderr
r2 = sh('cd %s && /venv/bin/python _seed/demo.py' % wt); ran.append(('demo without change', r2.returncode, r2.stdout[-200:]))
r = sh('git -C %s apply %s' % (wt, patch)); assert r.returncode == 0, r.stderr
r3 = sh('%s/tools/suite.sh %s' % (root, wt)); ran.append(('suite with change', r3.returncode, r3.stdout[-200:]))
confirmed = r1.returncode != 0 and r2.returncode == 0 and r3.returncode == 0
checks = {}
for p in props:
    rc = sh('%s/check %s' % (root, p), env=dict(os.environ, VF_REPO=wt, VF_EVIDENCE_DIR='/tmp/seed_ev', VF_REPLAY_DIR='/tmp/seed_ev'))
    first = next((l.strip() for l in rc.stdout.splitlines() if 'failed obligation' in l), '')
    checks[p] = dict(exit=rc.returncode, first_failed=first[:300], tail=rc.stdout.strip().splitlines()[-1][:300] if rc.stdout.strip() else '')
print('confirmed:', confirmed)
for x in ran: print('  ', x[0], '-> exit', x[1], '|', x[2].strip().replace('\n', ' / ')[:160])
for p, c in checks.items(): print('  check', p, '-> exit', c['exit'], '|', c['first_failed'] or c['tail'])
if confirmed:
    out = os.path.join(root, 'seeded', name); os.makedirs(out, exist_ok=True)
    for f in ('patch.diff', 'demo.py'): shutil.copy(os.path.join(sd, f), out)
    try: meta = json.load(open(os.path.join(sd, 'meta.json')))
    except Exception as e: meta = {'property': prop, 'note': 'agent meta.json unreadable: %s' % e}
    meta['confirmed_by_us'] = {'demo_with_change_exit': r1.returncode, 'demo_without_change_exit': r2.returncode, 'suite_with_change': r3.stdout.strip().splitlines()[-1] if r3.stdout.strip() else ''}
    meta.setdefault('our_checks', {}).update({p: {'exit': c['exit'], 'first_failed_obligation': c['first_failed']} for p, c in checks.items()})
    json.dump(meta, open(os.path.join(out, 'meta.json'), 'w'), indent=1)
