#!/usr/bin/env python3
"""Regenerates the seeded-changes table of DESIGN.md (between the two markers) from seeded/*/meta.json."""
import json, glob, os, re
root = os.path.dirname(os.path.dirname(os.path.abspath(__file__)))
rows = ['| seeded change | what was changed | failing obligation(s) now | first miss → what was strengthened |', '|---|---|---|---|']
for f in sorted(glob.glob(root + '/seeded/*/meta.json')):
    m = json.load(open(f)); name = f.split('/')[-2]
    def short(ob):
        parts = ob.split('/')
        return '%s/%s … %s' % (parts[0], parts[1], parts[-1].split('#')[0]) if len(parts) >= 3 else ob
    caught = '; '.join(dict.fromkeys(short(c) for c in m.get('caught_by', []))) or 'NOT CAUGHT'
    clean = lambda t: (t or '').replace('|', '/').replace('\n', ' ')
    rows.append('| `%s` | %s | %s | %s |' % (name, clean(m.get('summary', ''))[:180], clean(caught), clean(m.get('first_miss', ''))))
p = root + '/DESIGN.md'; s = open(p).read()
a = s.index('<!-- seeded table begin -->') + len('<!-- seeded table begin -->'); b = s.index('<!-- seeded table end -->')
open(p, 'w').write(s[:a] + '\n' + '\n'.join(rows) + '\n' + s[b:])
print(len(rows) - 2, 'seeds in the table')
