#!/usr/bin/env python3
"""Prints the prompt given to a seeding sub-agent for one property (property text + its own worktree; nothing from /verif)."""
import json, sys
pid = sys.argv[1]; wt = sys.argv[2]
variant = sys.argv[3] if len(sys.argv) > 3 else ''
p = [json.loads(l) for l in open('/verif/properties.jsonl') if json.loads(l)['id'] == pid][0]
print(f"""You are helping to evaluate a verification effort for the open-source Python ORM "Pony ORM" (ponyorm/pony).
You have your own scratch git worktree of the repository at {wt} (work ONLY there; do not read or touch /repo, /verif or any other directory except {wt} and scratch files under /tmp that you create yourself; there is no network).

Here is a semantic property the library is supposed to satisfy:

  id: {p['id']}
  title: {p['title']}
  statement: {p['statement']}
  quantified over: {p['quantifier']['text']}
  relevant files: {', '.join(p['anchors']['files'])}

YOUR TASK: write ONE small, realistic change to the library source under {wt}/pony (NOT to the tests) that BREAKS this property, while
  (a) the code still imports/compiles, and
  (b) the existing test suite still passes exactly as before. Run it from inside the worktree with:
        cd {wt} && /venv/bin/python -m pytest -q -p no:cacheprovider --timeout=900 --continue-on-collection-errors -n 8 2>&1 | tail -8
      (on the unchanged tree the result is: 2 failed, 3874 passed, 5 skipped, 1 error — the 2 failures + 1 error are in test_decompiler.py and are expected; your change must not add any failure.)
The change should look like something a maintainer could plausibly commit by mistake (an off-by-one, a dropped branch, a wrong variable, a reordered statement, a missing cleanup, a condition that is slightly too weak or too strong, two sites that each look fine alone...).
IMPORTANT: it must need something SPECIFIC to manifest — an unusual input, a particular boundary value, a particular fault/exception at a particular point, a multi-step sequence of operations, a particular configuration/dialect — not something ordinary use would expose at once. {variant}
Only in-memory SQLite is available as a database; PostgreSQL/MySQL/Oracle drivers are not installed (changes in dialect-specific SQL generation are still welcome if you can demonstrate them at the level of the generated SQL/AST or by calling the functions directly).

DELIVERABLES (all inside {wt}/_seed/ ; create that directory):
  1. patch.diff  — output of `git -C {wt} diff -- pony` (the change only; do not include _seed in it).
  2. demo.py     — a small standalone program, run as `cd <tree> && /venv/bin/python _seed/demo.py` (it must import pony from the current working directory: start it with `import sys, os; sys.path.insert(0, os.getcwd())`), that exits with status 0 and prints PASS on the UNCHANGED library and exits non-zero (prints FAIL with an explanation) WITH your change. It should check the behaviour the property talks about, at the public API where possible.
  3. meta.json   — {{"property": "{p['id']}", "summary": "<one line: what was changed>", "needs": "<what specific input/sequence/fault/configuration it needs in order to manifest>", "files": ["..."], "ran": ["<commands you ran and their outcome>"]}}
Before finishing, VERIFY yourself: (1) with the change applied the suite result is unchanged; (2) demo.py fails with the change; (3) reverse-apply the patch (`git apply -R _seed/patch.diff`; do NOT use `git stash`: the stash is shared between all worktrees of the repository and other people work in theirs), confirm demo.py passes without the change, then re-apply it (`git apply _seed/patch.diff`) so the worktree ends WITH the change applied and _seed/ present.
Keep the change minimal (a few lines). Do not edit tests. Do not commit. Finish by replying with the contents of meta.json and the patch.""")
