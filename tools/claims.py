"""What is claimed per property (source of MANIFEST.json). Fallback rule (DESIGN 7): only what is built,
exhaustive on the unchanged tree and kills its seeded mutants is listed in CLAIMS."""
NOTES = ('Technique family: contract-based deductive verification of the real code. See DESIGN.md. '
         'Exit codes of ./check: 0 held, 1 violation (VIOLATION line), 2 undecided, 3 machinery error.')

CLAIMS = {
    'C24': dict(
        text='Proof (unbounded, all paths) that limit/offset composition in combine_limit_and_offset denotes the same window of the '
             'ordered result as chained Python slicing, for every result length and all non-negative bounds.',
        note='Trusted: window spec (cross-checked vs CPython), proxy encoding of int as mathematical integers, z3. BOUNDED (never counted as proved), on real SQLite: ~70 method chains '
             '(slices, limit, page, first / get / exists / count, aggregates, distinct, random, queries over limited queries), every sequence of <= 3 (thorough 4) filtering steps '
             'out of 13 kinds on 3 base queries, delete / bulk delete of 11 kinds of queries, each against the Python operation on the full result. The engines\' LIMIT implementation is not covered.'),
    'C25': dict(
        text='Proof (unbounded: every string length, every integer bound; all paths) that the SQL built by SQLBuilder.STRING_SLICE '
             '(PostgreSQL, MySQL, Oracle branches), SQLiteBuilder.STRING_SLICE + py_string_slice, and StringMixin.__getitem__ on real '
             'monads (constant / parameter / expression / omitted bounds) selects exactly the window of Python s[i:j] / s[i] under each '
             'dialect\'s substr semantics; baked-in parameters are pinned. Region-scoped known findings are excluded from the goal, everything outside them is proved.',
        note='Trusted: Python slice spec (cross-checked vs CPython), SQL 3VL evaluator, SQLite substr clause (validated against sqlite3 every run); '
             'PostgreSQL/MySQL/Oracle substr and greatest() clauses are assumed from the manuals (no servers here). Column bounds quantified over non-NULL ints.'),
    'C08': dict(
        text='Proof (all declarations accepted by init x all candidate values, all paths) that Int/Real/Decimal/StrConverter.validate and '
             'Attribute/Required.validate accept a value iff it satisfies the declared min/max, integer size and signedness, max_len, nullability, '
             'required-ness and custom check, returning the normalised value, else raise ValueError; plus ground call-site obligations that creation, '
             'assignment, set(), get(), exists() and select(**kw) pass through attr.validate. BOUNDED value table for the Date / Datetime / Time / Timedelta / Bool / Blob / Uuid converters '
             '(exact declared type, documented normal form, idempotent, wrong types rejected), and for ArrayConverter.validate (3 item types x 14 item lists x 6 ways the value is given, tracked arrays of other attributes / objects included).',
        note='Ints mathematical, floats IEEE binary64 (bounds not NaN), Decimals exact reals (Decimal(d)==d stubbed), strings with uninterpreted length and '
             'strip (len(strip(s)) <= len(s)); max_len >= 1; py_check is an arbitrary boolean effect or one of 9 enumerated non-bool results judged by truth value. Type coercions of ill-typed values (str -> int, __index__) not covered.'),
    'C18': dict(
        text='Proof by exhaustive path enumeration (every combination of commit / rollback / release / user predicate / body returning or raising) of '
             'DBSessionContextManager._commit_or_rollback and __exit__ (loop-free): commit occurs iff the body finished or raised an allowed exception, '
             'exactly at the outermost exit, otherwise rollback and propagation, session-local state cleared on every exit; caller-side precondition of '
             '__exit__ for the Flask integration; Bottle plugin. The retry loop (new_func), nested decorated calls and the generator wrapper are checked the '
             'same way but BOUNDED (retry <= 2/3, depth 2, <= 2 resumptions) and counted separately, never as proved.',
        note='Obligations are ground after path enumeration (decided by evaluating the ghost trace of effect stubs; no solver). Trusted: effect stubs model '
             'commit()/rollback()/cache.release()/predicates/body as return-or-raise with no other access to session-local state; stub flask/bottle modules.'),
    'C19': dict(
        text='Proof by exhaustive fault enumeration for ONE session: the real SQLiteProvider / DBAPIProvider / PGProvider, Pool / SQLitePool / PGPool, '
             'SessionCache.connect / reconnect / prepare_connection_for_query_execution / commit / rollback / release / close, core.commit / rollback and '
             '_commit_or_rollback are executed with every DB-API call (connect, cursor, execute, commit, rollback, close, autocommit switch), on_connect and '
             'flush allowed to fail at every point; on every path the SQLite transaction lock is held iff the cache is in a transaction, never double-acquired '
             'or double-released, free at session end, and every connection handed out by the pool is returned or closed exactly once. BOUNDED (<= 2 resumptions, shared with C18): a db_session generator is '
             'never suspended with unflushed changes or an open transaction. A session over two databases (shared with C17): whatever fails, every session cache is released and none outlives the session. Database.disconnect with a session left open in interactive mode leaves no session holding a closed connection.',
        note='Thread schedules (two or three sessions) are NOT covered: outside this technique. Ground obligations (decided by evaluation after path enumeration). '
             'Trusted: GhostLock as single-thread model of threading.Lock; DB-API stubs return-or-raise; psycopg2 stub module only supplies exception classes.'),
    'C36': dict(
        text='Proof (all integer process ids, all paths) for Pool.connect (inherited by SQLitePool and PGPool) and OraPool.connect: a connection or session '
             'pool recorded under a different pid is never returned, receives no call at all, is parked so that it is not finalised in the child, and the pool '
             'records the current pid; with an equal pid the pooled connection is reused. Pool.disconnect closes its own connection and parks one of another process. BOUNDED (concrete pids): with 1..3 pools every inherited connection stays reachable from the keep-alive store and unused.',
        note='Per-call guarantee only: a fork inside an open session (child inherits cache.connection) and cross-process visibility of data are not covered. '
             'os.getpid is an effect returning an arbitrary int; driver modules are stubs supplying recording objects.'),
    'C32': dict(
        text='Finite-domain proof by complete enumeration on the real code: for 15 public operations (assignment, set(), delete, flush, load, lazy attribute '
             'and collection loads, collection add/remove/clear/create/assign, in-place Json change) on objects of every status left over from sessions that '
             'committed, rolled back or failed, strict and non-strict: the liveness precondition holds, the call raises DatabaseSessionIsOver (or the equally '
             'harmless was-deleted / db_session-required error), the object and session state equal the snapshot, and no SQL / connection effect occurs; loaded '
             'values remain readable unless strict. BOUNDED: 16 reads that need the database (untouched collections, lazy attribute, one-to-one partner without a column, to_dict) outside any session and inside a '
             'new session on the same thread are refused without a statement and without touching the snapshot.',
        note='Ground obligations over a finite domain (3 endings x 2 x 5 object kinds x 15 operations + reads). Entry points outside the listed operations are '
             'not covered. In-memory SQLite provides the real sessions that leave the objects behind.'),
    'C06': dict(
        text='Proof for ALL strings that inline SQL string literals (Value / SQLiteValue / PGValue / MySQLValue, five paramstyles, incl. the driver percent '
             'pass), quoted identifiers (quote_name, both quote characters, dotted names) and LIKE patterns built by contains / startswith / endswith '
             '(constant and expression items, four dialects, explicit or default escape) denote exactly the original value: the real functions run on a '
             'symbolic string, the result is normalised to prefix + Hom(replace chain) + suffix, per-character local conditions against reference lexers are '
             'discharged by z3, and a Lean 4 lemma (checked every setup) lifts them to all strings. MOD percent doubling proved per style. Placeholder-to-'
             'argument binding (SQLBuilder.__init__/make_param/adapter/Param.__str__) is BOUNDED (<= 4 occurrences, all partitions; composite parameters: 1-2 JSON paths of <= 2 items with variables) and counted separately.',
        note='Trusted: reference lexers (SQL literal and LIKE tokenizer validated against sqlite3 every run; MySQL backslash mode and PostgreSQL/MySQL default LIKE '
             'escape from the manuals), str.replace with 1-char needle is char-wise, SQL REPLACE equals Python replace, Lean kernel. Known finding: MySQL backslash in literals.'),
    'C30': dict(
        text='Proof of the cache clause for every $-free statement text (symbolic string, arbitrary other content incl. %) and every paramstyle: adapt_sql and '
             'parse_raw_sql store their result under exactly the key they look up, write one key, return a hit untouched and pass a $-free statement through '
             'unchanged, so the outcome cannot depend on statements adapted earlier. The layout of $-expressions ($name, $obj.attr, $f(..), $d[..], $name;, $$, '
             '% text) into placeholders and argument tuples/dicts in order is BOUNDED (statements of <= 3/4 segments from 9 kinds x 5 styles), counted separately.',
        note='Symbolic contract precondition: no "$" in the text (str.index forks on ValueError); statements with $ are only covered by the bounded layout contract. '
             'Evaluation of $expr in the caller frame and raw_sql() fragments inside queries only BOUNDED (never counted as proved): 48 raw SQL statements through every entry point on real SQLite '
             '(12 shapes of $-expression, 7 parameter types through one statement text, $$ / % / quotes), hand-written answers, every ordered pair run with caches emptied before the pair only.'),
    'C31': dict(
        text='Proof for ALL strings (key parts) that Bag._reduce_composite_pk is uniquely decodable and therefore injective on tuples of equal arity: the real function '
             'run on symbolic strings gives enc(a),enc(b),... with one replace chain; local decoding conditions discharged by z3, lifted by the Lean lemma.',
        note='Proved: only the key-encoding clause. BOUNDED (never counted as proved), real entities on SQLite: Entity.to_dict on a model with every key shape (every object x loaded / modified / '
             'created in the session x 41 option combinations) against a reading computed from getattr; pickle round trip of objects, lists, query results and nested containers into a fresh '
             'session, a session that holds the objects, the same session, and read after the receiving session is over. Database.to_json values are checked under C34 (to_json.filter).'),
    'C05': dict(
        text='Proof of per-call cache-key soundness (non-interference): for Query._construct_sql_and_arguments every argument handed to the cached SQL construction '
             '(limit, offset symbolic; distinct; aggregate function, distinct and separator; for_update / nowait / skip_locked symbolic) is the very value stored in the '
             'lookup key, the key also pins vartypes, pinned parameter values, join syntax option and prefetch attributes, the entry is stored under the lookup key, the '
             'result-cache key contains the SQL key and the bound arguments, and a hit recomputes nothing; adapt_sql / parse_raw_sql on a symbolic statement text; '
             'decompile keyed by the identity of a code object that is kept alive; string2ast keyed by the exact source text. _get_translator pinned-value check BOUNDED (<= 2).',
        note='Whole histories only BOUNDED (never counted as proved): warm-vs-cold differential on real SQLite over histories of <= 2 statements + core triples (thorough: all <= 3) out of 62 statement '
             'kinds incl. modifications, flush / commit / rollback and hooks that query during flush; the run with every cache emptied before each statement is the oracle; and the per-entity SQL caches (_construct_sql_: 648 argument tuples incl. lock modes, _construct_batchload_sql_: 60) answer warm as cold under four warming orders; the cached DELETE statement of bulk deletes is covered by the 27-query bulk delete contract shared with C15. construct_sql_ast / ast2sql are recording stubs in the key '
             'contract: what they read beyond their arguments is translator state identified by query._key (assumed).'),
    'C04': dict(
        text='Proof over a finite generating set, enumerated completely on the real ast2src / PythonTranslator: for every (parent production, slot, child production) of '
             'the regenerated expression grammar (54 parent productions incl. boolean / comparison (chains) / bitwise / arithmetic / power / unary operators, conditional '
             'expressions, lambdas with defaults, attribute, call with positional / keyword / * / ** arguments and generator argument, subscripts, slices, tuples, lists, '
             'dicts, f-strings with conversions, (nested) format specs and literal braces, generator expressions; 65 child productions incl. constants of every kind and '
             'folded negative constants) the regenerated text parses back (CPython parser as oracle) to the same tree or is rejected; thorough tier closes depth 3 over the '
             'operator core. Only the source-regeneration half of C04; the outer-scope half is BOUNDED (frames scenarios, incl. nested generators whose loop variable is named like a variable of the caller).',
        note='The step from depth-2 trees to all trees rests on the locality of parenthesisation in Python\'s expression grammar (assumption). External-node detection '
             '(PreTranslator) and evaluation in the caller scope (extract_vars, get_globals_and_locals) only BOUNDED (never counted as proved): ~55 ways of mentioning outer-scope values '
             '(globals, locals, closures, shadowing, rebinding between runs, function / generator objects made in another module) on real SQLite against Python evaluation. The decompiler is C03.'),
    'C11': dict(
        text='Proof over symbolic maps (z3 arrays with arbitrary content, skolem key): SessionCache.update_simple_index / db_update_simple_index change the key index to '
             'exactly old-removed / new -> obj with every other key unchanged, raise (and change nothing, record nothing) exactly when the new key is held by another object, '
             're-establish the representation invariant, and record the exact undo entry; EntityMeta._get_from_identity_map_ on real entities returns the object '
             'registered under pk itself (class refinement only towards a subclass) or registers the new object at exactly pk. Composite indexes (arity 2, 3) BOUNDED; so are raw-key resolution (keys of 3-4 raw columns, 9 ways of reaching a row) and a key of a key named by a raw text that validation normalises.',
        note='The representation invariant (obj occurs in an index only under its current value) is a precondition; its preservation per function is proved, the induction '
             'over whole histories is not claimed. SymDict = CPython dict semantics on z3 arrays (trusted encoding).'),
    'C13': dict(
        text='(1) Proof on the real Attribute.__set__ and Entity.set of a real loaded object whose unique index and composite index are symbolic maps with symbolic old / new key '
             'values: the call raises exactly when a new key is held by another object, and then both maps, the object\'s values, status, write bits and save-queue position '
             'equal the snapshot (the real undo closures run); on success the maps change exactly. (2) BOUNDED: 26 modification scenarios on a real session (assignment, set(), '
             'creation, collection assign/add/remove/clear, one-to-one steal, delete with cascade and refusal) with every do/undo callee failing at every call position: the '
             'whole session snapshot is restored on every raising path; a refused assignment to a lazy unique attribute that is not loaded raises CacheIndexError and changes nothing.',
        note='One injected callee failure per path (not combinations); callee contract "raises => changed nothing" (proved for index functions in C11). Scenario set and model are fixed; '
             'histories of several failing calls are not covered.'),
    'C12': dict(
        category='other',
        text='BOUNDED stand-in (never counted as proved): contracts stated on the real reverse-side functions and checked for every combination of per-object collection '
             'states for objects of length <= 3/4 (Set.reverse_add / reverse_remove incl. do;undo == identity, db_reverse_add / db_reverse_remove incl. the phantom refusal), '
             'and both-ends agreement of the whole session (every pair of reverse attributes, every pair of loaded objects) after each of 30 modification scenarios on a model '
             'with one-to-one (required and optional), many-to-one, many-to-many and cascade relationships, on success and on every raising path incl. injected callee failures; '
             'histories of <= 2 (thorough 3) relationship operations under 6 load states (objects loaded, known by key only, not known) checked against a dict of the links made and the raw rows; collections loaded in batches of 3 (1..8 objects in the session, 6 read orders, either end first) equal the stored links and agree with the other end.; one-to-one (re)assignments from either side with and without cascade_delete when both objects already have partners.',
        note='No unbounded obligation: the quantifier over all histories is outside the technique; K objects per call and the scenario set are the bounds. Recursive maintenance through '
             '__set__ / _delete_ is exercised only by the scenarios.',
        technique='contracts on real functions, bounded exhaustive state enumeration (contract-based family, bounded stand-in)'),
    'C28': dict(
        text='Finite-domain proof by complete enumeration: the set of in-place mutators of dict and list is obtained by probing CPython at start-up and cross-checked '
             'with a hand-written list; for every method of dict / list on TrackedDict / TrackedList / TrackedArray: mutators (incl. += *= |=, slice assignment, sort, reverse, '
             'popitem ...) report the change to the owner, give the builtin\'s result and wrap container arguments so that later nested changes are reported; non-mutating '
             'methods report nothing. Entity._attr_changed_ for every object status. End-to-end persistence of each mutator at nesting depth 1..4 on a real session is BOUNDED; '
             'so are values moved into a loaded container from another object / attribute (13 ways x 5 origins) followed by a later nested change, and 16 replacements by ==-equal values of another JSON type (True / 1 / 1.0).',
        note='Ground obligations. The mutator list is tied to the running CPython (3.12): a new mutator in a later Python shows up as a start-up discrepancy (exit 3).'),
    'C34': dict(
        category='other',
        text='BOUNDED stand-in (never counted as proved): the real has_perm / can_view / can_edit on real entities with <= 2/3 access rules on the entity and <= 2 on the '
             'reverse entity, every combination of per-rule predicates (groups, roles, labels satisfied; entity / attribute excluded), entity / plain attribute / hidden '
             'attribute / relationship attribute / object targets, both iteration orders of the rule collection, checked against the declarative reading of the rules; '
             'repeated calls agree; AccessRule.exclude covers subclasses and refuses primary keys; Database.to_json on real perm() / getter declarations: 4 users x 16 include sets x 19 data shapes, '
             'refused exactly when the closure of the data under include holds an object the user may not view, else exactly the closure with current values.',
        note='K rules per entity is the bound. get_user_groups / roles / labels are stubs in the has_perm contracts and real getters in the to_json contract.',
        technique='contract on the real function vs a declarative spec, bounded exhaustive enumeration of rule sets (contract-based family, bounded stand-in)'),
    'C07': dict(
        text='Proof for all values of the integer codecs: round_microseconds_to_precision (floor to 10^(6-p), None iff unchanged, idempotent; every microsecond value, precision 0..6) and '
             'the interval text codec (str2timedelta(timedelta2str(td)) == td for EVERY normal-form timedelta: symbolic days / seconds / microseconds, the text as a structured '
             'symbolic string, shape [-]H:M:S[.ffffff]). BOUNDED (grids, counted separately): Time/Datetime/TimedeltaConverter.validate, datetime2timestamp/timestamp2datetime, SQLite '
             'date/time/datetime/Decimal converters through the real sqlite3 engine, and a whole write-flush-reload round trip of 21 attribute types on in-memory SQLite.',
        note='datetime.timedelta is stubbed as exact integer arithmetic; Python %d / %06d formatting facts assumed. Floating point (REAL days for SQLite intervals, float attributes) and '
             'the wire formats of other backends are not claimed. Known finding: Decimal kept unrounded in the writing session.'),
    'C21': dict(
        text='Proof (symbolic previously-seen and reloaded database values, all paths) on the real Attribute.db_set and Entity._db_set_ of a real loaded object: when a non-volatile '
             'attribute was read and the reloaded value differs, UnrepeatableReadError is raised and the observed value is not replaced (db_set: nothing at all changes); otherwise '
             'the new value is installed while the session\'s own unflushed write survives; volatile attributes carry no repeatable-read bit (_initialize_bits_); Attribute.__get__ '
             'sets the read bit exactly for attributes not yet written. The phantom rule for fully loaded collections is checked under C12.',
        note='Per-reload contracts; end to end only BOUNDED (never counted as proved): 5 attribute types x ordinary / boundary / missing values x 10 ways the object became known x a foreign '
             'change x 4 ways of reading again (one known finding: None values of a new object are forgotten after the INSERT), the observed-collection scenarios (one-to-many), and a many-to-many collection observed in 5 ways x 5 foreign link changes x 6 ways of reloading incl. prefetch (one known finding: negative membership answers are not protected), and EntityMeta._set_rbits on results that mix the classes of one hierarchy (each object is marked by its own class\'s bits). Interleavings with concurrent '
             'committed writers (the schedules quantifier) are outside this technique and not claimed. A volatile attribute '
             'with an unflushed own write at reload time is excluded (not reachable through the API: queries flush first).'),
    'C20': dict(
        category='other',
        text='BOUNDED stand-in (never counted as proved): on a real loaded object of a model with plain, optimistic=False, volatile, float and NULL-valued attributes, for every subset '
             'of attributes read and every write-before / write-after variant, Entity._construct_optimistic_criteria_ yields exactly the attributes read before being written '
             '(excluding volatile / non-optimistic ones) against the value that was read (IS NULL for None); Entity._save_updated_ adds the criteria iff the session is optimistic and '
             'the object is not locked for update, raises OptimisticCheckError on zero affected rows, and runs the UPDATE inside the transaction. Attributes that occupy several columns (references to 2- and 3-column keys): every subset of 5 attributes read x each of 8 columns changed by somebody else: refused exactly when a column of a read attribute changed. End to end on a diamond hierarchy: 4 classes x 5 attributes x 9 ways of '
             'reading (attribute access, to_dict, query conditions over several entities of the hierarchy, get() by value) x with / without a foreign change: writing the object afterwards fails iff the attribute was changed. PROOF (symbolic integer values, shared with C21): a row fetched again while a read-modify-write is pending reports the foreign change instead of replacing the remembered database value.',
        note='Schedules of concurrent sessions are outside the technique; atomic evaluation of the WHERE clause by the database is assumed. Bounds: one entity, 5 column attributes.',
        technique='contracts on real functions, bounded exhaustive enumeration of read/write sets (contract-based family, bounded stand-in)'),
    'C01': dict(
        text='PARTIAL proof, for the truth-test and negation mechanisms the property names: real monads of a real translator (SQLite / PostgreSQL / MySQL / Oracle code paths); the SQL of '
             'x.nonzero() and x.negate() for nullable and required int / bool / str attributes, arithmetic expressions, boolean expressions and objects, evaluated under SQL three-valued logic '
             'over a symbolic row (every column (is_null, value)), keeps a row iff Python truth of x / not x (missing values falsy); CmpMonad.negate and BoolExprMonad.negate are the 3VL NOT of the '
             'original condition and involutive. String slicing (C25), LIKE (C06) and limit/offset (C24) are checked under those properties.',
        note='The translator as a whole (monad dispatch, joins, subqueries, aggregates, row decoding, hybrid methods) is out of reach of per-function contracts: only BOUNDED (never counted as proved) on real SQLite: '
             '~115 row conditions against a 3VL reference interpreter, ~35 whole queries with hand-written Python equivalents, ~215 generated aggregate conditions (sum / min / max / avg / count over collections, '
             'attribute path and generator form, with and without the JOIN() hint), ~120 date / datetime expressions (parts, comparisons, +/- timedelta as constant and parameter, differences) exact to the microsecond, '
             '~80 conditions and projections through references that are parts of composite keys, 40 conditions over Decimal attributes with Decimal parameters. '
             'Trusted: the 3VL evaluator; strings represented by their length; monad.nullable accurate.'),
    'C02': dict(
        text='PARTIAL, derived: the dialect-quantified contracts of C01 (truth tests), C06 (string literals per value class, LIKE escape per dialect, MOD), C24 (LIMIT without bound per dialect) '
             'and C25 (string slicing per dialect) are re-run with the dialect as configuration; each dialect code path is proved equal to the same dialect-independent Python meaning under '
             'the dialect semantics of the specification library, so agreement between dialects is the corollary; plus boolean / NULL / integer literal forms per dialect value class. '
             'BOUNDED: the string functions (upper, lower, len, strip / lstrip / rstrip with and without chars, +, replace, nested) rendered by the real builders of all six dialect classes, the '
             'SQLite text executed, the others evaluated under each server\'s documented function semantics by a small interpreter of the emitted forms, each answer equal to Python\'s; the same for date parts, '
             'date(), datetime +/- timedelta, date +/- days and differences on the generic / PostgreSQL / CockroachDB / MySQL / Oracle builders. The LIMIT section as rendered by each builder denotes the window asked for (limits incl. 0, offsets, Oracle ROWNUM idiom). The locking form of a query (SELECT_FOR_UPDATE, shared with C35) names the same rows in the same order on every builder, Oracle\'s ROWID rewrite of limited queries included.',
        note='No PostgreSQL / MySQL / Oracle server or driver is available: server behaviour is represented by documented-semantics clauses (assumed contracts on dependencies; SQLite clauses are '
             'validated against the real engine). Only mechanisms under contract are compared, not whole queries. Known findings of C25 / C06 reappear here, plus MySQL strip() with several characters and the clipped MySQL TIMEDIFF.'),
    'C17': dict(
        text='PARTIAL proof of the proviso under which crash atomicity is the database\'s own guarantee: on the real Database._exec_sql / SessionCache (prepare_connection, connect, reconnect, '
             'flush, flush_and_commit, commit, close) / db_session exit / provider set_transaction_mode, commit, rollback, drop, release and pools, with the DB-API connection a ledger stub '
             '(SQLite, PostgreSQL, generic), for every DB-API fault point of sessions of reads and writes: the durable writes are none or all of the writes issued (all if the session reported '
             'success, none if its body raised), no write runs in autocommit mode, everything durable came from one transaction; _exec_sql never moves a session with pending writes to another '
             'connection; every write call site of core.py (created / updated / deleted via SessionCache.flush and Entity.flush, m2m add / remove, bulk delete, Database.execute / insert) '
             'reaches _exec_sql with start_transaction=True or cache.immediate set (all call sites from the AST exercised). One db_session over TWO databases (every fault point, objects waiting for the '
             'flush inside commit(), the body calling commit() itself): no database is left with writes neither committed nor rolled back, no session cache outlives the session, each database for itself '
             'holds none or all of the session\'s writes; atomicity ACROSS databases is not claimed (commit() commits the primary first, by design), but every database is flushed before the first one is committed.',
        note='Crash points and the file contents seen by a new process are NOT explored (outside the technique): they reduce to the database\'s transaction guarantee under the clauses proved. '
             'Trusted: the ledger model of DB-API connections; the body stops at its first exception.'),
    'C35': dict(
        text='PARTIAL proof of what pony must do so that locking is the database\'s contract: SELECT_FOR_UPDATE on every dialect builder = the plain query + FOR UPDATE [NOWAIT | SKIP LOCKED] '
             '(SQLite: plain); get_for_update (pk / unique / lambda), Query.for_update on a real model: the locking read runs with cache.immediate inside the open (BEGIN IMMEDIATE) transaction, '
             'hands SELECT_FOR_UPDATE with the options to the builder, is not answered from the cache for an object loaded without a lock, registers the object in cache.for_update; '
             'ledger sessions (SQLite, PostgreSQL) for for_update / serializable / pessimistic modes over every fault point, also when the application catches the error of a locking read and retries it in the same session: protected reads never run in autocommit mode, PostgreSQL '
             'SERIALIZABLE is set inside the transaction before them, and that transaction is not ended before the body ends; db_session option table; commit empties the locked set; for_update / nowait / skip_locked are fields of the constructed-SQL key and of the result-cache key (contract shared with C05).',
        note='Schedules of two or three sessions (who waits, who fails, final values versus serial executions) are NOT covered: outside contract-based verification. '
             'Row-lock / write-lock / SERIALIZABLE semantics are the database\'s contract (assumed).'),
    'C14': dict(
        text='PARTIAL proof: in-session half shared with C11 (key indexes as z3 arrays with arbitrary content: the real update_simple_index / update_composite_index / db_* variants and '
             '_get_from_identity_map_ raise on a key occupied by another object and change nothing, whole-view postconditions); flush half: Entity._save_created_ with a symbolic '
             'auto-generated id and arbitrary index: a used id raises TransactionIntegrityError with the index unchanged, otherwise registered at exactly that id; IntegrityError / DatabaseError '
             'from the database surface as TransactionIntegrityError / UnexpectedError with the object not marked inserted. BOUNDED end-to-end scenarios on real SQLite (pk / unique / composite '
             'x row only in the database / loaded / created in the session x create / modify): conflict reported, no duplicate committed, database unchanged.',
        note='"No sequence of operations" is an induction over histories: not claimed; each operation preserves at-most-one-object-per-key. Rollback after the error: C18 / C17. '
             'The database enforcing the generated constraints is assumed (exercised for SQLite only, bounded).'),
    'C10': dict(
        text='PARTIAL proof (per call): SessionCache.prepare_connection_for_query_execution flushes pending changes before it returns a connection (ghost order, every fault point; a failed '
             'flush propagates); SessionCache.flush empties the query-result cache before saving; SetInstance.count with symbolic database count and symbolic |added| / |removed| returns '
             'db + |added| - |removed|, computed with auto-flush disabled, and caches it. BOUNDED differential end to end on real SQLite: for 12 unflushed modifications (and pairs) x 5 warm-up '
             'states x 29 reads (attribute, collection iteration / count / len / is_empty / in, get by pk / unique, exists, select with lambda / keyword filters, aggregates, to_dict, joins) '
             'the answer inside the modifying session equals the answer of a new session after the same modifications were committed. BOUNDED: attributes assigned without being read on an '
             'object known by key only / partly / completely, then one of 14 row-fetching operations (some with auto-flush off), then reads in the session and after commit against a dict. Entity.select_random (answered from the identity map) is among the reads.',
        note='Agreement of cache-answered lookups with database queries is history-dependent: covered only for the enumerated scripts (bounded). The oracle is pony itself after commit.'),
    'C15': dict(
        category='other',
        text='BOUNDED decision table executed end to end on real SQLite with foreign keys enforced: for every relationship shape (one-to-many, one-to-one with the column on either side, '
             'many-to-many) x cascade_delete option (default / True / False) x reverse side required / optional x reference declared on the root entity or on a subclass x dependents present or not x loaded or not x obj.delete() / Query.delete() / '
             'Query.delete(bulk=True) the real Entity._delete_ / flush / generated schema behave as the property states: cascading dependents are deleted (in the session and in the database), '
             'optional references are cleared, a required dependent without cascade refuses the delete at the call with ConstraintError (bulk: database error) and nothing changes, and the '
             'committed database has no dangling reference (PRAGMA foreign_key_check + anti-join). A bulk delete removes exactly the rows its query selects and leaves the database of the object-by-object delete (27 queries incl. aggregated conditions, subclasses, joins, subqueries). Also the finite table: Attribute.linked default and the ON DELETE clause in the DDL follow the rule.',
        note='All-bounded: reported as level other, never as proved. Two entities per shape, at most two dependents; SQLite only (ON DELETE behaviour of other servers is their contract).'),
    'C33': dict(
        text='PARTIAL: finite proof of the hook dispatch tables (Entity._before_save_ / _after_save_ over every status) and of SessionCache.call_after_save_hooks (each recorded entry '
             'once, in order, entries recorded meanwhile kept); BOUNDED end to end on real SQLite with a hook / statement log: 9 scripts (create with existing / new principal in both '
             'orders, update, delete, cancelled create, re-point to a created object, delete that unlinks) x 5 ways of flushing (commit, flush(), obj.flush(), auto-flush, two rounds) x 4 hook '
             'behaviours: for every object and kind the k-th before-hook < k-th statement < k-th after-hook with equal counts, and the committed database contains attribute edits and '
             'objects made inside before_* hooks.',
        note='Exactly-once across arbitrary flush rounds is history-dependent: only the enumerated scenarios (bounded).'),
    'C16': dict(
        text='PARTIAL: finite proof (ghost order) on the real Entity._save_ / _save_principal_objects_ over every reference graph of 3 objects with 2 reference slots each and '
             'created / modified statuses: every referenced created object is written before the object referring to it, each once, a cycle among created objects raises '
             'UnresolvableCyclicDependency, the queue ends empty; SessionCache.flush round shape (before-hooks, remove_m2m, saves, add_m2m, after-hooks). BOUNDED end to end: every valid script of '
             '<= 3 (thorough: 5) operations over a 22-operation alphabet (creates with / without references, re-pointing in both directions, a required reference without cascade, edits of a plain attribute, '
             'deletes, many-to-many link / unlink / create / delete), also with everything loaded beforehand so that the script is one flush, on real SQLite with immediate foreign keys: orderable scripts commit and the database equals a reference model, cyclic ones raise and leave the database unchanged.',
        note='Acceptance by the database is checked on SQLite only and only for the enumerated scripts (bounded). Two known findings (unique key reused by a re-created object that is saved '
             'principal-first before the pending DELETE; re-point an object, delete its former parent, delete the object: DELETE parent is emitted first).'),
    'C26': dict(
        text='PARTIAL proof: normalize_name of every provider returns a string of length min(len(name), max_name_len) and every get_default_*_name function (table, m2m table, column, m2m '
             'column, index, foreign key names; every branch) returns a string within max_name_len, for ARBITRARY names (symbolic strings, lengths in z3); the real Table / DBIndex / ForeignKey / '
             'Constraint constructors refuse a used name and leave the registry unchanged (finite). BOUNDED: 6 model families mapped on real SQLite: create_tables succeeds, PRAGMA table_info / '
             'index_list / foreign_key_list match hand-written expectations (columns, NOT NULL, primary keys, unique and plain indexes, composite and self-referencing foreign keys, '
             'single-table inheritance, custom names), names distinct, check_tables passes on the created schema; 10 model families x PostgreSQL / MySQL / Oracle: DDL objects generated '
             'from the real schema: every name within max_name_len, names pairwise distinct, every table once and every foreign key declared by the entity model exactly once after both of its tables '
             '(self references, reference cycles, composite keys), or the mapping is refused with DBSchemaError. On SQLite every foreign key column, link tables included, has the declared type of the key column it refers to.',
        note='Catalog introspection on SQLite only; for server dialects the DDL text only (providers built without a connection). lower() / upper() assumed length-preserving. '
             'Two Oracle known findings (sequence name of schema-qualified tables; sequence / trigger name longer than 30).'),
    'C29': dict(
        text='PARTIAL: proof (z3, all array lengths and integer bounds) on the real ArrayMixin.__getitem__ / _index monads for the SQLite and PostgreSQL code paths with constant, parameter and '
             'column bounds: the element / window the generated SQL selects under the dialect\'s array semantics is the one Python\'s a[i] / a[i:j] selects, NULL where Python raises. BOUNDED: '
             'differential on real SQLite in both JSON modes (JSON1 and the py_json_* fallback): 12 JSON documents and 4 array triples x 41 JSON conditions, 9 JSON projections, 20 array '
             'conditions, 17 array projections, 8 parameter values: selected rows / returned values equal the same Python expression on the decoded value (rows where Python raises are not '
             'compared); JSON path text round trip _parse_path(eval_json_path(keys)); the registered py_array_* functions equal the Python operations on a grid.',
        note='JSON operators of PostgreSQL / MySQL / Oracle servers cannot be executed here: not covered; PostgreSQL array semantics is an assumed contract. Five known findings (type coercion in '
             'JSON comparisons, keys containing a double quote, negative JSON path index with JSON1, len() of non-arrays).'),
    'C03': dict(
        category='other',
        text='BOUNDED stand-in (never counted as proved): decompile() of real code objects compiled by the running CPython for an enumerated family of sources - every not / and / or '
             'formula with <= 4 (thorough: 5) leaves in every tree shape over three kinds of leaves (truth tests, comparisons incl. is None / in, mixed), as generator condition, generator '
             'element and lambda body, with and without redundant parentheses; ~150 hand-written expressions (arithmetic, comparisons and chains, attributes, calls with keyword / star '
             'arguments, subscripts and slices, constants, containers, f-strings, conditional expressions, nested generators) in the same three positions; multi-clause generators: the returned '
             'tree, compiled again, evaluates like the original for every assignment of the free names over {0, 1, 2, None}, or decompile() rejects the source with an error.',
        note='No contract within reach states "inverse of the CPython compiler" for all code objects; this is the function\'s postcondition checked on a finite family. Rejections are allowed by the property and are counted in the evidence.'),
    'C27': dict(
        category='other',
        text='BOUNDED stand-in (never counted as proved): the real code end to end on SQLite over 6 hierarchies (linear chain, diamond, a 5-level hierarchy with a branch and a deep diamond, custom string discriminator, custom integer discriminators incl. the value 0 for the base class; '
             'discriminator) with one stored object per class: reached in a later session (a fresh session per object) in 16 ways (by key through every ancestor, get / select / generator on the root, through a to-one '
             'reference, through a collection, as an unloaded reference loaded on attribute access, select_by_sql, prefetch, projection, get by unique name) the object has its creation '
             'class and identity; through a class it does not belong to it is not found; E.select(), count, exists and isinstance(x, T) / not isinstance / tuple forms / isinstance on a '
             'related object inside queries agree with Python isinstance for every class and pair of classes.',
        note='The property quantifies over all hierarchies and queries; this is an enumerated family. The class-refinement rule of the identity map is proved under C11.'),
    'C23': dict(
        category='other',
        text='BOUNDED stand-in (never counted as proved): the same 12 observation programs (attribute values incl. lazy ones, related objects, collection contents, counts, emptiness, '
             'membership, navigation chains, subclass attributes; two read after a refused delete, three after pending collection changes) run on the same stored data under 5 model variants (default; every non-key attribute, reference and collection lazy; '
             'collection batch loading disabled; batch loading from the first access; batches of at most 3 objects) x 5 loading strategies (plain access, prefetch() of every relation and lazy attribute, objects first '
             'seen as unloaded references, everything loaded by one big query first, reverse access order): every run observes exactly what the baseline run observes (14 programs, four of them after pending collection changes such as a new link added and removed again before a flush).',
        note='A relation between whole runs: no single-call contract expresses it; this is a differential check on one model and data set. The oracle is the baseline run.'),
    'C09': dict(
        category='other',
        text='BOUNDED stand-in (never counted as proved): histories of several sessions (creates, scalar updates incl. None, deletes, re-pointing of references in both directions, self '
             'one-to-many from either side, many-to-many link / unlink / whole-collection assignment, symmetric many-to-many, flushes, commit(), rollback(), session end, failing sessions) '
             'run on real SQLite and on a reference model: after every commit the database holds exactly the objects, values and links of the model, after a rollback / failing session / '
             'failing flush nothing since the last commit is visible; symmetric links stored both ways; no dangling reference. Exhaustive histories of <= 2 operations x ways of ending the '
             'session; 1000 (thorough: 150000) random histories of <= 10 steps generated from VERIF_SEED; each history with objects loaded on demand and with everything loaded beforehand '
             '(one flush at the end). Collection histories: every sequence of <= 3 of 15 add / remove / assign / clear operations on one collection (many-to-many from either side, one-to-many, '
             '3 initial contents, loaded or not): session content and committed rows equal the set the operations leave. One attribute of the history model is volatile and is changed by assignment and through Entity.set().',
        note='A relation between the database and a reference model over whole histories: no single-call contract expresses it; this is model-based exploration of the write path used as a '
             'bounded stand-in. The reference model (70 lines) is trusted.'),
}

_NOT_BUILT = 'within reach of the technique per DESIGN.md, check not built yet'
NOT_APPLICABLE = {
    'C03': 'specification would be the CPython compiler (inverse of bytecode generation); no contract within reach expresses it',
    'C09': 'whole-history relation between database and reference model; no single-call contract expresses it',
    'C22': 'thread schedules; contract-based deductive verification has no thread support here',
    'C23': 'relational property between whole program runs under different loading strategies',
    'C27': 'quantifies over class hierarchies; reachable contracts would restate the code',
}
for _i in range(1, 37):
    _p = 'C%02d' % _i
    if _p not in CLAIMS and _p not in NOT_APPLICABLE:
        NOT_APPLICABLE[_p] = _NOT_BUILT
