#!/usr/bin/env python3
"""Applies every edit of mutants/harmless.py TOGETHER to a scratch copy of /repo/pony and runs every claimed quick check against it: all must exit 0 (no false alarm on
semantics-preserving edits). Usage: tools/harmless_test.py [Cnn ...]"""
import sys, os, subprocess, tempfile, shutil, json, concurrent.futures as cf
root = os.path.dirname(os.path.dirname(os.path.abspath(__file__)))
sys.path.insert(0, os.path.join(root, 'mutants'))
import harmless
d = tempfile.mkdtemp(prefix='vfharmless_')
try:
    subprocess.check_call(['rsync', '-a', '--exclude', '.git', '/repo/pony', d + '/'])
    for f, old, new in harmless.H:
        p = os.path.join(d, f); s = open(p).read()
        assert s.count(old) == 1, ('STALE harmless edit', f, old[:60])
        open(p, 'w').write(s.replace(old, new))
    r = subprocess.run('cd %s && /venv/bin/python -m pytest -q -p no:cacheprovider --timeout=900 --continue-on-collection-errors -n 12 2>&1 | tail -1' % d, shell=True, capture_output=True, text=True)
    print('suite on the edited copy:', r.stdout.strip())
    props = [a.upper() for a in sys.argv[1:]] or [c['property_id'] for c in json.load(open(root + '/MANIFEST.json'))['checks']]
    def run(p):
        ev = tempfile.mkdtemp(prefix='vfharmless_ev_')
        r = subprocess.run([os.path.join(root, 'check'), p], capture_output=True, text=True, env=dict(os.environ, VF_REPO=d, VF_EVIDENCE_DIR=ev, VF_REPLAY_DIR=ev))
        shutil.rmtree(ev, ignore_errors=True)
        return p, r.returncode, (r.stdout.strip().splitlines() or [''])[-1][:200]
    bad = 0
    with cf.ThreadPoolExecutor(max_workers=8) as ex:
        for p, rc, last in ex.map(run, props):
            if rc != 0: bad += 1; print(p, 'exit', rc, last)
    print('%d checks on %d harmless edits, %d alarms' % (len(props), len(harmless.H), bad))
    sys.exit(1 if bad else 0)
finally:
    shutil.rmtree(d, ignore_errors=True)
