#!/usr/bin/env python3
"""Re-runs kept seeded changes (/verif/seeded/<name>/{patch.diff,demo.py,meta.json}) against the CURRENT /repo HEAD:
for each seed: scratch worktree of /repo under $TMPDIR -> demo passes without the change -> apply patch -> demo fails -> [suite unchanged] ->
./check <props> with VF_REPO=<worktree> must exit 1. The worktree is removed afterwards. Never touches /repo's working tree.
usage: seeds.py [--suite] [--import <worktree> <Cnn> <name>] [names...]"""
import sys, os, subprocess, json, shutil, tempfile, concurrent.futures as cf
root = os.path.dirname(os.path.dirname(os.path.abspath(__file__)))
def sh(cmd, **kw): return subprocess.run(cmd, shell=True, capture_output=True, text=True, **kw)

def run_seed(name, with_suite):
    sd = os.path.join(root, 'seeded', name)
    meta = json.load(open(os.path.join(sd, 'meta.json')))
    props = meta.get('check_props') or [meta['property']]
    wt = tempfile.mkdtemp(prefix='vfseed_')
    os.rmdir(wt)
    r = sh('git -C /repo worktree add -q --detach %s HEAD' % wt); assert r.returncode == 0, r.stderr
    try:
        os.makedirs(wt + '/_seed'); shutil.copy(sd + '/demo.py', wt + '/_seed/demo.py')
        d0 = sh('cd %s && /venv/bin/python _seed/demo.py' % wt, timeout=600)
        ap = sh('git -C %s apply %s/patch.diff' % (wt, sd))
        if ap.returncode != 0:
            return name, dict(status='STALE: patch does not apply to current /repo HEAD', detail=ap.stderr[-300:])
        d1 = sh('cd %s && /venv/bin/python _seed/demo.py' % wt, timeout=600)
        suite = sh('%s/tools/suite.sh %s' % (root, wt)) if with_suite else None
        checks = {}
        evd = tempfile.mkdtemp(prefix='vfseed_ev_')
        for p in props:
            rc = sh('%s/check %s' % (root, p), env=dict(os.environ, VF_REPO=wt, VF_EVIDENCE_DIR=evd, VF_REPLAY_DIR=evd))
            first = next((l.strip() for l in rc.stdout.splitlines() if 'failed obligation' in l), '')
            checks[p] = dict(exit=rc.returncode, first_failed=first[:260], tail=(rc.stdout.strip().splitlines() or [''])[-1][:200])
        shutil.rmtree(evd, ignore_errors=True)
        res = dict(demo_without=d0.returncode, demo_with=d1.returncode, suite=(suite.returncode if suite else None), checks=checks)
        res['valid'] = d0.returncode == 0 and d1.returncode != 0 and (suite is None or suite.returncode == 0)
        res['detected'] = any(c['exit'] == 1 for c in checks.values())
        if res['valid'] and res['detected']:
            meta['caught_by'] = [c['first_failed'].replace('failed obligation: ', '').split('  inputs=')[0] for c in checks.values() if c['exit'] == 1]
            json.dump(meta, open(os.path.join(sd, 'meta.json'), 'w'), indent=1)
        return name, res
    finally:
        sh('git -C /repo worktree remove --force %s' % wt); shutil.rmtree(wt, ignore_errors=True)

def main():
    a = sys.argv[1:]
    with_suite = '--suite' in a; a = [x for x in a if x != '--suite']
    if a and a[0] == '--import':
        wt, prop, name = a[1], a[2], a[3]
        if not name.startswith(prop + '-'): name = prop + '-' + name
        out = os.path.join(root, 'seeded', name); os.makedirs(out, exist_ok=True)
        for f in ('patch.diff', 'demo.py', 'meta.json'): shutil.copy(os.path.join(wt, '_seed', f), out)
        try: meta = json.load(open(out + '/meta.json'))
        except Exception: meta = {}
        meta['property'] = prop; meta.setdefault('check_props', [prop] + a[4:])
        json.dump(meta, open(out + '/meta.json', 'w'), indent=1)
        a = [name]; with_suite = True
    names = a or sorted(os.listdir(os.path.join(root, 'seeded')))
    names = [n for n in names if os.path.exists(os.path.join(root, 'seeded', n, 'patch.diff'))]
    bad = 0
    with cf.ThreadPoolExecutor(max_workers=6) as ex:
        for name, res in ex.map(lambda n: run_seed(n, with_suite), names):
            if 'status' in res:
                print('%-34s %s' % (name, res['status'])); bad += 1; continue
            ok = res['valid'] and res['detected']
            if not ok: bad += 1
            print('%-34s valid=%s (demo %d->%d, suite %s) detected=%s' % (name, res['valid'], res['demo_without'], res['demo_with'], res['suite'], res['detected']))
            for p, c in res['checks'].items():
                print('      check %s exit %d  %s' % (p, c['exit'], c['first_failed'] or c['tail']))
            mp = os.path.join(root, 'seeded', name, 'meta.json'); meta = json.load(open(mp))
            meta['last_run'] = {'repo_head': sh('git -C /repo log --format=%h -1').stdout.strip(), 'valid': res['valid'], 'detected': res['detected'],
                                'demo_exit_without_change': res['demo_without'], 'demo_exit_with_change': res['demo_with'], 'suite_with_change_ok': res['suite'] == 0 if res['suite'] is not None else 'not run',
                                'checks': {p: {'exit': c['exit'], 'first_failed_obligation': c['first_failed']} for p, c in res['checks'].items()}}
            json.dump(meta, open(mp, 'w'), indent=1)
    print('%d seeds, %d not (valid and detected)' % (len(names), bad))
    return 1 if bad else 0

if __name__ == '__main__':
    sys.exit(main())
