#!/usr/bin/env python3
"""Regenerates MANIFEST.json from tools/claims.py (single source of truth) and validates it."""
import json, os, sys
here = os.path.dirname(os.path.abspath(__file__)); root = os.path.dirname(here)
sys.path.insert(0, here)
import claims
props = [json.loads(l) for l in open(os.path.join(root, 'properties.jsonl'))]
ids = [p['id'] for p in props]
checks = []
for pid in ids:
    c = claims.CLAIMS.get(pid)
    if not c: continue
    checks.append({
        'property_id': pid,
        'quick_cmd': './check %s --tier quick' % pid,
        'thorough_cmd': './check %s --tier thorough' % pid,
        'evidence_file': 'evidence/%s.json' % pid,
        'replay_cmd_template': './check %s --replay {path}' % pid,
        'engine': 'vf',
        'level_claimed': {'category': c.get('category', 'proof'), 'text': c['text'], 'design_ref': 'DESIGN.md §4 %s' % pid},
        'level_note': c['note'],
        'technique': c.get('technique', 'contract-based deductive verification: real functions executed on symbolic proxies, all paths, per-path VCs discharged by z3 (cvc5 on unknowns)'),
    })
na = [{'property_id': pid, 'reason': claims.NOT_APPLICABLE[pid]} for pid in ids if pid not in claims.CLAIMS]
missing = [pid for pid in ids if pid not in claims.CLAIMS and pid not in claims.NOT_APPLICABLE]
assert not missing, missing
m = {
    'version': 1,
    'setup_cmd': './setup.sh',
    'hooks': {'guard': 'PONYORM_PONY_VERIF', 'enable': 'none needed: checks import /repo working tree through an instrumenting import hook (no source hooks in /repo)',
              'baseline_off_cmd': 'cd /repo && /venv/bin/python -m pytest -ra -q -p no:cacheprovider --timeout=900 --continue-on-collection-errors',
              'source_commits': [], 'add_only': True},
    'engines': [{'name': 'vf', 'path': 'vf/', 'serves_properties': [c['property_id'] for c in checks],
                 'kind_free_text': 'self-built deductive verifier for Python: instrumenting import hook (5 mechanical AST rewrites on /repo source, every run) + symbolic proxies + exhaustive path enumeration by re-execution of the real functions + one SMT obligation per path x contract clause (z3 5.1, cvc5/z3-new on unknowns) + Lean 4 lemma for char-wise string encodings + native replay of counter-models'}],
    'checks': checks,
    'not_applicable': na,
    'notes': claims.NOTES,
}
json.dump(m, open(os.path.join(root, 'MANIFEST.json'), 'w'), indent=1)
try:
    import jsonschema
    jsonschema.validate(m, json.load(open('/root/.vp/MANIFEST.schema.json')))
    print('MANIFEST.json valid; %d checks, %d not_applicable' % (len(checks), len(na)))
except ImportError:
    print('written (jsonschema not available to validate)')
# the claimed category must be the level the check's own evidence reports (an all-bounded check is 'other', never 'proof')
for c in checks:
    f = os.path.join(root, c['evidence_file'])
    if os.path.exists(f):
        lv = json.load(open(f)).get('level')
        if lv != c['level_claimed']['category']:
            print('WARNING: %s claims category %r but its evidence reports level %r' % (c['property_id'], c['level_claimed']['category'], lv)); sys.exit(1)
