#!/bin/bash
# runs every claimed check (quick or $1 tier) in parallel and prints one line each
cd "$(dirname "$0")/.."
tier=${1:-quick}
props=$(.venv/bin/python -c "import json; print(' '.join(c['property_id'] for c in json.load(open('MANIFEST.json'))['checks']))")
for p in $props; do ( out=$(./check $p --tier $tier 2>&1); echo "$p exit=$? $(echo "$out" | tail -1 | cut -c1-230)" ) & done; wait
