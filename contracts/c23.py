"""C23 The loading strategy never changes the data a program observes — BOUNDED stand-in (level other).

A relation between whole runs: no single-call contract expresses it. Stand-in on the real code: the SAME observation programs are run against the same stored data under
every loading configuration of an enumerated family - model variants (default; every non-key attribute and every collection lazy; batch loading of collections
disabled: nplus1_threshold=None; batch loading from the first access: nplus1_threshold=0; the same with batches of at most 3 objects) x strategies (plain access; prefetch() of every relation and lazy attribute;
objects first seen as unloaded references; everything loaded by one big query first; access in reverse order) x programs (6 traversals of a model with one-to-many,
many-to-many, self reference, inheritance and lazy attributes). Every run must observe exactly what the baseline run (default model, plain access) observes."""
import itertools, types
from vf.verify import Contract, Case
from vf.explore import cur
from pony import orm
from pony.orm import core

META = dict(
    level='other',
    explanation='BOUNDED differential: identical observation programs under 4 model variants x 5 loading strategies must observe the same values, related objects and collection contents',
    trusted_base=['the baseline run (default declarations, plain access) is the oracle'],
    assumptions=['one model (Author / Book / SpecialBook / Tag / Review), 6 observation programs, read-only sessions'],
)
_DBS = {}


def build(variant):
    if variant in _DBS: return _DBS[variant]
    db = orm.Database('sqlite', ':memory:')
    Req, Opt, Set = orm.Required, orm.Optional, orm.Set
    lazy = dict(lazy=True) if variant == 'lazy' else {}
    setkw = dict(lazy=True) if variant == 'lazy' else dict(nplus1_threshold=None) if variant == 'no_batch' else dict(nplus1_threshold=0) if variant in ('batch_at_once', 'tiny_batches') else {}

    class Author(db.Entity):
        name = Req(str, **lazy)
        bio = Opt(str, lazy=True)                    # lazy in every variant
        age = Opt(int, **lazy)
        mentor = Opt('Author', reverse='pupils', **lazy)            # reference attributes are lazy too in the lazy variant
        pupils = Set('Author', reverse='mentor', **setkw)
        books = Set('Book', **setkw)
        passport = Opt('Passport')                     # its owner is required: deleting an author who has one is refused

    class Book(db.Entity):
        title = Req(str, **lazy)
        notes = Opt(str, lazy=True)
        year = Opt(int, **lazy)
        author = Opt(Author, **lazy)
        tags = Set('Tag', **setkw)
        reviews = Set('Review', **setkw)

    class SpecialBook(Book):
        edition = Opt(str, **lazy)

    class Tag(db.Entity):
        label = Req(str)
        books = Set(Book, **setkw)

    class Passport(db.Entity):
        code = Req(str)
        author = Req(Author)

    class Review(db.Entity):
        text = Req(str, **lazy)
        stars = Opt(int)
        book = Req(Book, **lazy)
    db.generate_mapping(create_tables=True)
    if variant == 'tiny_batches': db.provider.max_params_count = 3          # batches of at most 3 objects: the batch-size boundary is exercised
    with orm.db_session:
        a = [Author(name='a%d' % i, bio='bio %d' % i if i % 2 else '', age=20 + i if i != 3 else None) for i in range(5)]
        orm.flush()
        a[1].mentor = a[0]; a[2].mentor = a[0]; a[3].mentor = a[1]; a[4].mentor = a[4]          # (a self reference)
        Passport(code='pp1', author=a[1]); Passport(code='pp2', author=a[2])
        t = [Tag(label='t%d' % i) for i in range(4)]
        books = []
        for i in range(9):
            cls = SpecialBook if i % 3 == 0 else Book
            kw = dict(edition='ed%d' % i) if cls is SpecialBook else {}
            b = cls(title='b%d' % i, notes='n%d' % i if i % 2 == 0 else '', year=2000 + i if i != 5 else None, author=a[i % 4] if i != 7 else None, tags=[t[j] for j in range(4) if (i + j) % 3 == 0], **kw)
            books.append(b)
        for i in range(12): Review(text='r%d' % i, stars=i % 6 or None, book=books[(i * 2) % 9])
    _DBS[variant] = types.SimpleNamespace(db=db, Author=Author, Book=Book, SpecialBook=SpecialBook, Tag=Tag, Review=Review)
    return _DBS[variant]


def _by(objs, title): return next(b for b in objs if b.title == title)


def _byname(objs, name): return next(a for a in objs if a.name == name)


def _refused_delete(author):
    """a modification that is refused half way (the author has a passport whose owner is required) and therefore must leave nothing behind"""
    try: author.delete()
    except core.ConstraintError: return ['refused']
    return ['NOT refused']


def _tag(objs, label): return next(t for t in objs['tags'] if t.label == label)


def _pending_then_assign(objs, kind):
    t0, t1, t2, t3 = (_tag(objs, 't%d' % i) for i in range(4))
    b0, b1, b4 = _by(objs['books'], 'b0'), _by(objs['books'], 'b1'), _by(objs['books'], 'b4')
    first = sorted(nm(b) for b in t0.books)                      # one complete load: later loads of Tag.books may be done for several tags at once
    if kind == 'add': t1.books.add(b4 if b4 not in t1.books else b0)                # a pending addition on a collection that is only partly known
    else: t1.books.remove(next(iter(sorted(t1.books.copy(), key=lambda b: b.title))))       # (copy() loads it; the removal stays pending)
    t2.books = [b0, b1]                                          # assignment loads t2.books with automatic flushing switched off
    return first, [(t.label, sorted(nm(b) for b in t.books), t.books.count(), len(t.books)) for t in (t0, t1, t2, t3)], sorted(nm(t) for t in b0.tags)


def _membership(objs):
    tags = sorted(objs['tags'], key=lambda t: t.id); books = sorted(objs['books'], key=lambda b: b.id); authors = sorted(objs['authors'], key=lambda a: a.id)
    first = sorted(nm(b) for b in tags[3].books), sorted(nm(t) for t in books[1].tags)                      # two complete loads; the books / tags they contain get partly known reverse sides
    return (first, [[b in t.books for b in books] for t in tags], [[t in b.tags for t in tags] for b in books], [[b in a.books for b in books[:4]] for a in authors],
            [(t.label, t.books.count(), sorted(nm(b) for b in t.books)) for t in tags])


def _pending_then_read(objs):
    t0, t1, t2, t3 = (_tag(objs, 't%d' % i) for i in range(4))
    b0, b2, b5 = _by(objs['books'], 'b0'), _by(objs['books'], 'b2'), _by(objs['books'], 'b5')
    a0, a1 = _byname(objs['authors'], 'a0'), _byname(objs['authors'], 'a1')
    len(t0.books)
    t1.books.add(b5); b2.tags.add(t3); b0.author = a1; a0.pupils.add(a1)
    return ([(t.label, sorted(nm(b) for b in t.books), t.books.is_empty()) for t in (t3, t2, t1, t0)], [(a.name, sorted(nm(b) for b in a.books), sorted(nm(p) for p in a.pupils), nm(a.mentor)) for a in sorted(objs['authors'], key=lambda a: a.id)],
            [(b.title, sorted(nm(t) for t in b.tags), nm(b.author)) for b in sorted(objs['books'], key=lambda b: b.id)])


def _add_then_remove(objs):
    """a NEW link added and taken out again with no query in between (b0 is not tagged t1, b1 not t3 in the stored data): however the collections became known, they say what they said before"""
    t1, t3 = _tag(objs, 't1'), _tag(objs, 't3')
    b0, b1 = _by(objs['books'], 'b0'), _by(objs['books'], 'b1')
    t1.books.add(b0); t1.books.remove(b0)
    b1.tags.add(t3); t3.books.remove(b1)                      # taken out through the other end
    return ([(t.label, t.books.count(), t.books.is_empty(), len(t.books), sorted(nm(b) for b in t.books)) for t in sorted(objs['tags'], key=lambda t: t.id)],
            [(b.title, b.tags.count(), b.tags.is_empty(), sorted(nm(t) for t in b.tags)) for b in (b0, b1)])


def nm(o): return None if o is None else getattr(o, 'name', None) or getattr(o, 'title', None) or getattr(o, 'label', None) or getattr(o, 'text', None)


def _book_row(b): return (type(b).__name__, b.title, b.notes, b.year, nm(b.author), sorted(nm(t) for t in b.tags), sorted((r.text, r.stars) for r in b.reviews), getattr(b, 'edition', '-'))
def _author_row(a): return (a.name, a.bio, a.age, nm(a.mentor), sorted(nm(p) for p in a.pupils), sorted(nm(b) for b in a.books))


PROGRAMS = {
    'authors_then_books': lambda M, objs: ([_author_row(a) for a in objs['authors']], [_book_row(b) for b in objs['books']]),
    'books_then_authors': lambda M, objs: ([_book_row(b) for b in objs['books']], [_author_row(a) for a in objs['authors']]),
    'collections_first': lambda M, objs: ([sorted(nm(b) for b in a.books) for a in objs['authors']], [sorted(nm(b) for b in t.books) for t in objs['tags']],
                                          [(len(b.tags), b.reviews.count(), b.tags.is_empty()) for b in objs['books']], [a.name for a in objs['authors']]),
    'navigation_chains': lambda M, objs: ([(r.text, r.book.title, nm(r.book.author), nm(r.book.author.mentor) if r.book.author else None, sorted(nm(t) for t in r.book.tags)) for r in objs['reviews']],),
    'counts_and_membership': lambda M, objs: ([(a.name, a.books.count(), len(a.pupils), a.pupils.is_empty(), _by(objs['books'], 'b0') in a.books) for a in objs['authors']],
                                              [(t.label, t.books.count(), _by(objs['books'], 'b3') in t.books) for t in objs['tags']]),
    'iterate_then_count': lambda M, objs: ([(sorted(nm(b) for b in a.books), a.books.count(), len(a.books), a.books.is_empty(), sorted(nm(p) for p in a.pupils), a.pupils.count()) for a in objs['authors']],
                                           [(sorted(nm(t) for t in b.tags), b.tags.count(), sorted(r.text for r in b.reviews), b.reviews.count(), b.reviews.is_empty()) for b in objs['books']],
                                           [(sorted(nm(b) for b in t.books), t.books.count()) for t in objs['tags']]),
    'after_refused_delete': lambda M, objs: (_refused_delete(_byname(objs['authors'], 'a1')),
                                             [(a.name, sorted(nm(b) for b in a.books), a.books.count(), len(a.books), sorted(nm(p) for p in a.pupils), a.pupils.count(), a.pupils.is_empty(), nm(a.mentor))
                                              for a in objs['authors']], [(b.title, nm(b.author)) for b in objs['books']]),
    'after_refused_delete_observed_first': lambda M, objs: ([(a.books.count(), a.pupils.count(), sorted(nm(p) for p in a.pupils)) for a in objs['authors']], _refused_delete(_byname(objs['authors'], 'a1')),
                                             [(a.name, sorted(nm(b) for b in a.books), a.books.count(), len(a.books), sorted(nm(p) for p in a.pupils), a.pupils.count(), a.pupils.is_empty(), nm(a.mentor))
                                              for a in objs['authors']]),
    # programs that MODIFY collections before reading on: pending (unflushed) additions / removals of one object meet the loading of other objects' collections
    'pending_add_then_assign': lambda M, objs: _pending_then_assign(objs, 'add'),
    'pending_remove_then_assign': lambda M, objs: _pending_then_assign(objs, 'remove'),
    'pending_changes_then_read_everything': lambda M, objs: _pending_then_read(objs),
    'pending_add_then_remove_of_the_same_link': lambda M, objs: _add_then_remove(objs),
    # membership questions asked of collections that were never touched, after OTHER collections were iterated (which fills the reverse sides partly)
    'membership_after_partial_loads': lambda M, objs: _membership(objs),
    'lazy_attributes_only': lambda M, objs: ([(a.bio, a.name) for a in objs['authors']], [(b.notes, b.title, getattr(b, 'edition', '-')) for b in objs['books']]),
}
VARIANTS = ('default', 'lazy', 'no_batch', 'batch_at_once', 'tiny_batches')
STRATEGIES = ('plain', 'prefetch', 'unloaded_references', 'one_big_query_first', 'reverse_order')


def _load(M, strategy):
    A, B, T, R = M.Author, M.Book, M.Tag, M.Review
    if strategy == 'prefetch':
        authors = list(A.select().order_by(A.id).prefetch(A.books, A.pupils, A.mentor, A.bio, B.tags, B.reviews, B.notes))
        books = list(B.select().order_by(B.id).prefetch(B.tags, B.reviews, B.author, B.notes, A.bio))
        tags = list(T.select().order_by(T.id).prefetch(T.books)); reviews = list(R.select().order_by(R.id).prefetch(R.book, B.author, A.mentor, B.tags))
    elif strategy == 'unloaded_references':
        reviews = list(R.select().order_by(R.id))                      # books and authors are first seen as unloaded references of reviews / books
        books = sorted({r.book for r in reviews} | set(B.select(lambda b: not b.reviews)), key=lambda b: b.id)
        authors = sorted({b.author for b in books if b.author is not None} | set(A.select()), key=lambda a: a.id)
        tags = list(T.select().order_by(T.id))
    elif strategy == 'one_big_query_first':
        list(orm.select((a, b, t) for a in A for b in a.books for t in b.tags))
        authors = list(A.select().order_by(A.id)); books = list(B.select().order_by(B.id)); tags = list(T.select().order_by(T.id)); reviews = list(R.select().order_by(R.id))
    else:
        authors = list(A.select().order_by(A.id)); books = list(B.select().order_by(B.id)); tags = list(T.select().order_by(T.id)); reviews = list(R.select().order_by(R.id))
    return dict(authors=authors, books=books, tags=tags, reviews=reviews)


def observe(variant, strategy, program):
    M = build(variant)
    with orm.db_session:
        objs = _load(M, strategy)
        try:
            if strategy == 'reverse_order':
                rev = {k: list(reversed(v)) for k, v in objs.items()}
                r = PROGRAMS[program](M, rev)
                if program.startswith('pending_') or program.startswith('membership_'): return tuple(r)          # these programs pick their objects by name: their output does not follow the order of the lists
                return tuple(list(reversed(part)) if len(part) != 1 else part for part in r)
            return tuple(PROGRAMS[program](M, objs))
        finally:
            orm.rollback()


def _configs(tier):
    return [dict(variant=v, strategy=s, program=p) for v in VARIANTS for s in STRATEGIES for p in PROGRAMS if not (v == 'default' and s == 'plain')]


def _case(cfg, values):
    def reset():
        core.local.db2cache.clear(); core.local.db_context_counter = 0; core.local.db_session = None

    def call():
        want = observe('default', 'plain', cfg['program'])
        got = observe(cfg['variant'], cfg['strategy'], cfg['program'])
        if got == want: return []
        diffs = []
        for k, (g, w) in enumerate(zip(got, want)):
            for g1, w1 in zip(g, w):
                if g1 != w1: diffs.append(('part %d' % k, 'observed: %r' % (g1,), 'baseline: %r' % (w1,)))
        return diffs[:5] or ['different shape']
    return Case(call, {}, [], lambda run: reset(), lambda run: reset())


CONTRACTS = [
    Contract('same_observations', ['pony.orm.core:Set.load', 'pony.orm.core:Query.prefetch', 'pony.orm.core:Query._do_prefetch', 'pony.orm.core:Set.prefetch_load_all',
                                   'pony.orm.core:Entity._prefetch_load_all_', 'pony.orm.core:Entity._load_', 'pony.orm.core:EntityMeta._load_many_', 'pony.orm.core:Attribute.load'],
             _configs, _case, [('every_loading_strategy_observes_the_baseline_data', lambda cfg, i, path: path.outcome == 'ret' and path.value == [])], level='bounded',
             bound='5 model variants x 5 loading strategies x 14 observation programs (two of them read after a refused delete, four after pending collection changes, one asks membership questions after partial loads) on one stored data set'),
] + [c for c in __import__('contracts.c10', fromlist=['CONTRACTS']).CONTRACTS if c.id == 'blind_writes_survive_row_loads']          # an object known by key only / partly / completely must show the same values (shared with C10)
