"""C02 (bounded part): date parts and date arithmetic mean the same on every dialect.

The REAL dialect builders render the AST nodes the translator emits for .year ... .second, .date(), datetime +/- timedelta, date +/- whole days and the difference of two
datetimes / dates, over typed literals. The text is evaluated by a small interpreter of exactly the emitted forms under each server's DOCUMENTED semantics (no server in this
sandbox - assumption, see META of c02; SQLite is executed for real by C01/date_operations_vs_python). Every answer must equal CPython's.

Documented semantics encoded below:
  literals          TIMESTAMP '...' / DATE '...' typed literals; INTERVAL 'h:m:s[.ffffff]' HOUR TO SECOND (standard, PostgreSQL, Oracle), INTERVAL '...' HOUR_SECOND / HOUR_MICROSECOND (MySQL),
                    with an optional leading '-' and hours above 23
  EXTRACT(f FROM v) YEAR / MONTH / DAY / HOUR / MINUTE: the integer field; SECOND: the seconds field INCLUDING fractional seconds (PostgreSQL 9.8, Oracle)
  FLOOR(x)          largest integer not greater than x
  year(v) ... second(v) (MySQL): integer fields
  v + i, v - i      timestamp (or date, taken at midnight) plus / minus interval: exact; a - b of two timestamps: exact interval; date - date: integer days (PostgreSQL)
  ADDDATE / SUBDATE(v, INTERVAL ...) (MySQL): exact;  TIMEDIFF(a, b) (MySQL): a - b as a TIME value, whose range is -838:59:59 .. 838:59:59 (clipped)
  (v)::date, TRUNC(v), DATE(v): the calendar date
A result that is a timestamp at midnight is accepted for a Python date (date + interval is a timestamp on PostgreSQL / MySQL; the servers compare it with dates that way)."""
import re
from datetime import date, datetime, timedelta
from decimal import Decimal
from vf.verify import Case
from contracts import stubs
stubs.install_driver_stubs()
from pony.orm import sqlbuilding as sb
from pony.orm.dbproviders import postgres as pg, mysql as my, oracle as ora, cockroach as cr

BOUND = '5 dialect builders (generic, PostgreSQL, CockroachDB, MySQL, Oracle) x 31 expressions x 7 datetimes / dates (whole seconds, milliseconds, microseconds, month ends, leap day)'
BUILDERS = {'generic': sb.SQLBuilder, 'PostgreSQL': pg.PGSQLBuilder, 'CockroachDB': cr.CRSQLBuilder, 'MySQL': my.MySQLBuilder, 'Oracle': ora.OraBuilder}
DTS = [datetime(2020, 1, 2, 3, 4, 5), datetime(2020, 1, 31, 23, 59, 59), datetime(2020, 2, 29, 12, 0, 0, 250000), datetime(1999, 12, 31, 0, 0, 0, 5), datetime(2021, 6, 15, 10, 20, 30),
       datetime(2020, 1, 2, 0, 0, 0), datetime(2024, 12, 31, 23, 59, 59, 999999)]
OTHER = datetime(2020, 1, 2, 4, 4, 5)


def V(x): return ['VALUE', x]


EXPRS = {
    'dt.year': (lambda v: ['YEAR', V(v)], lambda v: v.year), 'dt.month': (lambda v: ['MONTH', V(v)], lambda v: v.month), 'dt.day': (lambda v: ['DAY', V(v)], lambda v: v.day),
    'dt.hour': (lambda v: ['HOUR', V(v)], lambda v: v.hour), 'dt.minute': (lambda v: ['MINUTE', V(v)], lambda v: v.minute), 'dt.second': (lambda v: ['SECOND', V(v)], lambda v: v.second),
    'd.year': (lambda v: ['YEAR', V(v.date())], lambda v: v.year), 'd.month': (lambda v: ['MONTH', V(v.date())], lambda v: v.month), 'd.day': (lambda v: ['DAY', V(v.date())], lambda v: v.day),
    'dt.date()': (lambda v: ['DATE', V(v)], lambda v: v.date()),
    'dt.second == 5': (lambda v: ['EQ', ['SECOND', V(v)], V(5)], lambda v: v.second == 5), 'dt.second == 59': (lambda v: ['EQ', ['SECOND', V(v)], V(59)], lambda v: v.second == 59),
    'dt.second == 0': (lambda v: ['EQ', ['SECOND', V(v)], V(0)], lambda v: v.second == 0), 'dt.hour == 0': (lambda v: ['EQ', ['HOUR', V(v)], V(0)], lambda v: v.hour == 0),
    '(dt + 1h).hour': (lambda v: ['HOUR', ['DATETIME_ADD', V(v), V(timedelta(hours=1))]], lambda v: (v + timedelta(hours=1)).hour),
    '(dt + 25h).day': (lambda v: ['DAY', ['DATETIME_ADD', V(v), V(timedelta(hours=25))]], lambda v: (v + timedelta(hours=25)).day),
    'other - dt': (lambda v: ['DATETIME_DIFF', V(OTHER), V(v)], lambda v: OTHER - v), 'dt - other': (lambda v: ['DATETIME_DIFF', V(v), V(OTHER)], lambda v: v - OTHER),
    'other.date() - d': (lambda v: ['DATE_DIFF', V(OTHER.date()), V(v.date())], lambda v: OTHER.date() - v.date()),
}
for _n, _td in (('1h', timedelta(hours=1)), ('25h', timedelta(hours=25)), ('-90min', timedelta(minutes=-90)), ('500 days', timedelta(days=500)), ('250ms', timedelta(milliseconds=250)),
                ('5us', timedelta(microseconds=5)), ('-1.5s', timedelta(seconds=-1.5))):
    EXPRS['dt + %s' % _n] = (lambda v, td=_td: ['DATETIME_ADD', V(v), V(td)], lambda v, td=_td: v + td)
    if _n in ('1h', '25h', '500 days', '250ms'): EXPRS['dt - %s' % _n] = (lambda v, td=_td: ['DATETIME_SUB', V(v), V(td)], lambda v, td=_td: v - td)
for _n, _td in (('30 days', timedelta(days=30)), ('366 days', timedelta(days=366))):
    EXPRS['d + %s' % _n] = (lambda v, td=_td: ['DATE_ADD', V(v.date()), V(td)], lambda v, td=_td: v.date() + td)
    EXPRS['d - %s' % _n] = (lambda v, td=_td: ['DATE_SUB', V(v.date()), V(td)], lambda v, td=_td: v.date() - td)


def configs(tier):
    return [dict(dialect=d, expr=e) for d in BUILDERS for e in EXPRS]


def render(dialect, ast):
    prov = type('P', (), dict(paramstyle='qmark', quote_name=lambda self, n: '"%s"' % n))()
    return BUILDERS[dialect](prov, ast).sql


_TOK = re.compile(r"\s*('(?:[^']|'')*'|::|[(),+\-*=]|[A-Za-z_][A-Za-z_0-9]*|\d+(?:\.\d+)?)")


def _tokens(sql):
    out = []; pos = 0
    while sql[pos:].strip():
        m = _TOK.match(sql, pos)
        if not m: raise ValueError('cannot read %r at %d' % (sql, pos))
        out.append(m.group(1)); pos = m.end()
    return out


def _interval(text):
    neg = text.startswith('-'); body = text.lstrip('-')
    m = re.fullmatch(r'(\d+):(\d+):(\d+)(?:\.(\d{1,6}))?', body)
    if not m: raise ValueError('interval literal %r' % text)
    td = timedelta(hours=int(m.group(1)), minutes=int(m.group(2)), seconds=int(m.group(3)), microseconds=int((m.group(4) or '0').ljust(6, '0')))
    return -td if neg else td


def _ts(v): return datetime(v.year, v.month, v.day) if type(v) is date else v

TIME_MAX = timedelta(hours=838, minutes=59, seconds=59)


class Refused(Exception): pass


class Interp(object):
    def __init__(self, dialect, sql): self.d = dialect; self.t = _tokens(sql); self.i = 0
    def peek(self): return self.t[self.i] if self.i < len(self.t) else None

    def take(self, want=None):
        tok = self.peek()
        if tok is None or (want is not None and tok.lower() != want): raise ValueError('expected %r, found %r' % (want, tok))
        self.i += 1
        return tok

    def run(self):
        v = self.cmp()
        if self.peek() is not None: raise ValueError('trailing text %r' % self.peek())
        return v

    def cmp(self):
        v = self.sum()
        if self.peek() == '=':
            self.take(); w = self.sum()
            return v == w
        return v

    def sum(self):
        v = self.prod()
        while self.peek() in ('+', '-'):
            op = self.take(); w = self.prod()
            v = self.arith(op, v, w)
        return v

    def prod(self):
        v = self.post()
        while self.peek() == '*':
            self.take(); w = self.post()
            if isinstance(v, int) and isinstance(w, timedelta): v = v * w
            else: raise ValueError('* of %s and %s' % (type(v).__name__, type(w).__name__))
        return v

    def post(self):
        v = self.atom()
        while self.peek() == '::':
            self.take(); ty = self.take().lower()
            if ty == 'date' and self.d in ('PostgreSQL', 'CockroachDB') and isinstance(v, date): v = v.date() if isinstance(v, datetime) else v
            else: raise ValueError('cast to %s' % ty)
        return v

    def arith(self, op, v, w):
        if isinstance(v, date) and isinstance(w, timedelta):
            if self.d == 'MySQL': raise ValueError('MySQL: datetime +/- interval needs ADDDATE / DATE_ADD or the INTERVAL keyword form')
            return _ts(v) + w if op == '+' else _ts(v) - w
        if op == '-' and type(v) is datetime and type(w) is datetime and self.d != 'MySQL': return v - w
        if op == '-' and type(v) is date and type(w) is date and self.d in ('PostgreSQL', 'CockroachDB'): return (v - w).days          # date - date is an integer
        if op == '-' and type(v) is date and type(w) is date and self.d in ('Oracle', 'generic'): return v - w                          # standard: an interval / Oracle: days
        raise ValueError('%s of %s and %s' % (op, type(v).__name__, type(w).__name__))

    def atom(self):
        tok = self.take()
        if re.fullmatch(r'\d+', tok): return int(tok)
        if tok == '(':
            v = self.cmp(); self.take(')'); return v
        name = tok.upper()
        if name == 'TIMESTAMP': return datetime.strptime(self.take()[1:-1], '%Y-%m-%d %H:%M:%S.%f')
        if name == 'DATE' and (self.peek() or '').startswith("'"): return datetime.strptime(self.take()[1:-1], '%Y-%m-%d').date()
        if name == 'INTERVAL':
            lit = self.take()[1:-1]
            if lit == '1 day' and self.d in ('PostgreSQL', 'CockroachDB'): return timedelta(days=1)          # interval '1 day'
            unit = self.take().upper()
            if unit == 'HOUR':
                self.take('to'); self.take('second')
                if self.d == 'MySQL': raise ValueError('HOUR TO SECOND is not MySQL syntax')
                if self.d == 'Oracle' and len(lit.lstrip('-').split(':')[0]) > 2: raise Refused('Oracle: the leading field of INTERVAL HOUR TO SECOND has 2 digits by default (ORA-01873): an error, not an answer')
                return _interval(lit)
            if unit in ('HOUR_SECOND', 'HOUR_MICROSECOND') and self.d == 'MySQL':
                if unit == 'HOUR_SECOND' and '.' in lit: raise ValueError('fraction in HOUR_SECOND')
                return _interval(lit)
            raise ValueError('interval unit %s' % unit)
        self.take('(')
        if name == 'EXTRACT':
            field = self.take().upper(); self.take('from'); v = self.cmp(); self.take(')')
            if self.d == 'MySQL' and field == 'SECOND': return v.second                  # MySQL EXTRACT(SECOND ...) is the integer field
            if not isinstance(v, date): raise ValueError('EXTRACT from %s' % type(v).__name__)
            if field in ('HOUR', 'MINUTE', 'SECOND') and type(v) is date and self.d == 'Oracle': raise ValueError('Oracle: cannot extract %s from DATE' % field)
            v = _ts(v) if field in ('HOUR', 'MINUTE', 'SECOND') else v
            if field == 'SECOND': return v.second if not v.microsecond else Decimal(v.second) + Decimal(v.microsecond) / 1000000
            return getattr(v, field.lower())
        args = [self.cmp()]
        while self.peek() == ',': self.take(); args.append(self.cmp())
        self.take(')')
        low = name.lower()
        if low == 'floor' and len(args) == 1: return int(args[0] // 1)
        if self.d == 'MySQL':
            if low in ('year', 'month', 'day') and isinstance(args[0], date): return getattr(args[0], low)
            if low in ('hour', 'minute', 'second') and isinstance(args[0], date): return getattr(_ts(args[0]), low)
            if low in ('adddate', 'subdate') and len(args) == 2 and isinstance(args[0], date) and isinstance(args[1], timedelta):
                return _ts(args[0]) + args[1] if low == 'adddate' else _ts(args[0]) - args[1]
            if low == 'timediff' and len(args) == 2 and isinstance(args[0], date) and isinstance(args[1], date):
                return max(-TIME_MAX, min(TIME_MAX, _ts(args[0]) - _ts(args[1])))
        if low == 'date' and len(args) == 1 and isinstance(args[0], date) and self.d in ('MySQL', 'generic'): return _ts(args[0]).date()
        if low == 'trunc' and len(args) == 1 and isinstance(args[0], date) and self.d == 'Oracle': return _ts(args[0]).date()
        raise ValueError('%s(...) is not a %s function known to the specification' % (name, self.d))


def _same(got, want):
    if type(want) is date and type(got) is datetime: return got == datetime(want.year, want.month, want.day)
    if type(want) is timedelta and type(got) is int: return False
    if isinstance(want, bool): return got is want
    if isinstance(want, int): return got == want and not isinstance(got, bool)
    return got == want and type(got) is type(want)


def case(cfg, values):
    def call():
        build, py = EXPRS[cfg['expr']]; bad = []; n = 0
        for v in DTS:
            n += 1
            try: sql = render(cfg['dialect'], build(v))
            except sb.AstError: continue                     # this builder has no such form: the query is refused on this dialect, not answered differently
            want = py(v)
            try: got = Interp(cfg['dialect'], sql).run()
            except ValueError as e: got = 'no meaning: %s' % e
            except Refused: continue
            if not _same(got, want): bad.append((str(v), sql, 'the dialect answers %r' % (got,), 'Python answers %r' % (want,)))
        return bad[:4] if n else ['nothing run']
    return Case(call, {}, [])


def spec(cfg, i, path):
    return path.outcome == 'ret' and path.value == []
