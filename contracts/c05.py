"""C05 Query, SQL and result caches are transparent (DESIGN 4-C05, Appendix A6): cache-key soundness as non-interference —
everything a cached computation reads is a function of its key; results are stored under the key they are looked up by."""
import itertools, types, z3
from vf.verify import Contract, Case
from vf.inputs import Inputs, term, same
from vf.explore import cur
from vf.effects import Patch, note
from vf import logic as L
from contracts import harness as H, c30, c05_history as HI
from contracts import c05_entity_sql as ES
from pony import orm, options
from pony.orm import core, decompiling
from pony.utils import utils as putils

META = dict(
    level='proof',
    explanation='per cached computation: the arguments handed to the computation are (as terms / objects) fields of the lookup key, the result is stored under '
                'the lookup key, and a hit is returned untouched; raw-SQL caches proved on a symbolic statement text (shared with C30)',
    trusted_base=['recording dicts stand for the module / database level caches', 'translator.construct_sql_ast and provider.ast2sql are recording stubs in the '
                  '_construct_sql_and_arguments contract (what they read beyond their arguments is the translator state, which query._key identifies)'],
    assumptions=['whole-history transparency (sequences of queries with in-session modifications) is covered only by the BOUNDED warm-vs-cold differential (c05_history); proved: the per-call key soundness',
                 '_get_translator: <= 2 fixed parameter values (pointwise check; BOUNDED)'],
)
RecordingDict = c30.RecordingDict


# ------------------------------------------------------------------ Query._construct_sql_and_arguments
def _csa_configs(tier):
    out = []
    for lim, off in itertools.product(('none', 'int'), repeat=2):
        for aggr in (None, ('COUNT', None, None), ('GROUP_CONCAT', True, ';')):
            for prefetch in (False, True):
                out.append(dict(limit=lim, offset=off, aggr=aggr, prefetch=prefetch))
    return out


def _csa_case(cfg, values):
    I = Inputs(values)
    limit = I.int('limit') if cfg['limit'] == 'int' else None
    offset = I.int('offset') if cfg['offset'] == 'int' else None
    flags = {k: I.bool(k) for k in ('for_update', 'nowait', 'skip_locked')}
    distinct_kind = None
    M = H.model()

    def setup(run):
        run.state['patch'] = Patch()

    def teardown(run):
        run.state['patch'].restore()
        core.local.db2cache.clear()

    def call():
        st = cur().state; p = st['patch']
        with orm.db_session:
            q = orm.select(x for x in M.P)
            q._for_update, q._nowait, q._skip_locked = flags['for_update'], flags['nowait'], flags['skip_locked']
            q._distinct = st['distinct'] = [None, True, False][__import__('vf.explore', fromlist=['choose']).choose(3, 'distinct')]
            if cfg['prefetch']:
                q._prefetch_context.attrs_to_prefetch_dict[M.P].add(M.P.opt)
            tr = q._translator
            # the translator knows variable types the query key does not (types of globals read by inlined helper functions)
            p.set(tr, 'vartypes', dict(tr.vartypes, **{'extra-func-var': int}))
            rd = RecordingDict(); st['rd'] = rd
            p.set(q._database, '_constructed_sql_cache', rd)
            rec = {}
            st['rec'] = rec

            def construct_sql_ast(*a, **k):
                rec['args'] = a; rec['kwargs'] = k
                return ['SELECT-AST'], 'ATTR_OFFSETS'
            p.set(tr, 'construct_sql_ast', construct_sql_ast)
            p.set(q._database.provider, 'ast2sql', lambda ast_: (rec.__setitem__('ast2sql', ast_), ('SQL', lambda vars_: ('ARG1',)))[1])
            st.update(q=q, tr=tr, key_src=dict(vartypes=dict(tr.vartypes), fixed=dict(tr.fixed_param_values), qkey=q._key,
                                               ijs=options.INNER_JOIN_SYNTAX))
            a = cfg['aggr'] or (None, None, None)
            return q._construct_sql_and_arguments(limit, offset, None, a[0], a[1], a[2])
    return Case(call, I.terms, I.pre, setup, teardown)


def _csa_noninterference(cfg, i, path):
    """every argument of the (expensive, cached) SQL construction is a field of the key the result is cached under"""
    if path.outcome != 'ret': return False
    st = path.state; rd = st['rd']; rec = st['rec']
    if len(rd.gets) != 1 or len(rd.sets) != 1: return False
    key = rd.gets[0]
    if rd.sets[0][0] is not key: return False
    a = rec.get('args')
    if a is None or rec.get('kwargs') or len(a) != 9: return False
    names = ['limit', 'offset', 'distinct', None, None, None, 'for_update', 'nowait', 'skip_locked']
    for val, nm in zip(a, names):
        if nm is None: continue
        if nm not in key or key[nm] is not val: return False
    if key.get('aggr_func') != (a[3], a[4], a[5]): return False
    # the key also pins what the translation / building read besides the arguments
    src = st['key_src']
    ok = (key.get('vartypes') == src['vartypes'] and key.get('fixed_param_values') == src['fixed'] and key.get('inner_join_syntax') == src['ijs']
          and all(key.get(k) == v for k, v in src['qkey'].items() if k != 'vartypes'))      # vartypes: the translator's (superset) wins
    want_prefetch = (st['q']._database.entities['P'].opt,) if cfg['prefetch'] else ()
    return bool(ok and key.get('attrs_to_prefetch') == want_prefetch)


def _csa_args_are_inputs(cfg, i, path):
    """the key fields are the caller's values themselves (no coercion that could merge distinct requests)"""
    if path.outcome != 'ret': return False
    key = path.state['rd'].gets[0]
    def eqv(got, name):
        if name not in i: return got is None
        return same(got, i[name])
    return bool(eqv(key['limit'], 'limit') and eqv(key['offset'], 'offset') and same(key['for_update'], i['for_update'])
                and same(key['nowait'], i['nowait']) and same(key['skip_locked'], i['skip_locked']) and key['distinct'] is path.state['distinct'])


def _csa_entry_and_result_key(cfg, i, path):
    if path.outcome != 'ret': return False
    st = path.state; rd = st['rd']
    sql, arguments, attr_offsets, query_key = path.value
    entry = rd.sets[0][1]
    if not (entry[0] == 'SQL' and entry[2] == 'ATTR_OFFSETS' and sql == 'SQL' and attr_offsets == 'ATTR_OFFSETS' and arguments == ('ARG1',)): return False
    if st['rec'].get('ast2sql') != ['SELECT-AST']: return False
    # the result-cache key contains the SQL key and the arguments
    key = rd.gets[0]
    if query_key is None: return False
    return all(k in query_key and query_key[k] is v for k, v in key.items()) and query_key.get('arguments_key') == ('ARG1',)


def _csa_hit_case(cfg, values):
    M = H.model()

    def call():
        p = Patch()
        try:
            with orm.db_session:
                q = orm.select(x for x in M.P)
                rd = RecordingDict(('CACHED-SQL', (lambda vars_: ('A',)), 'OFFS')); cur().state['rd'] = rd
                p.set(q._database, '_constructed_sql_cache', rd)
                p.set(q._translator, 'construct_sql_ast', lambda *a, **k: note('construct_sql_ast called'))
                return q._construct_sql_and_arguments(3, 1)
        finally:
            p.restore(); core.local.db2cache.clear()
    return Case(call, {}, [])


def _csa_hit_spec(cfg, i, path):
    return (path.outcome == 'ret' and path.value[0] == 'CACHED-SQL' and path.value[2] == 'OFFS' and path.value[1] == ('A',)
            and not path.ghost and path.state['rd'].sets == [])


# ------------------------------------------------------------------ Query._get_translator: pinned parameter values
def _gt_configs(tier):
    return [dict(n_fixed=n, cached=c) for n in (0, 1, 2) for c in (True, False)]


def _gt_case(cfg, values):
    I = Inputs(values)
    n = cfg['n_fixed']
    fixed = {('k%d' % j): I.int('fixed%d' % j) for j in range(n)}
    now = {('k%d' % j): I.int('now%d' % j) for j in range(n)}
    now['other'] = 7

    def call():
        st = cur().state
        tr = types.SimpleNamespace(func_extractors_map={}, fixed_param_values=dict(fixed), func_vartypes={}, filter_num=0)
        cache = {'QK': tr} if cfg['cached'] else {}
        cache['UNRELATED'] = 'keep'
        q = types.SimpleNamespace(_database=types.SimpleNamespace(_translator_cache=cache, provider=None))
        st.update(tr=tr, cache=cache)
        return core.Query._get_translator(q, 'QK', dict(now))
    return Case(call, I.terms, I.pre)


def _gt_spec(cfg, i, path):
    if path.outcome != 'ret': return False
    st = path.state; tr, cache = st['tr'], st['cache']
    got, new_vars = path.value
    if cache.get('UNRELATED') != 'keep': return False
    if not cfg['cached']:
        return got is None and 'QK' not in cache
    all_equal = L.And(*[L.Eq(i['fixed%d' % j], i['now%d' % j]) for j in range(cfg['n_fixed'])]) if cfg['n_fixed'] else True
    reused = got is tr and cache.get('QK') is tr
    evicted = got is None and 'QK' not in cache
    return L.ite(all_equal, reused, evicted)


# ------------------------------------------------------------------ decompile / string2ast / code-object identity
def _dc_case(cfg, values):
    def setup(run):
        run.state['patch'] = Patch()

    def teardown(run): run.state['patch'].restore()

    def call():
        st = cur().state; p = st['patch']
        rd = RecordingDict(('CACHED-AST', 'NAMES') if cfg['hit'] else None); st['rd'] = rd
        p.set(decompiling, 'ast_cache', rd)
        f = eval('lambda x: x.a + 1') if cfg['kind'] == 'lambda' else (y for y in [])
        st['code'] = f.__code__ if cfg['kind'] == 'lambda' else f.gi_frame.f_code
        return decompiling.decompile(f)
    return Case(call, {}, [], setup, teardown)


def _dc_spec(cfg, i, path):
    if path.outcome != 'ret': return False
    st = path.state; rd = st['rd']; code = st['code']
    if len(rd.gets) != 1: return False
    key = rd.gets[0]
    # the key is the identity of the code object, and the code object is kept alive under that id (so the id cannot be
    # reused by another function while the cache entry exists)
    if key != id(code) or putils.codeobjects.get(key) is not code: return False
    if cfg['hit']:
        return rd.sets == [] and path.value[:2] == ('CACHED-AST', 'NAMES')
    return len(rd.sets) == 1 and rd.sets[0][0] == key and rd.sets[0][1] == path.value[:2]


def _s2a_case(cfg, values):
    def setup(run): run.state['patch'] = Patch()
    def teardown(run): run.state['patch'].restore()

    def call():
        st = cur().state
        rd = RecordingDict('CACHED' if cfg['hit'] else None); st['rd'] = rd
        st['patch'].set(core, 'string2ast_cache', rd)
        return core.string2ast(cfg['src'])
    return Case(call, {}, [], setup, teardown)


def _s2a_spec(cfg, i, path):
    if path.outcome != 'ret': return False
    rd = path.state['rd']
    if rd.gets != [cfg['src']]: return False
    if cfg['hit']: return path.value == 'CACHED' and rd.sets == []
    import ast
    return len(rd.sets) == 1 and rd.sets[0][0] == cfg['src'] and rd.sets[0][1] is path.value and \
        ast.dump(path.value) == ast.dump(ast.parse('(%s)' % cfg['src']).body[0].value)


CONTRACTS = [c for c in c30.CONTRACTS if c.id in ('adapt_sql.cache', 'parse_raw_sql.cache')] + [
    Contract('Query._construct_sql_and_arguments', 'pony.orm.core:Query._construct_sql_and_arguments', _csa_configs, _csa_case,
             [('construction_arguments_are_key_fields', _csa_noninterference), ('key_fields_are_the_callers_values', _csa_args_are_inputs),
              ('entry_stored_under_lookup_key_and_result_key_contains_arguments', _csa_entry_and_result_key)],
             doc='limit / offset symbolic, flags symbolic booleans, distinct in {None, True, False}, aggregates, prefetch'),
    Contract('Query._construct_sql_and_arguments.hit', 'pony.orm.core:Query._construct_sql_and_arguments', [dict()], _csa_hit_case,
             [('hit_returns_entry_without_recomputing', _csa_hit_spec)]),
    Contract('Query._get_translator', 'pony.orm.core:Query._get_translator', _gt_configs, _gt_case,
             [('cached_translation_reused_iff_pinned_values_unchanged_else_evicted', _gt_spec)], level='bounded', bound='<= 2 pinned parameter values (pointwise)'),
    Contract('decompile.cache', ['pony.orm.decompiling:decompile', 'pony.utils.utils:get_codeobject_id'],
             [dict(kind=k, hit=h) for k in ('lambda', 'generator') for h in (False, True)], _dc_case,
             [('keyed_by_live_code_object_identity', _dc_spec)]),
    Contract('string2ast.cache', 'pony.orm.core:string2ast', [dict(src=s, hit=h) for s in ('x.a + 1', 'a if b else c', ' x.a + 1 ', 'x.a + 1\n') for h in (False, True)], _s2a_case,
             [('stored_under_the_source_text', _s2a_spec)]),
    Contract('warm_vs_cold_histories', ['pony.orm.asttranslation:create_extractors', 'pony.orm.core:Query._actual_fetch', 'pony.orm.core:QueryResult', 'pony.orm.core:SessionCache.flush',
                                        'pony.orm.core:Query._get_translator', 'pony.orm.core:extract_vars', 'pony.orm.core:Database._exec_raw_sql'],
             HI.configs, HI.case, [('warm_trace_equals_cold_trace', HI.spec)], level='bounded', bound=HI.BOUND_Q + ' (thorough: ' + HI.BOUND_T + ')'),
    Contract('entity_sql_caches', ['pony.orm.core:EntityMeta._construct_sql_', 'pony.orm.core:EntityMeta._construct_batchload_sql_', 'pony.orm.core:EntityMeta._construct_select_clause_'],
             ES.configs, ES.case, [('warm_answer_equals_cold_answer', ES.spec)], level='bounded', bound=ES.BOUND),
    Contract('save_statement_caches', ['pony.orm.core:Entity._save_updated_', 'pony.orm.core:Entity._save_created_', 'pony.orm.core:Entity._save_deleted_', 'pony.orm.core:Entity._construct_optimistic_criteria_'],
             ES.save_configs, ES.save_case, [('warm_statements_equal_cold_statements', ES.spec)], level='bounded', bound=ES.BOUND_SAVE),
]


def _share_bulk_delete():
    # the constructed DELETE statement of Query.delete(bulk=True) is cached per query key too: a statement built for other pinned parameter values must not be reused (contract of C15)
    from contracts import c15
    CONTRACTS.extend(c for c in c15.CONTRACTS if c.id == 'bulk_delete_removes_exactly_the_selected_rows')
_share_bulk_delete()

