"""C29 JSON and array operations in queries match Python semantics (DESIGN 4-C29).

PROOF (integers, z3): ArrayMixin.__getitem__ on real monads of a real translator (SQLite and PostgreSQL code paths; constant, parameter and column
indexes): for every array length n and every index / slice bounds the element or window selected by the generated SQL, under the dialect's array
semantics (PostgreSQL: 1-based, inclusive slices, out-of-range -> NULL / clamped; SQLite: the registered Python functions), is the one Python's a[i] /
a[i:j] selects; an index that Python rejects gives NULL, never another element.
BOUNDED (differential, real SQLite, with JSON1 and with the pure-Python fallback functions): a family of stored JSON documents and arrays x query
operations (path access by key and index, comparisons with scalars, key and item membership, length, truthiness, array indexing and slicing with constant
and parameter bounds, subset): the rows selected / values returned equal the result of the SAME Python expression on the decoded value; a row on which
the Python expression raises is not compared (the operation is not defined there). JSON path text round trip: _parse_path(eval_json_path(keys)) == keys.
JSON operators of PostgreSQL / MySQL / Oracle servers cannot be executed here: not covered."""
import json, types, itertools, z3
from vf.verify import Contract, Case
from vf.inputs import Inputs, term
from vf.explore import cur
from vf import pyspec, sqlsem, logic as L
from contracts import harness as H
from pony import orm
from pony.orm import core, sqltranslation as st, sqlbuilding as sb
from pony.orm.dbproviders import sqlite as sq

META = dict(
    level='proof',
    explanation='array index / slice arithmetic proved for all lengths and bounds on the real monads (z3); JSON and array query results compared with Python evaluation on an '
                'enumerated family of documents and operations on real SQLite in both JSON modes (bounded)',
    trusted_base=['PostgreSQL array semantics (1-based subscripts, inclusive slices clamped to the array bounds, NULL outside) from the manual: assumed contract on a dependency',
                  'pyspec.py_slice / py_index (cross-checked against CPython)', 'sqlsem integer evaluator (3VL)'],
    assumptions=['JSON operators of PostgreSQL / MySQL / Oracle servers are not executable here: not covered',
                 'rows on which the Python expression raises (missing key, wrong type) are not compared'],
)


def startup(rep, tier):
    rep.extra['pyspec_selfcheck_cases'] = pyspec.selfcheck(6)


# ------------------------------------------------------------------ array index arithmetic on real monads
_M = None


def amodel():
    global _M
    if _M is None:
        M = H.Model()
        db = orm.Database('sqlite', ':memory:')

        class P(db.Entity):
            ia = orm.Optional(orm.IntArray)
            i = orm.Required(int)
            j = orm.Required(int)
        db.generate_mapping(create_tables=True)
        M.db = db; M.P = P
        with orm.db_session:
            M.tr0 = orm.select(p for p in P)._translator
        M.tr = None
        _M = M
    return _M


MK = ['none', 'const', 'param', 'expr']
CONSTS = [-7, -3, -2, -1, 0, 1, 2, 5]


def _ai_configs(tier):
    out = []
    for d in ('SQLite', 'PostgreSQL'):
        for a in MK:
            for b in MK:
                if a == 'const' or b == 'const':
                    for ca in (CONSTS if a == 'const' else [None]):
                        for cb in (CONSTS if b == 'const' else [None]):
                            out.append(dict(op='slice', dialect=d, start=a, stop=b, ci=ca, cj=cb))
                else:
                    out.append(dict(op='slice', dialect=d, start=a, stop=b, ci=None, cj=None))
        for a in MK[1:]:
            for ca in (CONSTS if a == 'const' else [None]):
                out.append(dict(op='index', dialect=d, start=a, stop='-', ci=ca, cj=None))
    return out


def _ai_case(cfg, values):
    I = Inputs(values)
    n = I.ghost_int('n'); I.require(n >= 0)
    vals = {}
    for nm, kind, c in (('i', cfg['start'], cfg['ci']), ('j', cfg['stop'], cfg['cj'])):
        if kind in ('param', 'expr'): vals[nm] = I.int(nm)
        elif kind == 'const': vals[nm] = c
    M = amodel()

    def setup(run): H.push_translator(M, cfg['dialect'])
    def teardown(run): H.pop_translator(M)

    def mk(nm, kind):
        if kind in ('none', '-'): return None
        if kind == 'const': return st.ConstMonad.new(vals[nm])
        if kind == 'param':
            M.tr.vars['k' + nm] = vals[nm]
            return st.ParamMonad.new(int, ('k' + nm, None, None))
        return M.tr.namespace['p'].getattr(nm)

    def call():
        a = M.tr.namespace['p'].getattr('ia')
        if cfg['op'] == 'slice': r = a[slice(mk('i', cfg['start']), mk('j', cfg['stop']), None)]
        else: r = a[mk('i', cfg['start'])]
        return r.getsql()[0]
    return Case(call, I.terms, I.pre, setup, teardown)


ACOL = ['COLUMN', 'p', 'ia']


def _bounds(cfg, i):
    def b(nm, kind, c):
        if kind in ('none', '-'): return None
        if kind == 'const': return c
        return i[nm]
    return b('i', cfg['start'], cfg['ci']), b('j', cfg['stop'], cfg['cj'])


def _ai_spec(cfg, i, path):
    if path.outcome != 'ret': return None
    sql = path.value; n = i['n']; d = cfg['dialect']
    env = {'__len__': n}
    for k in ('i', 'j'):
        if k in i:
            env[('COLUMN', 'p', k)] = (False, i[k]); env[('PARAM', ('k' + k, None, None))] = (False, i[k])
    pi, pj = _bounds(cfg, i)

    def ev(x):
        if x is None: return None
        nn, v = sqlsem.sqlint(x, env, d)
        return nn, v
    if cfg['op'] == 'index':
        if sql[0] != 'ARRAY_INDEX' or sql[1] != ACOL: return False
        nn, v = ev(sql[2])
        ok, p = pyspec.py_index(n, pi)
        if d == 'SQLite': sok, sp = pyspec.py_index(n, v)                    # py_array_index: array[index], IndexError -> NULL
        else: sok, sp = L.And(v >= 1, v <= n), v - 1                          # PostgreSQL: 1-based subscript, NULL outside
        return L.And(L.Not(nn), L.Iff(ok, sok), L.Implies(ok, L.Eq(sp, p)))
    if sql[0] != 'ARRAY_SLICE' or sql[1] != ACOL: return False
    s, e = ev(sql[2]), ev(sql[3])
    want = pyspec.py_slice(n, pi, pj)
    nulls = L.Or(s[0] if s else False, e[0] if e else False)
    if d == 'SQLite':
        got = pyspec.py_slice(n, s[1] if s else None, e[1] if e else None)    # py_array_slice: array[start:stop]
    else:
        lo = L.Max(s[1], 1) - 1 if s else 0                                    # PostgreSQL a[s:e]: 1-based, inclusive, clamped to the array bounds
        hi = L.Min(e[1], n) if e else n
        got = (lo, L.ite(hi < lo, lo, hi))
    return L.And(L.Not(nulls), pyspec.same_window(want, got))


# ------------------------------------------------------------------ JSON path text round trip
KEYS = ['a', 'ab_1', 'we ird', 'do.t', 'ünï', '1', 'x-y', "sq'uote", 0, 3, 12]
KEYS_KNOWN_BAD = ['qu"ote', 'back\\slash', '', -1]


def _jp_configs(tier):
    ks = KEYS + KEYS_KNOWN_BAD
    return [dict(keys=(a,)) for a in ks] + [dict(keys=(a, b)) for a in KEYS for b in KEYS]


def _jp_case(cfg, values):
    def call():
        sq.path_cache.clear()
        text = sb.SQLBuilder.eval_json_path(cfg['keys'])
        return text, sq._parse_path(text)
    return Case(call, {}, [])


def _jp_spec(cfg, i, path):
    if path.outcome != 'ret': return False
    text, keys = path.value
    return keys == tuple(cfg['keys'])


# ------------------------------------------------------------------ differential on real SQLite
DOCS = [
    {'a': 1, 'b': 'x', 'c': True, 'd': None, 'e': 1.5, 'list': [1, 2, 3], 'nested': {'k': 'v', 'n': 0}, 'empty_list': [], 'empty_dict': {}, 'zero': 0, 'fzero': 0.0, 'estr': '', 'false': False},
    {'a': 2, 'b': 'y', 'c': False, 'e': -2.25, 'list': ['p', 'q'], 'nested': {'k': 'w'}, 'we ird': 5, 'do.t': 6, 'qu"ote': 7, 'ünï': 8, '1': 9},
    {'a': '1', 'b': 1, 'e': 3, 'list': [[1, 2], {'z': 1}], 'nested': [10, 20]},
    [1, 2, 3],
    {'a': 0, 'b': '', 'c': None, 'e': 0.0, 'list': [0, '', None, False], 'zero': 0.0, 'fzero': -0.0},
    {},
    'scalar string',
    5,
    {'a': 'abc', 'b': 'x', 'list': [3], 'nested': {'k': 'v', 'deep': {'er': [1, {'x': 'y'}]}}},
    {'a': True, 'b': None, 'list': None, 'nested': 'not a dict'},
    {'x': 1, 'y': 2, 'z': 3},
    'abc',
]
ARRS = [([1, 2, 3, 4], ['a', 'b', 'c'], [1.5, 2.5]), ([], [], []), ([5], ['x'], [0.0]), ([3, 3, -1, 0], ['', 'a"b', "c'd", 'ü'], [-1.0, 1e10, 0.5])]
PARAMS = [-6, -4, -1, 0, 1, 3, 4, 9]


def jconds():
    key, key2, one, zero = 'list', 'nested', 1, 0          # external parameters inside JSON paths
    return [
        ("param key, two paths differing in a constant index", lambda d: d.data[key][0] == 1 and d.data[key][1] == 2, lambda v: v[key][0] == 1 and v[key][1] == 2),
        ("param key, two paths differing in a constant key", lambda d: d.data[key2]['k'] == 'v' and d.data[key2]['n'] == 0, lambda v: v[key2]['k'] == 'v' and v[key2]['n'] == 0),
        ("param index", lambda d: d.data['list'][one] == 2, lambda v: v['list'][one] == 2),
        ("two param indexes", lambda d: d.data['list'][zero] == 1 and d.data['list'][one] == 2, lambda v: v['list'][zero] == 1 and v['list'][one] == 2),
        ("param key in data", lambda d: key in d.data, lambda v: _container(v) and key in v),
        ("param key truthy", lambda d: d.data[key2], lambda v: bool(v[key2])),
        ("a == 1", lambda d: d.data['a'] == 1, lambda v: v['a'] == 1),
        ("a == '1'", lambda d: d.data['a'] == '1', lambda v: v['a'] == '1'),
        ("a == 0", lambda d: d.data['a'] == 0, lambda v: v['a'] == 0),
        ("a != 1", lambda d: d.data['a'] != 1, lambda v: v['a'] != 1),
        ("b == 'x'", lambda d: d.data['b'] == 'x', lambda v: v['b'] == 'x'),
        ("b == ''", lambda d: d.data['b'] == '', lambda v: v['b'] == ''),
        ("c == True", lambda d: d.data['c'] == True, lambda v: v['c'] == True),
        ("c == False", lambda d: d.data['c'] == False, lambda v: v['c'] == False),
        ("a > 1", lambda d: d.data['a'] > 1, lambda v: v['a'] > 1),
        ("e < 2", lambda d: d.data['e'] < 2, lambda v: v['e'] < 2),
        ("e == 1.5", lambda d: d.data['e'] == 1.5, lambda v: v['e'] == 1.5),
        ("nested.k == 'v'", lambda d: d.data['nested']['k'] == 'v', lambda v: v['nested']['k'] == 'v'),
        ("nested.deep.er[1].x == 'y'", lambda d: d.data['nested']['deep']['er'][1]['x'] == 'y', lambda v: v['nested']['deep']['er'][1]['x'] == 'y'),
        ("list[0] == 1", lambda d: d.data['list'][0] == 1, lambda v: v['list'][0] == 1),
        ("list[1] == 'q'", lambda d: d.data['list'][1] == 'q', lambda v: v['list'][1] == 'q'),
        ("[0] == 1", lambda d: d.data[0] == 1, lambda v: v[0] == 1),
        ("'a' in data", lambda d: 'a' in d.data, lambda v: _container(v) and 'a' in v),
        ("'k' in nested", lambda d: 'k' in d.data['nested'], lambda v: _container(v['nested']) and 'k' in v['nested']),
        ("'zz' not in data", lambda d: 'zz' not in d.data, lambda v: _container(v) and 'zz' not in v),
        ("len(list) == 3", lambda d: len(d.data['list']) == 3, lambda v: _list(v['list']) and len(v['list']) == 3),
        ("len(data) == 3", lambda d: len(d.data) == 3, lambda v: _list(v) and len(v) == 3),
        ("len(data) == 3 (any value)", lambda d: len(d.data) == 3, lambda v: len(v) == 3),
        ("truthy a", lambda d: d.data['a'], lambda v: bool(v['a'])),
        ("not a", lambda d: not d.data['a'], lambda v: not v['a']),
        ("truthy zero", lambda d: d.data['zero'], lambda v: bool(v['zero'])),
        ("truthy fzero", lambda d: d.data['fzero'], lambda v: bool(v['fzero'])),
        ("not fzero", lambda d: not d.data['fzero'], lambda v: not v['fzero']),
        ("truthy estr", lambda d: d.data['estr'], lambda v: bool(v['estr'])),
        ("truthy empty_list", lambda d: d.data['empty_list'], lambda v: bool(v['empty_list'])),
        ("truthy empty_dict", lambda d: d.data['empty_dict'], lambda v: bool(v['empty_dict'])),
        ("truthy nested", lambda d: d.data['nested'], lambda v: bool(v['nested'])),
        ("truthy false", lambda d: d.data['false'], lambda v: bool(v['false'])),
        ("truthy list", lambda d: d.data['list'], lambda v: bool(v['list'])),
        ("d is None", lambda d: d.data['d'] is None, lambda v: v['d'] is None),
        ("b is None", lambda d: d.data['b'] is None, lambda v: v['b'] is None),
        ("'we ird' == 5", lambda d: d.data['we ird'] == 5, lambda v: v['we ird'] == 5),
        ("'do.t' == 6", lambda d: d.data['do.t'] == 6, lambda v: v['do.t'] == 6),
        ("'qu\"ote' == 7", lambda d: d.data['qu"ote'] == 7, lambda v: v['qu"ote'] == 7),
        ("'ünï' == 8", lambda d: d.data['ünï'] == 8, lambda v: v['ünï'] == 8),
        ("'1' == 9", lambda d: d.data['1'] == 9, lambda v: v['1'] == 9),
        ("list[-1] == 3", lambda d: d.data['list'][-1] == 3, lambda v: v['list'][-1] == 3),
    ]


def _container(x):
    if not isinstance(x, (dict, list)): raise TypeError('not a container')
    return True


def _list(x):
    if not isinstance(x, list): raise TypeError('not a list')
    return True


def jprojs():
    return [
        ("a", lambda d: d.data['a'], lambda v: v['a']),
        ("list", lambda d: d.data['list'], lambda v: v['list']),
        ("nested", lambda d: d.data['nested'], lambda v: v['nested']),
        ("nested.k", lambda d: d.data['nested']['k'], lambda v: v['nested']['k']),
        ("list[1]", lambda d: d.data['list'][1], lambda v: v['list'][1]),
        ("e", lambda d: d.data['e'], lambda v: v['e']),
        ("c", lambda d: d.data['c'], lambda v: v['c']),
        ("len(list)", lambda d: len(d.data['list']), lambda v: _list(v['list']) and len(v['list'])),
        ("data", lambda d: d.data, lambda v: v),
    ]


def aconds(k):
    return [
        ("ia[0] == 1", lambda d: d.ia[0] == 1, lambda ia, sa, fa: ia[0] == 1),
        ("ia[-1] == 4", lambda d: d.ia[-1] == 4, lambda ia, sa, fa: ia[-1] == 4),
        ("ia[2] == -1", lambda d: d.ia[2] == -1, lambda ia, sa, fa: ia[2] == -1),
        ("ia[k] == 3", lambda d: d.ia[k] == 3, lambda ia, sa, fa: ia[k] == 3),
        ("3 in ia", lambda d: 3 in d.ia, lambda ia, sa, fa: 3 in ia),
        ("k in ia", lambda d: k in d.ia, lambda ia, sa, fa: k in ia),
        ("7 not in ia", lambda d: 7 not in d.ia, lambda ia, sa, fa: 7 not in ia),
        ("[1, 2] in ia", lambda d: [1, 2] in d.ia, lambda ia, sa, fa: set([1, 2]) <= set(ia)),
        ("[3, 9] not in ia", lambda d: [3, 9] not in d.ia, lambda ia, sa, fa: not set([3, 9]) <= set(ia)),
        ("[1, 1, 1, 1, 1] in ia (duplicates, longer than the array)", lambda d: [1, 1, 1, 1, 1] in d.ia, lambda ia, sa, fa: 1 in ia),
        ("[2, 1, 2, 1, 2, 1] not in ia", lambda d: [2, 1, 2, 1, 2, 1] not in d.ia, lambda ia, sa, fa: not set([1, 2]) <= set(ia)),
        ("len(ia) == 4", lambda d: len(d.ia) == 4, lambda ia, sa, fa: len(ia) == 4),
        ("len(ia) > k", lambda d: len(d.ia) > k, lambda ia, sa, fa: len(ia) > k),
        ("truthy ia", lambda d: d.ia, lambda ia, sa, fa: bool(ia)),
        ("not ia", lambda d: not d.ia, lambda ia, sa, fa: not ia),
        ("'a' in sa", lambda d: 'a' in d.sa, lambda ia, sa, fa: 'a' in sa),
        ("'a\"b' in sa", lambda d: 'a"b' in d.sa, lambda ia, sa, fa: 'a"b' in sa),
        ("'' in sa", lambda d: '' in d.sa, lambda ia, sa, fa: '' in sa),
        ("sa[0] == ''", lambda d: d.sa[0] == '', lambda ia, sa, fa: sa[0] == ''),
        ("sa[-1] == 'ü'", lambda d: d.sa[-1] == 'ü', lambda ia, sa, fa: sa[-1] == 'ü'),
        ("fa[0] == 1.5", lambda d: d.fa[0] == 1.5, lambda ia, sa, fa: fa[0] == 1.5),
        ("0.5 in fa", lambda d: 0.5 in d.fa, lambda ia, sa, fa: 0.5 in fa),
    ]


def aprojs(k):
    return [
        ("ia[1:3]", lambda d: d.ia[1:3], lambda ia, sa, fa: ia[1:3]),
        ("ia[:-1]", lambda d: d.ia[:-1], lambda ia, sa, fa: ia[:-1]),
        ("ia[-2:]", lambda d: d.ia[-2:], lambda ia, sa, fa: ia[-2:]),
        ("ia[-9:]", lambda d: d.ia[-9:], lambda ia, sa, fa: ia[-9:]),
        ("ia[:-9]", lambda d: d.ia[:-9], lambda ia, sa, fa: ia[:-9]),
        ("ia[1:]", lambda d: d.ia[1:], lambda ia, sa, fa: ia[1:]),
        ("ia[k:]", lambda d: d.ia[k:], lambda ia, sa, fa: ia[k:]),
        ("ia[:k]", lambda d: d.ia[:k], lambda ia, sa, fa: ia[:k]),
        ("ia[1:k]", lambda d: d.ia[1:k], lambda ia, sa, fa: ia[1:k]),
        ("ia[k:-1]", lambda d: d.ia[k:-1], lambda ia, sa, fa: ia[k:-1]),
        ("sa[:2]", lambda d: d.sa[:2], lambda ia, sa, fa: sa[:2]),
        ("ia[0]", lambda d: d.ia[0], lambda ia, sa, fa: ia[0]),
        ("ia[-1]", lambda d: d.ia[-1], lambda ia, sa, fa: ia[-1]),
        ("ia[k]", lambda d: d.ia[k], lambda ia, sa, fa: ia[k]),
        ("sa[k]", lambda d: d.sa[k], lambda ia, sa, fa: sa[k]),
        ("len(sa)", lambda d: len(d.sa), lambda ia, sa, fa: len(sa)),
        ("fa", lambda d: d.fa, lambda ia, sa, fa: fa),
    ]


_DBS = {}


def jmodel(mode):
    if mode not in _DBS:
        real = sq.SQLiteProvider.check_json1
        if mode == 'py': sq.SQLiteProvider.check_json1 = lambda provider, con: False
        try:
            db = orm.Database('sqlite', ':memory:')

            class Doc(db.Entity):
                data = orm.Optional(orm.Json)
                ia = orm.Optional(orm.IntArray)
                sa = orm.Optional(orm.StrArray)
                fa = orm.Optional(orm.FloatArray)
                kind = orm.Required(str)
            db.generate_mapping(create_tables=True)
            assert db.provider.json1_available == (mode == 'json1'), 'JSON1 availability differs from the requested mode'
            with orm.db_session:
                for d in DOCS: Doc(data=d, kind='doc')
                for ia, sa, fa in ARRS: Doc(data={}, ia=ia, sa=sa, fa=fa, kind='arr')
        finally:
            sq.SQLiteProvider.check_json1 = real
        _DBS[mode] = types.SimpleNamespace(db=db, Doc=Doc)
    return _DBS[mode]


DC = ('<not defined in Python>',)


def _py(f, *a):
    try: return f(*a)
    except (KeyError, IndexError, TypeError, AttributeError): return DC


def _dj_configs(tier):
    out = []
    for mode in ('json1', 'py'):
        out += [dict(mode=mode, kind='json_cond', op=c[0]) for c in jconds()] + [dict(mode=mode, kind='json_proj', op=c[0]) for c in jprojs()]
        out += [dict(mode=mode, kind='arr_cond', op=c[0]) for c in aconds(0)] + [dict(mode=mode, kind='arr_proj', op=c[0]) for c in aprojs(0)]
    return out


def _norm(v):
    if isinstance(v, (list, tuple)): return [_norm(x) for x in v]
    if isinstance(v, dict): return {k: _norm(x) for k, x in v.items()}
    if isinstance(v, bool) or v is None: return v
    if isinstance(v, float) and v == int(v) and abs(v) < 1e15: return float(v)
    return v


def _dj_case(cfg, values):
    def setup(run):
        core.local.db2cache.clear(); core.local.db_context_counter = 0; core.local.db_session = None

    def teardown(run):
        try: orm.rollback()
        except Exception: pass
        core.local.db2cache.clear(); core.local.db_context_counter = 0; core.local.db_session = None

    def call():
        st_ = cur().state
        M = jmodel(cfg['mode']); Doc = M.Doc
        diffs = []; compared = 0
        ks = PARAMS if '[k' in cfg['op'] or 'k]' in cfg['op'] or ' k' in cfg['op'] or 'k ' in cfg['op'] or ':k' in cfg['op'] else [0]
        with orm.db_session:
            rows = {d.id: d for d in Doc.select()}
            docs = {i: json.loads(json.dumps(d.data)) for i, d in rows.items() if d.kind == 'doc'}
            arrs = {i: (list(d.ia), list(d.sa), list(d.fa)) for i, d in rows.items() if d.kind == 'arr'}
            for k in ks:
                table = {'json_cond': jconds, 'json_proj': jprojs}.get(cfg['kind'])
                ops = table() if table else (aconds(k) if cfg['kind'] == 'arr_cond' else aprojs(k))
                name, q, py = [o for o in ops if o[0] == cfg['op']][0]
                subject = docs if cfg['kind'].startswith('json') else arrs
                try:
                    got = set(d.id for d in Doc.select(q)) if cfg['kind'].endswith('cond') else dict(orm.select((d.id, q(d)) for d in Doc)[:])
                except (core.DatabaseError, core.OperationalError) as e:
                    diffs.append((k, 'the statement failed', type(e).__name__, str(e)[:120])); compared += 1
                    continue
                if cfg['kind'].endswith('cond'):
                    for i, v in subject.items():
                        w = _py(py, v) if cfg['kind'] == 'json_cond' else _py(py, *v)
                        if w is DC: continue
                        compared += 1
                        if bool(w) != (i in got): diffs.append((k, i, v, 'selected' if i in got else 'not selected', 'python: %r' % (w,)))
                else:
                    for i, v in subject.items():
                        w = _py(py, v) if cfg['kind'] == 'json_proj' else _py(py, *v)
                        if w is DC: continue
                        compared += 1
                        g = got.get(i)
                        if _norm(g) != _norm(w) or (isinstance(w, bool) != isinstance(g, bool) and not isinstance(w, (list, dict))):
                            diffs.append((k, i, v, 'query: %r' % (g,), 'python: %r' % (w,)))
        st_['diffs'] = diffs; st_['compared'] = compared
        return [repr(d) for d in diffs]
    return Case(call, {}, [], setup, teardown)


def _dj_spec(cfg, i, path):
    if path.outcome != 'ret': return False
    return path.value == [] and path.state['compared'] > 0


# ------------------------------------------------------------------ the registered SQLite array functions are the Python operations
def _pf_configs(tier):
    return [dict(arr=a) for a in ([], [7], [1, 2, 3], ['a', '', 'c', 'd'])]


def _pf_case(cfg, values):
    def call():
        arr = cfg['arr']; text = json.dumps(arr); bad = []
        rng = [None] + list(range(-6, 7))
        for i in rng[1:]:
            try: want = arr[i]
            except IndexError: want = None
            if sq.py_array_index(text, i) != want: bad.append(('index', i))
        for a in rng:
            for b in rng:
                if json.loads(sq.py_array_slice(text, a, b)) != arr[a:b]: bad.append(('slice', a, b))
        if sq.py_array_length(text) != len(arr): bad.append('length')
        for x in (1, 'a', '', 9):
            if sq.py_array_contains(text, x) != (x in arr): bad.append(('contains', x))
        if sq.py_array_index(None, 0) is not None or sq.py_array_length(None) is not None: bad.append('null')
        # `items in array`: every listed item is in the array - duplicates in the list do not matter, nor does its length
        import itertools
        pool = list(dict.fromkeys(arr + [1, 'a', 9]))[:4]
        for n in range(0, 4):
            for items in itertools.product(pool, repeat=n):
                if bool(sq.py_array_subset(text, json.dumps(list(items)))) != all(x in arr for x in items): bad.append(('subset', items))
        if sq.py_array_subset(text, None) is not None: bad.append('subset of NULL')
        return bad
    return Case(call, {}, [])


CONTRACTS = [
    Contract('ArrayMixin.__getitem__', ['pony.orm.sqltranslation:ArrayMixin.__getitem__', 'pony.orm.sqltranslation:ArrayMixin._index'], _ai_configs, _ai_case,
             [('selected_element_or_window_equals_python', _ai_spec)]),
    Contract('json_path_round_trip', ['pony.orm.sqlbuilding:SQLBuilder.eval_json_path', 'pony.orm.dbproviders.sqlite:_parse_path'], _jp_configs, _jp_case,
             [('path_text_parses_back_to_the_keys', _jp_spec)], level='bounded', bound='15 key shapes, paths of length 1 and 2'),
    Contract('py_array_functions', ['pony.orm.dbproviders.sqlite:py_array_index', 'pony.orm.dbproviders.sqlite:py_array_slice', 'pony.orm.dbproviders.sqlite:py_array_length',
                                    'pony.orm.dbproviders.sqlite:py_array_contains', 'pony.orm.dbproviders.sqlite:py_array_subset'], _pf_configs, _pf_case,
             [('equal_to_the_python_operation_null_when_python_raises', lambda cfg, i, path: path.outcome == 'ret' and path.value == [])], level='bounded',
             bound='4 arrays, indexes and slice bounds in -6..6 and None'),
    Contract('query_vs_python', ['pony.orm.sqltranslation:JsonMixin.contains', 'pony.orm.sqltranslation:JsonMixin.len', 'pony.orm.sqltranslation:JsonMixin.nonzero',
                                 'pony.orm.sqltranslation:ArrayMixin.contains', 'pony.orm.sqltranslation:ArrayMixin.__getitem__',
                                 'pony.orm.dbproviders.sqlite:SQLiteBuilder.JSON_QUERY', 'pony.orm.dbproviders.sqlite:SQLiteBuilder.JSON_VALUE',
                                 'pony.orm.dbproviders.sqlite:SQLiteBuilder.JSON_NONZERO', 'pony.orm.dbproviders.sqlite:SQLiteBuilder.JSON_CONTAINS',
                                 'pony.orm.dbproviders.sqlite:py_json_extract', 'pony.orm.dbproviders.sqlite:py_json_contains', 'pony.orm.dbproviders.sqlite:py_json_array_length',
                                 'pony.orm.dbproviders.sqlite:_traverse', 'pony.orm.dbproviders.sqlite:py_array_index', 'pony.orm.dbproviders.sqlite:py_array_slice',
                                 'pony.orm.dbproviders.sqlite:py_array_contains', 'pony.orm.dbproviders.sqlite:py_array_subset'],
             _dj_configs, _dj_case, [('same_result_as_the_python_expression_on_the_decoded_value', _dj_spec)], level='bounded',
             bound='12 JSON documents, 4 array triples, 47 JSON conditions, 9 JSON projections, 20 array conditions, 17 array projections, 8 parameter values; SQLite with JSON1 and with the Python fallback'),
]
