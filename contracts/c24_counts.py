"""C24 (bounded part): count() / exists() / len() of a query agree with the list of its rows, for entities with composite keys, tuple results and explicit distinct().

For every query of an enumerated family and each of q, q.distinct(), q.without_distinct(): q.count() == len(q[:]), q.exists() == bool(q[:]), len(q) == len(q[:]), and
q.first() is the first row of the list when the query is ordered. The key values overlap on purpose (several rooms share a building, several bookings a room), so counting a
single column instead of the row gives another number. Results of a single NULLABLE expression are left out of count() (count() skips NULLs there: an older known finding)."""
import types
from vf.verify import Case
from pony import orm
from pony.orm import core

BOUND = 'one model (composite-key Room, Booking, Guest); 24 queries (entities, attribute paths, tuples of 2-3 expressions, joins, filters, ordering) x plain / distinct() / without_distinct()'
_M = None


def model():
    global _M
    if _M is None:
        db = orm.Database('sqlite', ':memory:')

        class Room(db.Entity):
            building = orm.Required(str); number = orm.Required(int); orm.PrimaryKey(building, number)
            cap = orm.Required(int)
            bookings = orm.Set('Booking')

        class Guest(db.Entity):
            id = orm.PrimaryKey(int)
            name = orm.Required(str)
            bookings = orm.Set('Booking')

        class Booking(db.Entity):
            id = orm.PrimaryKey(int)
            room = orm.Required(Room)
            guest = orm.Optional(Guest)
            hours = orm.Required(int)
        db.generate_mapping(create_tables=True)
        with orm.db_session:
            r = {}
            for b, n, c in (('A', 1, 10), ('A', 2, 20), ('B', 1, 10), ('B', 2, 10), ('C', 1, 5)): r[b, n] = Room(building=b, number=n, cap=c)
            g = {i: Guest(id=i, name=nm) for i, nm in ((1, 'ann'), (2, 'bob'), (3, 'ann'))}
            for i, (k, gi, h) in enumerate(((('A', 1), 1, 1), (('A', 1), 2, 2), (('A', 2), 1, 1), (('B', 1), None, 1), (('A', 1), 1, 1), (('B', 2), 3, 2))): Booking(id=i, room=r[k], guest=g.get(gi), hours=h)
        _M = types.SimpleNamespace(db=db, Room=Room, Guest=Guest, Booking=Booking)
    return _M


def queries(M):
    R, G, B = M.Room, M.Guest, M.Booking
    return {
        'rooms': lambda: orm.select(r for r in R), 'rooms filtered': lambda: orm.select(r for r in R if r.cap == 10), 'rooms ordered': lambda: orm.select(r for r in R).order_by(lambda r: (r.building, r.number)),
        'rooms of bookings': lambda: orm.select(b.room for b in B), 'rooms that have bookings (join)': lambda: orm.select(r for r in R for b in r.bookings), 'rooms chained': lambda: R.select().filter(lambda r: r.cap > 5).where(lambda r: r.number == 1),
        'nothing': lambda: orm.select(r for r in R if r.cap > 100), 'guests': lambda: orm.select(g for g in G), 'guests of bookings': lambda: orm.select(b.guest for b in B if b.guest is not None),
        'tuple room, hours': lambda: orm.select((b.room, b.hours) for b in B), 'tuple building, number (join)': lambda: orm.select((r.building, r.number) for r in R for b in r.bookings),
        'tuple hours, capacity': lambda: orm.select((b.hours, b.room.cap) for b in B), 'tuple hours, id': lambda: orm.select((b.hours, b.id) for b in B), 'tuple of three': lambda: orm.select((b.hours, b.room.building, b.room.cap) for b in B),
        'tuple name, hours': lambda: orm.select((b.guest.name, b.hours) for b in B if b.guest is not None), 'tuple with an entity last': lambda: orm.select((b.hours, b.room) for b in B),
        'tuple of two rooms columns': lambda: orm.select((r.building, r.cap) for r in R), 'tuple same column twice': lambda: orm.select((b.hours, b.hours) for b in B), 'tuple of two ids': lambda: orm.select((b.id, g.id) for b in B for g in G if b.guest == g),
        'hours': lambda: orm.select(b.hours for b in B), 'building': lambda: orm.select(r.building for r in R), 'capacity of rooms of bookings': lambda: orm.select(b.room.cap for b in B),
        'names ordered': lambda: orm.select(g.name for g in G).order_by(1), 'tuple ordered': lambda: orm.select((r.cap, r.building) for r in R).order_by(1, 2),
    }


VARIANTS = ('plain', 'distinct()', 'without_distinct()')


def configs(tier):
    return [dict(query=q, variant=v) for q in queries(model()) for v in VARIANTS]


def _reset():
    try: orm.rollback()
    except Exception: pass
    core.local.db2cache.clear(); core.local.db_context_counter = 0; core.local.db_session = None


def case(cfg, values):
    def call():
        M = model(); mk = queries(M)[cfg['query']]; bad = []
        def q():
            x = mk()
            return x.distinct() if cfg['variant'] == 'distinct()' else x.without_distinct() if cfg['variant'] == 'without_distinct()' else x
        with orm.db_session:
            rows = list(q()[:])
            for name, f, want in (('count()', lambda: q().count(), len(rows)), ('exists()', lambda: q().exists(), bool(rows)), ('len(q)', lambda: len(q()), len(rows))):
                try: got = f()
                except (core.TranslationError, NotImplementedError, TypeError) as e: continue            # refused: allowed
                except AssertionError as e: bad.append((name, 'fails with a bare AssertionError')); continue
                if got != want: bad.append((name, 'answers %r' % (got,), 'the query returns %d rows' % len(rows), M.db.last_sql.replace('\\n', ' ')[:140]))
            if 'ordered' in cfg['query'] and rows:
                first = q().first()
                if first != rows[0]: bad.append(('first()', repr(first), 'the first row of the list is %r' % (rows[0],)))
        return bad[:4]
    return Case(call, {}, [], lambda r: _reset(), lambda r: _reset())


def spec(cfg, i, path):
    return path.outcome == 'ret' and path.value == []
