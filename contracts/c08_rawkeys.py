"""C08 (bounded part): a RAW key value given for a relationship attribute is validated like the key attribute it stands for - however long the chain of keys is.

Passport's primary key is a reference to Person (Person.id = PrimaryKey(int, min=1, max=999)); Stamp's key is a reference to Passport; Desk has a composite key one part of
which is a reference to Person. A relationship attribute that points at any of them accepts a raw key value (an int, or a tuple for the composite key) instead of an object:
through the constructor, assignment, set(), get(), select() and exists(). A value outside the declared range or of a wrong type must be refused with ValueError / TypeError
(as it is when given to Person directly), a valid one denotes the object with that key."""
import types
from vf.verify import Case
from pony import orm
from pony.orm import core

BOUND = 'key chains of length 1..3 and a composite key with a reference part; 9 raw values (in range, at and beyond both bounds, float, numeric string, text, bool, None) x 7 ways of giving the value'
_M = None


def model():
    global _M
    if _M is None:
        db = orm.Database('sqlite', ':memory:')

        class Person(db.Entity):
            id = orm.PrimaryKey(int, min=1, max=999)
            passport = orm.Optional('Passport')
            desks = orm.Set('Desk')
            notes = orm.Set('Note', reverse='person')

        class Passport(db.Entity):
            person = orm.PrimaryKey(Person)
            stamp = orm.Optional('Stamp')
            notes = orm.Set('Note', reverse='passport')

        class Stamp(db.Entity):
            passport = orm.PrimaryKey(Passport)
            notes = orm.Set('Note', reverse='stamp')

        class Desk(db.Entity):
            room = orm.Required(int, min=0, max=9)
            owner = orm.Required(Person)
            orm.PrimaryKey(room, owner)
            notes = orm.Set('Note', reverse='desk')

        class Note(db.Entity):
            id = orm.PrimaryKey(int)
            person = orm.Optional(Person, reverse='notes')
            passport = orm.Optional(Passport, reverse='notes')
            stamp = orm.Optional(Stamp, reverse='notes')
            desk = orm.Optional(Desk, reverse='notes')
        db.generate_mapping(create_tables=True)
        with orm.db_session:
            for i in (1, 5, 999):
                p = Person(id=i); pp = Passport(person=p); Stamp(passport=pp); Desk(room=3, owner=p)
            Note(id=1)
        _M = types.SimpleNamespace(db=db, Person=Person, Passport=Passport, Stamp=Stamp, Desk=Desk, Note=Note)
    return _M


RAW = {'in range': 5, 'lower bound': 1, 'upper bound': 999, 'below the range': 0, 'negative': -5, 'above the range': 1000, 'float': 7.5, 'text': 'abc', 'None part': None}
ATTRS = ('person', 'passport', 'stamp', 'desk')
WAYS = ('constructor', 'assignment', 'set()', 'get()', 'select()', 'exists()', 'the target entity itself')


def configs(tier):
    return [dict(attr=a, raw=r, way=w) for a in ATTRS for r in RAW for w in WAYS if not (r == 'None part' and a != 'desk')]


def _reset():
    try: orm.rollback()
    except Exception: pass
    core.local.db2cache.clear(); core.local.db_context_counter = 0; core.local.db_session = None


def case(cfg, values):
    def call():
        M = model(); v = RAW[cfg['raw']]; a = cfg['attr']
        raw = (3, v) if a == 'desk' else v                      # the composite key: (room, owner)
        valid = isinstance(v, int) and not isinstance(v, bool) and 1 <= v <= 999
        target = dict(person=M.Person, passport=M.Passport, stamp=M.Stamp, desk=M.Desk)[a]
        try:
            with orm.db_session:
                w = cfg['way']
                if w == 'constructor': got = getattr(M.Note(id=2, **{a: raw}), a)
                elif w == 'assignment':
                    n = M.Note[1]; setattr(n, a, raw); got = getattr(n, a)
                elif w == 'set()':
                    n = M.Note[1]; n.set(**{a: raw}); got = getattr(n, a)
                elif w == 'get()': M.Note.get(**{a: raw}); got = 'accepted'
                elif w == 'select()': list(M.Note.select(**{a: raw})); got = 'accepted'
                elif w == 'exists()': M.Note.exists(**{a: raw}); got = 'accepted'
                else: got = target[raw]
                if got != 'accepted':
                    key = got.get_pk()
                    chain = key if a != 'desk' else key[1]
                    while isinstance(chain, core.Entity): chain = chain.get_pk()
                    got = ('object with key', chain)
                orm.rollback()
        except (ValueError, TypeError) as e: got = 'refused'
        except core.ObjectNotFound: got = 'not found'
        finally: _reset()
        if valid:
            ok = got == 'accepted' or got == ('object with key', v)
        else:
            ok = got == 'refused'
        return [] if ok else [('%s given as %r through %s' % (a, raw, cfg['way']), 'outcome: %r' % (got,), 'the key attribute Person.id is declared PrimaryKey(int, min=1, max=999)')]
    return Case(call, {}, [], lambda r: _reset(), lambda r: _reset())


def spec(cfg, i, path):
    return path.outcome == 'ret' and path.value == []
