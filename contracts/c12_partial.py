"""C12 (bounded part): both ends of one-to-one and many-to-one relationships agree when the objects involved are only PARTLY loaded.

Objects of a real session can be known by key only (reached through a reference of another object), loaded, or not known at all when a relationship is assigned. Histories of
<= 2 (thorough: 3) assignments / collection operations on a model with a one-to-one (Male.wife - Female.husband, column on the Female side) and a many-to-one (Car.owner -
Male.cars) run under 6 load states; afterwards
  (a) every pair of ends is read in the session (in two reading orders) and must agree with each other and with a reference model of the links (a dict),
  (b) the session is flushed and the raw rows must say the same."""
import itertools, types
from vf.verify import Case
from pony import orm
from pony.orm import core

BOUND = '3 males x 3 females x 4 cars; histories of <= 2 (thorough: 3) operations out of 40; 6 load states (nothing, everything, only males, only females, only cars, operands known by key only); 2 reading orders'
_M = None


def model():
    global _M
    if _M is not None: return _M
    db = orm.Database('sqlite', ':memory:')

    class Male(db.Entity):
        id = orm.PrimaryKey(int)
        name = orm.Required(str)
        wife = orm.Optional('Female')
        cars = orm.Set('Car')
        refs = orm.Set('Ref')

    class Female(db.Entity):
        id = orm.PrimaryKey(int)
        name = orm.Required(str)
        husband = orm.Optional(Male)                     # the column is on this side
        refs = orm.Set('Ref')

    class Car(db.Entity):
        id = orm.PrimaryKey(int)
        owner = orm.Optional(Male)
        refs = orm.Set('Ref')

    class Ref(db.Entity):                                 # rows that only point at the others: reading ref.male yields a Male known by key only
        id = orm.PrimaryKey(int)
        male = orm.Optional(Male); female = orm.Optional(Female); car = orm.Optional(Car)
    db.generate_mapping(create_tables=True)
    with orm.db_session:
        m = {i: Male(id=i, name='m%d' % i) for i in (1, 2, 3)}
        f = {i: Female(id=i, name='f%d' % i) for i in (1, 2, 3)}
        m[1].wife = f[1]; m[2].wife = f[2]
        c = {1: Car(id=1, owner=m[1]), 2: Car(id=2, owner=m[1]), 3: Car(id=3, owner=m[2]), 4: Car(id=4)}
        for i in (1, 2, 3): Ref(id=i, male=m[i]); Ref(id=10 + i, female=f[i])
        for i in (1, 2, 3, 4): Ref(id=20 + i, car=c[i])
    _M = types.SimpleNamespace(db=db, Male=Male, Female=Female, Car=Car, Ref=Ref)
    return _M


OPS = ([('wife', i, j) for i in (1, 2, 3) for j in (1, 2, 3, None)] + [('husband', j, i) for j in (1, 2, 3) for i in (1, 2, 3, None)]
       + [('owner', k, i) for k in (1, 3, 4) for i in (1, 3, None)] + [('cars.add', i, k) for i in (1, 3) for k in (1, 3, 4)] + [('cars.remove', 1, 1), ('cars.remove', 2, 3)])
LOADS = ('nothing', 'everything', 'males', 'females', 'cars', 'by key only')
INIT = dict(wife={1: 1, 2: 2, 3: None}, owner={1: 1, 2: 1, 3: 2, 4: None})


def configs(tier):
    return [dict(load=l, first=repr(op), tier=tier) for l in LOADS for op in OPS]


def histories(tier, first):
    out = [(first,)] + [(first, b) for b in OPS]
    if tier == 'thorough': out += [(first, b, c) for b in OPS for c in OPS if c[0] in ('wife', 'husband') and b[0] in ('wife', 'husband', 'owner')]
    return out


def apply_ref(state, op):
    kind, x, y = op
    wife, owner = state['wife'], state['owner']
    if kind == 'wife':
        if y is not None:
            for m, f in wife.items():
                if f == y and m != x: wife[m] = None
        wife[x] = y
    elif kind == 'husband':
        for m, f in wife.items():
            if f == x: wife[m] = None
        if y is not None: wife[y] = x
    elif kind == 'owner': owner[x] = y
    elif kind == 'cars.add': owner[y] = x
    elif kind == 'cars.remove':
        if owner[y] == x: owner[y] = None


def _reset():
    try: orm.rollback()
    except Exception: pass
    core.local.db2cache.clear(); core.local.db_context_counter = 0; core.local.db_session = None


def run(M, load, history, order):
    """-> list of disagreements"""
    state = dict(wife=dict(INIT['wife']), owner=dict(INIT['owner']))
    bad = []
    with orm.db_session:
        try:
            list(M.Ref.select())          # the pointing rows are in the session: reaching an operand through them needs no query, so nothing is flushed between the operations
            if load in ('everything', 'males'): list(M.Male.select())
            if load in ('everything', 'females'): list(M.Female.select())
            if load in ('everything', 'cars'): list(M.Car.select())
            def male(i): return None if i is None else (M.Ref[i].male if load == 'by key only' else M.Male[i] if load in ('everything', 'males') else M.Ref[i].male)
            def female(i): return None if i is None else (M.Ref[10 + i].female if load == 'by key only' else M.Female[i] if load in ('everything', 'females') else M.Ref[10 + i].female)
            def car(i): return None if i is None else (M.Ref[20 + i].car if load == 'by key only' else M.Car[i] if load in ('everything', 'cars') else M.Ref[20 + i].car)
            for op in history:
                kind, x, y = op
                if kind == 'wife': male(x).wife = female(y)
                elif kind == 'husband': female(x).husband = male(y)
                elif kind == 'owner': car(x).owner = male(y)
                elif kind == 'cars.add': male(x).cars.add(car(y))
                elif kind == 'cars.remove':
                    if state['owner'][y] != x: continue                    # removing a car that is not there is a no-op either way; keep histories meaningful
                    male(x).cars.remove(car(y))
                apply_ref(state, op)
            # (a) both ends, read in the session
            males = {i: M.Male[i] for i in (1, 2, 3)}; females = {i: M.Female[i] for i in (1, 2, 3)}; cars = {k: M.Car[k] for k in (1, 2, 3, 4)}
            if order == 'wives first':
                got_wife = {i: getattr(males[i].wife, 'id', None) for i in males}; got_husband = {j: getattr(females[j].husband, 'id', None) for j in females}
            else:
                got_husband = {j: getattr(females[j].husband, 'id', None) for j in reversed(list(females))}; got_wife = {i: getattr(males[i].wife, 'id', None) for i in reversed(list(males))}
            want_husband = {j: next((m for m, f in state['wife'].items() if f == j), None) for j in females}
            if got_wife != state['wife']: bad.append(('in the session: wives %r' % got_wife, 'links made: %r' % state['wife']))
            if got_husband != want_husband: bad.append(('in the session: husbands %r' % got_husband, 'links made: %r' % want_husband))
            got_owner = {k: getattr(cars[k].owner, 'id', None) for k in cars}
            got_cars = {i: sorted(c.id for c in males[i].cars) for i in males}
            want_cars = {i: sorted(k for k, o in state['owner'].items() if o == i) for i in males}
            if got_owner != state['owner']: bad.append(('in the session: owners %r' % got_owner, 'links made: %r' % state['owner']))
            if got_cars != want_cars: bad.append(('in the session: cars %r' % got_cars, 'links made: %r' % want_cars))
            # (b) what is written
            orm.flush()
            rows_husband = dict(M.db.select('select id, husband from Female')); rows_owner = dict(M.db.select('select id, owner from Car'))
            if rows_husband != want_husband: bad.append(('rows: husbands %r' % rows_husband, 'links made: %r' % want_husband))
            if rows_owner != state['owner']: bad.append(('rows: owners %r' % rows_owner, 'links made: %r' % state['owner']))
        except Exception as e:
            bad.append(('raises %s: %s' % (type(e).__name__, str(e)[:100]),))
        finally:
            orm.rollback()
    _reset()
    return bad


def _work(cfg):
    M = model(); out = []; n = 0
    first = next(op for op in OPS if repr(op) == cfg['first'])
    for h in histories(cfg['tier'], first):
        for order in ('wives first', 'husbands first'):
            n += 1
            bad = run(M, cfg['load'], h, order)
            if bad:
                out.append((' ; '.join('%s(%s, %s)' % op for op in h), order) + tuple(bad[:2]))
                if len(out) >= 3: return out
    return out if n else ['nothing run']


def case(cfg, values):
    from vf import par
    def call():
        key = {k: v for k, v in cfg.items() if not k.startswith('_')}
        return par.precomputed(('c12_partial', cfg['tier']), configs(cfg['tier']), _work, key)
    return Case(call, {}, [], lambda r: _reset(), lambda r: _reset())


def spec(cfg, i, path):
    return path.outcome == 'ret' and path.value == []


# ------------------------------------------------------------------ one-to-one re-assignment chains: both already have partners; with and without cascade_delete
_O2O = {}
O2O_BOUND = 'one-to-one Person.passport / Passport.person x cascade_delete on the Person side or not x the other side optional x 12 (re)assignments from either side x everything loaded or only the operands'


def o2o_model(cascade):
    if cascade in _O2O: return _O2O[cascade]
    db = orm.Database('sqlite', ':memory:')

    class Person(db.Entity):
        id = orm.PrimaryKey(int)
        passport = orm.Optional('Passport', cascade_delete=cascade)

    class Passport(db.Entity):
        id = orm.PrimaryKey(int)
        person = orm.Optional(Person)
    db.generate_mapping(create_tables=True)
    _O2O[cascade] = types.SimpleNamespace(db=db, Person=Person, Passport=Passport)
    return _O2O[cascade]


O2O_OPS = [('person.passport', 1, 2), ('person.passport', 1, 3), ('person.passport', 3, 1), ('person.passport', 3, 3), ('person.passport', 1, None), ('person.passport', 1, 1),
           ('passport.person', 2, 1), ('passport.person', 3, 1), ('passport.person', 1, 3), ('passport.person', 1, None), ('passport.person', 3, 3), ('passport.person', 1, 2)]


def o2o_configs(tier):
    return [dict(cascade=c, op=repr(op), preload=pl, then=t, via=v) for c in (False, True) for op in O2O_OPS for pl in (True, False) for t in (None,) + tuple(repr(o) for o in O2O_OPS[:4])
            for v in ('assignment', 'set()')]          # obj.attr = x and the bulk form obj.set(attr=x) take different paths to the value that is replaced


def _o2o_work(cfg):
    M = o2o_model(cfg['cascade'])
    _reset()
    with orm.db_session:
        M.db.execute('delete from Passport'); M.db.execute('delete from Person')
        M.db.execute('insert into Person(id) values (1), (2), (3)')
        M.db.execute('insert into Passport(id, person) values (1, 1), (2, 2), (3, null)')           # persons 1, 2 have passports 1, 2; person 3 and passport 3 are free
    link = {1: 1, 2: 2, 3: None}; passports = {1, 2, 3}                                           # person -> passport
    ops = [next(o for o in O2O_OPS if repr(o) == cfg['op'])] + ([next(o for o in O2O_OPS if repr(o) == cfg['then'])] if cfg['then'] else [])
    bad = []
    try:
        with orm.db_session:
            if cfg['preload']:
                list(M.Person.select()); list(M.Passport.select())
                for p in M.Person.select(): p.passport
            for kind, a, b in ops:
                if kind == 'person.passport':
                    if b is not None and b not in passports: continue                              # the passport was deleted by a cascade: the step is meaningless
                    if cfg['via'] == 'set()': M.Person[a].set(passport=None if b is None else M.Passport[b])
                    else: M.Person[a].passport = None if b is None else M.Passport[b]
                    old = link[a]
                    if old != b:
                        if b is not None:
                            for q in link:
                                if link[q] == b: link[q] = None                                        # the passport leaves its former holder
                        link[a] = b
                        if old is not None and cfg['cascade']: passports.discard(old)               # the passport that was replaced is deleted with cascade_delete (when assigned from this side)
                else:
                    if a not in passports: continue
                    if cfg['via'] == 'set()': M.Passport[a].set(person=None if b is None else M.Person[b])
                    else: M.Passport[a].person = None if b is None else M.Person[b]
                    for q in link:
                        if link[q] == a: link[q] = None
                    if b is not None:
                        old = link[b]
                        link[b] = a
            # (whether a replaced passport is deleted or only unlinked depends on the side the assignment was made from; C12 asks only that the two ends agree)
            existing = sorted(k.id for k in M.Passport.select())
            inverse = {k: next((q for q in link if link[q] == k), None) for k in existing}
            got_link = {q: getattr(M.Person[q].passport, 'id', None) for q in link}
            got_back = {k: getattr(M.Passport[k].person, 'id', None) for k in existing}
            if got_link != link: bad.append(('in the session: passports of persons %r' % got_link, 'links made: %r' % link))
            if got_back != inverse: bad.append(('in the session: persons of passports %r' % got_back, 'links made: %r' % inverse))
            if any(v is not None and v not in existing for v in link.values()): bad.append(('a linked passport no longer exists', link, existing))
        rows = dict(M.db.provider.pool.con.execute('select id, person from Passport').fetchall())
        if rows != inverse: bad.append(('committed rows (passport -> person): %r' % rows, 'links made: %r' % inverse))
    except Exception as e:
        bad.append(('raises %s: %s' % (type(e).__name__, str(e)[:100]),))
    finally:
        _reset()
    return bad


def o2o_case(cfg, values):
    from vf import par
    def call():
        key = {k: v for k, v in cfg.items() if not k.startswith('_')}
        return par.precomputed('c12_o2o', o2o_configs('quick'), _o2o_work, key)
    return Case(call, {}, [], lambda r: _reset(), lambda r: _reset())
