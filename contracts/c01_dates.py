"""C01 (bounded part): date and datetime operations in queries against Python evaluation of the SAME expression, on real in-memory SQLite.

Every expression below is given as source text; it goes to pony as the element of a generator `((e.id, <text>) for e in E)` or as a row condition `E.select(lambda e: <text>)`
and the same text is evaluated by CPython on every loaded object (an operation on a missing value is None in a projection and does not select the row in a condition).
The values are exact: a datetime, date or timedelta that differs in any field is a different answer. Data: whole-second, millisecond and microsecond datetimes, month ends,
a leap day, missing values."""
import types
from datetime import date, datetime, timedelta
from vf.verify import Case
from pony import orm
from pony.orm import core

BOUND = 'one entity with date / datetime attributes (two of them nullable), 6 rows (whole-second, millisecond and microsecond values, month ends, leap day, missing values); ~120 expressions: parts, date(), comparisons, +/- timedelta (constant and parameter), differences'
_M = None


def model():
    global _M
    if _M is None:
        db = orm.Database('sqlite', ':memory:')

        class E(db.Entity):
            id = orm.PrimaryKey(int)
            d = orm.Required(date)
            dt = orm.Required(datetime)
            d2 = orm.Optional(date)
            dt2 = orm.Optional(datetime)
        db.generate_mapping(create_tables=True)
        with orm.db_session:
            E(id=1, d=date(2020, 1, 2), dt=datetime(2020, 1, 2, 3, 4, 5), d2=date(2020, 3, 1), dt2=datetime(2020, 1, 2, 4, 4, 5))
            E(id=2, d=date(2020, 1, 31), dt=datetime(2020, 1, 31, 23, 59, 59))
            E(id=3, d=date(2020, 2, 29), dt=datetime(2020, 2, 29, 12, 0, 0, 250000), d2=date(2019, 2, 28), dt2=datetime(2020, 2, 29, 12, 0, 0, 750000))
            E(id=4, d=date(1999, 12, 31), dt=datetime(1999, 12, 31, 0, 0, 0, 5), d2=date(2000, 1, 1), dt2=datetime(2000, 1, 1))
            E(id=5, d=date(2021, 6, 15), dt=datetime(2021, 6, 15, 10, 20, 30), d2=date(2021, 6, 15), dt2=datetime(2021, 6, 14, 10, 20, 30))
            E(id=6, d=date(2020, 1, 2), dt=datetime(2020, 1, 2, 0, 0, 0), d2=date(2020, 1, 1), dt2=datetime(2020, 1, 1, 23, 0, 0))
        _M = types.SimpleNamespace(db=db, E=E)
    return _M


ENV = dict(date=date, datetime=datetime, timedelta=timedelta,
           td_h=timedelta(hours=1), td_25h=timedelta(hours=25), td_neg=timedelta(minutes=-90), td_d=timedelta(days=30), td_ms=timedelta(milliseconds=250), td_us=timedelta(microseconds=5),
           td_mix=timedelta(days=2, hours=5), td_nms=timedelta(milliseconds=-750), p_dt=datetime(2020, 1, 2, 4, 4, 5), p_d=date(2020, 2, 1), p_dt_ms=datetime(2020, 2, 29, 12, 0, 0, 250000))

PROJ = [
    'e.d.year', 'e.d.month', 'e.d.day', 'e.dt.year', 'e.dt.month', 'e.dt.day', 'e.dt.hour', 'e.dt.minute', 'e.dt.second', 'e.dt.date()', 'e.d2.year', 'e.dt2.hour', 'e.dt2.date()', 'e.d', 'e.dt', 'e.dt2',
    'e.dt + timedelta(hours=1)', 'e.dt - timedelta(hours=1)', 'e.dt + timedelta(hours=25)', 'e.dt + timedelta(minutes=-90)', 'e.dt - timedelta(days=500)', 'e.dt + timedelta(seconds=1)',
    'e.dt + timedelta(milliseconds=250)', 'e.dt + timedelta(microseconds=5)', 'e.dt + timedelta(0)', 'e.dt2 + timedelta(hours=1)',
    'e.dt + timedelta(milliseconds=-500)', 'e.dt - timedelta(milliseconds=500)', 'e.dt + timedelta(seconds=-1.5)', 'e.dt - timedelta(seconds=-0.25)', 'e.dt + timedelta(days=-1, milliseconds=1)', 'e.dt + td_nms',
    'e.dt + td_h', 'e.dt - td_h', 'e.dt + td_25h', 'e.dt + td_neg', 'e.dt + td_d', 'e.dt + td_ms', 'e.dt + td_us', 'e.dt2 - td_h',
    'e.d + timedelta(days=30)', 'e.d - timedelta(days=1)', 'e.d + timedelta(days=366)', 'e.d + timedelta(days=2, hours=5)', 'e.d - timedelta(days=2, hours=5)', 'e.d2 + timedelta(days=1)',
    'e.d + td_d', 'e.d - td_d', 'e.d + td_mix', 'e.d - td_mix', 'e.d2 + td_d',
    'e.dt2 - e.dt', 'e.dt - e.dt2', 'e.d2 - e.d', 'e.d - e.d2', 'p_dt - e.dt', 'e.dt - p_dt', 'p_d - e.d', 'e.d - p_d', 'e.dt - e.dt',
    '(e.dt + timedelta(hours=1)).hour', '(e.dt + timedelta(hours=1)).date()', '(e.d + timedelta(days=30)).month', '(e.dt + td_25h).day',
]
COND = [
    'e.d.year == 2020', 'e.d.month == 2', 'e.d.day > 28', 'e.dt.hour == 0', 'e.dt.minute == 59', 'e.dt.second == 5', 'e.dt.second == 0', 'e.dt.year < 2020', 'e.d2.year == 2020', 'e.dt2.second == 0',
    'e.dt.date() == e.d', 'e.dt.date() == date(2020, 1, 2)', 'e.dt2.date() == e.d', 'e.dt.date() < e.d2', 'e.dt.date() == p_d',
    'e.dt == datetime(2020, 1, 2, 3, 4, 5)', 'e.dt == datetime(2020, 2, 29, 12, 0, 0, 250000)', 'e.dt == p_dt_ms', 'e.dt < datetime(2020, 1, 2, 3, 4, 5)', 'e.dt <= datetime(2020, 1, 2, 3, 4, 5)',
    'e.dt > datetime(1999, 12, 31)', 'e.dt >= datetime(1999, 12, 31, 0, 0, 0, 5)', 'e.dt2 > e.dt', 'e.dt2 == e.dt', 'e.dt2 <= e.dt', 'e.d == date(2020, 1, 2)', 'e.d < date(2020, 2, 29)', 'e.d2 >= e.d', 'e.d == e.d2',
    'e.d == p_d', 'e.dt == p_dt', 'e.dt2 == p_dt', 'e.dt in (datetime(2020, 1, 2, 3, 4, 5), p_dt_ms)', 'e.d in (date(2020, 1, 2), p_d)',
    'e.dt + timedelta(hours=1) == datetime(2020, 1, 2, 4, 4, 5)', 'e.dt + timedelta(hours=1) == p_dt', 'e.dt + timedelta(hours=1) == e.dt2', 'e.dt + td_h == e.dt2', 'e.dt + td_h == p_dt',
    'e.dt + timedelta(hours=1) <= e.dt2', 'e.dt + timedelta(hours=1) < e.dt2', 'e.dt + timedelta(hours=1) >= e.dt2', 'e.dt + td_h <= e.dt2', 'e.dt + td_h >= e.dt2', 'e.dt2 - timedelta(hours=1) == e.dt', 'e.dt2 - td_h == e.dt',
    'e.dt + timedelta(hours=1) > datetime(2020, 1, 2, 4, 4, 5)', 'e.dt + timedelta(hours=1) >= datetime(2020, 1, 2, 4, 4, 5)', 'e.dt + timedelta(hours=1) <= datetime(2020, 1, 2, 4, 4, 5)',
    'e.dt - timedelta(days=1) < e.dt2', 'e.dt + timedelta(days=1) == e.dt2', 'e.dt2 + timedelta(days=1) == e.dt', 'e.dt2 + td_25h > e.dt', 'e.dt + timedelta(milliseconds=500) == e.dt2',
    'e.dt + timedelta(hours=23) == e.dt2', 'e.dt - timedelta(hours=1) == e.dt2', 'e.dt - td_h == e.dt2',
    'e.d + timedelta(days=30) == date(2020, 2, 1)', 'e.d + timedelta(days=30) == p_d', 'e.d + td_d == p_d', 'e.d + td_d == date(2020, 2, 1)', 'e.d + timedelta(days=1) == e.d2', 'e.d - timedelta(days=1) == e.d2',
    'e.d - td_d < e.d2', 'e.d + td_d >= e.d2', 'e.d + timedelta(days=59) <= e.d2', 'e.d - timedelta(days=1) >= e.d2', 'e.d + td_mix == date(2020, 1, 4)', 'e.d2 + timedelta(days=0) == e.d',
    'e.dt2 - e.dt == timedelta(hours=1)', 'e.dt2 - e.dt == td_h', 'e.dt2 - e.dt > timedelta(0)', 'e.dt2 - e.dt >= timedelta(hours=1)', 'e.dt2 - e.dt < td_h', 'e.dt2 - e.dt <= timedelta(hours=1)',
    'e.dt - e.dt2 == timedelta(days=1)', 'e.dt2 - e.dt == timedelta(milliseconds=500)', 'e.dt2 - e.dt > timedelta(milliseconds=400)', 'e.dt - e.dt2 == timedelta(hours=1)',
    'e.d2 - e.d == timedelta(days=59)', 'e.d2 - e.d == timedelta(days=1)', 'e.d2 - e.d > timedelta(0)', 'e.d2 - e.d <= timedelta(days=1)', 'e.d - e.d2 == td_d', 'e.d2 - e.d == timedelta(0)',
    'p_dt - e.dt == timedelta(hours=1)', 'p_dt - e.dt > timedelta(days=1)', 'p_d - e.d == timedelta(days=30)', 'p_d - e.d < timedelta(days=2)',
    '(e.dt + timedelta(hours=1)).hour == 4', '(e.dt + timedelta(hours=1)).date() == e.d', '(e.dt + td_25h).day == 1', '(e.d + timedelta(days=30)).month == 3',
]


ROWS = {'values with whole seconds or milliseconds': (1, 2, 3, 5, 6), 'a value with microseconds': (4,)}


def configs(tier):
    return [dict(kind=k, text=t, rows=r) for r in ROWS for k, ts in (('projection', PROJ), ('condition', COND)) for t in ts]


def _reset():
    try: orm.rollback()
    except Exception: pass
    core.local.db2cache.clear(); core.local.db_context_counter = 0; core.local.db_session = None


def _py(f, obj):
    try: return f(obj)
    except (TypeError, AttributeError): return None          # an operation on a missing value


def case(cfg, values):
    def call():
        M = model(); env = dict(ENV, E=M.E); text = cfg['text']
        f = eval('lambda e: ' + text, env)
        with orm.db_session:
            ids = ROWS[cfg['rows']]
            objs = [o for o in M.E.select().order_by(M.E.id) if o.id in ids]
            if cfg['kind'] == 'projection':
                want = [(o.id, _py(f, o)) for o in objs]
                try: got = sorted(r for r in orm.select(eval('((e.id, %s) for e in E)' % text, env))[:] if r[0] in ids)
                except (core.TranslationError, NotImplementedError, TypeError) as e: return ['rejected', type(e).__name__]
                if got != want or [type(v) for _, v in got] != [type(v) for _, v in want]:
                    return ['differs'] + [('id %d' % i, 'pony: %r' % (g,), 'python: %r' % (w,)) for (i, g), (_, w) in zip(got, want) if g != w or type(g) is not type(w)][:4]
                return []
            want = [o.id for o in objs if _py(f, o) is True]
            try: got = sorted(o.id for o in M.E.select(f) if o.id in ids)
            except (core.TranslationError, NotImplementedError, TypeError) as e: return ['rejected', type(e).__name__]
            if got != want: return ['differs', 'pony selects %r' % got, 'python selects %r' % want]
            return []
    return Case(call, {}, [], lambda r: _reset(), lambda r: _reset())


def spec(cfg, i, path):
    """equal to Python, or refused (a query Pony cannot translate raises an error)"""
    return path.outcome == 'ret' and (path.value == [] or path.value[:1] == ['rejected'])
