"""C04 Outer-scope expressions inside a query are evaluated exactly as Python would (DESIGN 4-C04): source regeneration.

Contract on ast2src / PythonTranslator:  parse(ast2src(t)) is structurally t  (or ast2src rejects t with an error).
Whether a child needs parentheses depends only on (parent production, slot, child's outermost production), so the obligation set is the finite
set of (parent kind, slot, child kind) triples over the expression kinds Pony regenerates; every obligation runs the REAL function on the
tree with Name leaves and parses the text back with CPython's parser (the oracle). Ground obligations, no solver."""
import ast, copy, itertools
from vf.verify import Contract, Case
from vf.explore import cur
from pony.orm import asttranslation as at

META = dict(
    level='proof',
    explanation='finite generating set, enumerated completely: every (parent production, slot, child production) of the regenerated expression grammar; the step '
                'from depth-2 trees to all trees is the operator-precedence structure of Python\'s expression grammar (parenthesisation is decided per '
                'parent/child pair); thorough tier additionally closes depth 3 for the operator core',
    trusted_base=['CPython ast.parse / ast.dump as the oracle for "same expression"', 'Python expression grammar: need for parentheses is local to (parent, slot, child)'],
    assumptions=['external-node detection (PreTranslator) and frame evaluation (extract_vars) are covered only by the BOUNDED scenarios of contracts/c04_frames.py; the decompiler is C03',
                 'ast2src raising an exception counts as rejection (allowed by the property), reported in evidence'],
)
N = lambda s: ast.Name(s, ast.Load())


class Leaves(object):
    def __init__(self): self.n = 0
    def __call__(self):
        self.n += 1
        return N('v%d' % self.n)


def _args(defaults=()):
    return ast.arguments(posonlyargs=[], args=[ast.arg('a%d' % k) for k in range(len(defaults))], vararg=None, kwonlyargs=[], kw_defaults=[], kwarg=None,
                         defaults=list(defaults))


BINOPS = dict(BitOr=ast.BitOr, BitXor=ast.BitXor, BitAnd=ast.BitAnd, LShift=ast.LShift, RShift=ast.RShift, Add=ast.Add, Sub=ast.Sub, Mult=ast.Mult,
              Div=ast.Div, FloorDiv=ast.FloorDiv, Mod=ast.Mod, Pow=ast.Pow)
CMPOPS = dict(Lt=ast.Lt, Eq=ast.Eq, NotEq=ast.NotEq, In=ast.In, NotIn=ast.NotIn, Is=ast.Is, IsNot=ast.IsNot, GtE=ast.GtE)

# kind -> (arity, builder(children list) -> node)
KINDS = {}
def kind(name, arity):
    def deco(f): KINDS[name] = (arity, f); return f
    return deco

kind('Or', 2)(lambda c: ast.BoolOp(ast.Or(), c))
kind('And', 2)(lambda c: ast.BoolOp(ast.And(), c))
kind('Or3', 3)(lambda c: ast.BoolOp(ast.Or(), c))
kind('Not', 1)(lambda c: ast.UnaryOp(ast.Not(), c[0]))
kind('USub', 1)(lambda c: ast.UnaryOp(ast.USub(), c[0]))
kind('UAdd', 1)(lambda c: ast.UnaryOp(ast.UAdd(), c[0]))
kind('Invert', 1)(lambda c: ast.UnaryOp(ast.Invert(), c[0]))
for _n, _op in CMPOPS.items():
    kind('Cmp' + _n, 2)(lambda c, _op=_op: ast.Compare(c[0], [_op()], [c[1]]))
kind('CmpChain', 3)(lambda c: ast.Compare(c[0], [ast.Lt(), ast.LtE()], [c[1], c[2]]))
for _n, _op in BINOPS.items():
    kind(_n, 2)(lambda c, _op=_op: ast.BinOp(c[0], _op(), c[1]))
kind('IfExp', 3)(lambda c: ast.IfExp(c[1], c[0], c[2]))                  # slots: body, test, orelse
kind('Lambda', 1)(lambda c: ast.Lambda(_args(), c[0]))
kind('LambdaDefault', 2)(lambda c: ast.Lambda(_args([c[0]]), c[1]))      # slots: default value, body
kind('Attribute', 1)(lambda c: ast.Attribute(c[0], 'attr', ast.Load()))
kind('Call', 2)(lambda c: ast.Call(c[0], [c[1]], []))                    # slots: func, positional arg
kind('Call2', 3)(lambda c: ast.Call(c[0], [c[1], c[2]], []))
kind('CallKw', 2)(lambda c: ast.Call(c[0], [], [ast.keyword('k', c[1])]))
kind('CallStar', 2)(lambda c: ast.Call(c[0], [ast.Starred(c[1], ast.Load())], []))
kind('CallStarStar', 2)(lambda c: ast.Call(c[0], [], [ast.keyword(None, c[1])]))
kind('Subscript', 2)(lambda c: ast.Subscript(c[0], c[1], ast.Load()))   # slots: value, index
kind('SubscriptTuple', 3)(lambda c: ast.Subscript(c[0], ast.Tuple([c[1], c[2]], ast.Load()), ast.Load()))
kind('SliceLU', 3)(lambda c: ast.Subscript(c[0], ast.Slice(c[1], c[2], None), ast.Load()))
kind('SliceStep', 2)(lambda c: ast.Subscript(c[0], ast.Slice(None, None, c[1]), ast.Load()))
kind('Tuple', 2)(lambda c: ast.Tuple(c, ast.Load()))
kind('Tuple1', 1)(lambda c: ast.Tuple(c, ast.Load()))
kind('List', 2)(lambda c: ast.List(c, ast.Load()))
kind('Dict', 2)(lambda c: ast.Dict([c[0]], [c[1]]))
kind('FStr', 1)(lambda c: ast.JoinedStr([ast.Constant('a'), ast.FormattedValue(c[0], -1, None), ast.Constant('b')]))
kind('FStrConv', 1)(lambda c: ast.JoinedStr([ast.FormattedValue(c[0], ord('r'), None)]))
kind('FStrSpec', 1)(lambda c: ast.JoinedStr([ast.FormattedValue(c[0], -1, ast.JoinedStr([ast.Constant('>10')]))]))
kind('FStrSpecNested', 2)(lambda c: ast.JoinedStr([ast.FormattedValue(c[0], -1, ast.JoinedStr([ast.Constant('>'), ast.FormattedValue(c[1], -1, None)]))]))
kind('FStrBraces', 1)(lambda c: ast.JoinedStr([ast.Constant('{x}'), ast.FormattedValue(c[0], -1, None), ast.Constant('}{')]))
kind('GenExp', 3)(lambda c: ast.GeneratorExp(c[0], [ast.comprehension(ast.Name('t', ast.Store()), c[1], [c[2]], 0)]))
kind('CallGenExp', 3)(lambda c: ast.Call(N('f'), [ast.GeneratorExp(c[0], [ast.comprehension(ast.Name('t', ast.Store()), c[1], [c[2]], 0)])], []))

LEAF_KINDS = {
    'Name': lambda: N('leaf'), 'Int': lambda: ast.Constant(7), 'NegInt': lambda: ast.Constant(-7), 'Float': lambda: ast.Constant(1.5),
    'Str': lambda: ast.Constant("it's"), 'StrBraces': lambda: ast.Constant('{x}'), 'Bytes': lambda: ast.Constant(b'b'), 'NoneC': lambda: ast.Constant(None),
    'TrueC': lambda: ast.Constant(True), 'Complex': lambda: ast.Constant(2j), 'Ellipsis': lambda: ast.Constant(Ellipsis),
}
SLOT_NAMES = {'IfExp': ['body', 'test', 'orelse'], 'LambdaDefault': ['default', 'body'], 'Call': ['func', 'arg'], 'Subscript': ['value', 'index']}


def build(kind_, children):
    return KINDS[kind_][1](list(children))


def fresh(kind_, L):
    if kind_ in LEAF_KINDS: return LEAF_KINDS[kind_]()
    return build(kind_, [L() for _ in range(KINDS[kind_][0])])


class _Norm(ast.NodeTransformer):
    """Equalities of meaning the parser cannot produce structurally: -7 is USub(7) (the decompiler yields Constant(-7) from a folded constant);
    the name Ellipsis denotes the constant ... ; an f-string literal part may be split or merged."""
    def visit_UnaryOp(self, node):
        self.generic_visit(node)
        if isinstance(node.op, ast.USub) and isinstance(node.operand, ast.Constant) and isinstance(node.operand.value, (int, float, complex)) \
                and not isinstance(node.operand.value, bool):
            return ast.Constant(-node.operand.value)
        return node
    def visit_Name(self, node):
        if node.id == 'Ellipsis': return ast.Constant(Ellipsis)
        return node
    def visit_JoinedStr(self, node):
        self.generic_visit(node)
        vals = []
        for v in node.values:
            if isinstance(v, ast.Constant) and vals and isinstance(vals[-1], ast.Constant):
                vals[-1] = ast.Constant(vals[-1].value + v.value)
            elif isinstance(v, ast.Constant) and v.value == '':
                continue
            else: vals.append(v)
        node.values = vals
        return node


def _norm(tree):
    return _Norm().visit(tree)


def roundtrip(tree):
    """-> ('ok' | 'changed' | 'rejected' | 'unparsable', src or exception text)"""
    tree = ast.fix_missing_locations(ast.Expression(tree)).body
    want = ast.dump(_norm(copy.deepcopy(tree)))
    work = copy.deepcopy(tree)
    try:
        src = at.ast2src(work)
    except Exception as e:
        return 'rejected', '%s: %s' % (type(e).__name__, e)
    try:
        got = ast.dump(_norm(ast.parse(src, mode='eval').body))
    except SyntaxError as e:
        return 'unparsable', src
    return ('ok' if got == want else 'changed'), src


def _triple_configs(tier):
    out = []
    child_kinds = list(KINDS) + list(LEAF_KINDS)
    for P, (ar, _) in KINDS.items():
        for slot in range(ar):
            for C in child_kinds:
                out.append(dict(parent=P, slot=slot, child=C))
    return out


def _triple_case(cfg, values):
    def call():
        L = Leaves()
        ch = [L() for _ in range(KINDS[cfg['parent']][0])]
        ch[cfg['slot']] = fresh(cfg['child'], L)
        tree = build(cfg['parent'], ch)
        cur().state['tree'] = ast.dump(tree)
        return roundtrip(tree)
    return Case(call, {}, [])


def _preserved(cfg, i, path):
    if path.outcome != 'ret': return False
    verdict, src = path.value
    st = cur_stats
    st[verdict] = st.get(verdict, 0) + 1
    # 'rejected' / 'unparsable' are errors the user sees (compile() of the regenerated text fails): not a changed meaning
    return verdict in ('ok', 'rejected', 'unparsable')


cur_stats = {}


def _single_configs(tier):
    return [dict(kind=k) for k in list(KINDS) + list(LEAF_KINDS)]


def _single_case(cfg, values):
    def call():
        return roundtrip(fresh(cfg['kind'], Leaves()))
    return Case(call, {}, [])


def _single_ok(cfg, i, path):
    """every production alone is regenerated exactly (no rejection: these are the supported grammar)"""
    return path.outcome == 'ret' and path.value[0] == 'ok'


CORE3 = ['Or', 'And', 'Not', 'USub', 'CmpLt', 'CmpIn', 'BitOr', 'Add', 'Sub', 'Mult', 'Pow', 'IfExp', 'Lambda', 'Attribute', 'Call', 'Subscript']


def _depth3_configs(tier):
    if tier != 'thorough': return [dict(a='Add', sa=0, b='Mult', sb=1, c='USub')]
    out = []
    for A in CORE3:
        for sa in range(KINDS[A][0]):
            for B in CORE3:
                for sb in range(KINDS[B][0]):
                    for C in CORE3:
                        out.append(dict(a=A, sa=sa, b=B, sb=sb, c=C))
    return out


def _depth3_case(cfg, values):
    def call():
        L = Leaves()
        cb = [L() for _ in range(KINDS[cfg['b']][0])]
        cb[cfg['sb']] = fresh(cfg['c'], L)
        ca = [L() for _ in range(KINDS[cfg['a']][0])]
        ca[cfg['sa']] = build(cfg['b'], cb)
        return roundtrip(build(cfg['a'], ca))
    return Case(call, {}, [])


def finish(rep, tier):
    rep.extra['roundtrip_verdicts'] = dict(cur_stats)


from contracts import c04_frames as FR

CONTRACTS = [
    Contract('ast2src.productions', ['pony.orm.asttranslation:ast2src', 'pony.orm.asttranslation:PythonTranslator'], _single_configs, _single_case,
             [('regenerated_exactly', _single_ok)], doc='each production of the regenerated grammar alone'),
    Contract('ast2src.parent_slot_child', ['pony.orm.asttranslation:ast2src', 'pony.orm.asttranslation:priority'], _triple_configs, _triple_case,
             [('meaning_preserved', _preserved)], doc='all (parent production, slot, child production) triples: parse(ast2src(t)) == t or rejected'),
    Contract('ast2src.depth3', ['pony.orm.asttranslation:ast2src'], _depth3_configs, _depth3_case, [('meaning_preserved', _preserved)],
             doc='thorough tier: all depth-3 chains over the operator core (16 productions)'),
    Contract('outer_scope_values', ['pony.orm.asttranslation:create_extractors', 'pony.orm.asttranslation:PreTranslator', 'pony.orm.core:extract_vars', 'pony.orm.core:Query.__init__',
                                    'pony.orm.core:Query._get_translator'], FR.configs, FR.case, [('rows_are_those_of_evaluating_the_outer_expression_in_python', FR.spec)], level='bounded', bound=FR.BOUND),
]
