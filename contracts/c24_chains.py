"""C24 (bounded part): query-method chains against Python list operations on the full ordered result, on real in-memory SQLite (model of contracts/c01_queries.py).

For an ordered query q with full result R = list(q): slices, limit / offset, page, first, get, exists, count, sum / min / max / avg / group_concat, distinct / without_distinct,
chained filter / where / order_by, random(n), a query iterating over a limited query, and bulk delete, each compared with the corresponding Python operation on R."""
import types
from vf.verify import Case
from vf.explore import cur
from pony import orm
from pony.orm import core
from contracts import c01_queries as Q

BOUND = 'every sequence of <= 3 (thorough: 4) filtering steps out of 13 kinds (keyword, lambda, text, aggregating over a collection, through a reference, ordering) on 3 base queries; ~70 method chains over 4 ordered base queries on the C01 model (10 students); bounds from {0, 1, 2, 3, 5, 9, 10, 11, 50}'
BOUNDS = [0, 1, 2, 3, 5, 9, 10, 11, 50]


def chains(M):
    S, G = M.Student, M.Group
    base = {
        'all by id': (lambda: orm.select(s for s in S).order_by(S.id), lambda objs: sorted(objs, key=lambda s: s.id)),
        'by a desc, name': (lambda: orm.select(s for s in S).order_by(orm.desc(S.a), S.name), lambda objs: sorted(objs, key=lambda s: (-s.a, s.name))),
        'filtered by b': (lambda: orm.select(s for s in S if s.b >= 3).order_by(S.b, S.id), lambda objs: sorted([s for s in objs if s.b >= 3], key=lambda s: (s.b, s.id))),
        'lambda order': (lambda: S.select(lambda s: s.a < 5).order_by(lambda s: (s.b, s.id)), lambda objs: sorted([s for s in objs if s.a < 5], key=lambda s: (s.b, s.id))),
    }
    nm = lambda xs: [x.name for x in xs]
    out = []
    for bname, (q, R) in base.items():
        for a in BOUNDS[:6]:
            for b in (None,) + tuple(BOUNDS[:8]):
                if b is not None and b < a: continue
                out.append(('%s [%s:%s]' % (bname, a, b), (lambda q=q, a=a, b=b: nm(q()[a:b])), (lambda objs, R=R, a=a, b=b: nm(R(objs)[a:b]))))
        for lim in BOUNDS:
            for off in (None, 0, 2, 9, 11):
                out.append(('%s limit(%s, %s)' % (bname, lim, off), (lambda q=q, lim=lim, off=off: nm(q().limit(lim, offset=off))), (lambda objs, R=R, lim=lim, off=off: nm(R(objs)[(off or 0):][:lim]))))
        for page, size in ((1, 3), (2, 3), (4, 3), (5, 3), (1, 10), (2, 10), (3, 4)):
            out.append(('%s page(%d, %d)' % (bname, page, size), (lambda q=q, p=page, z=size: nm(q().page(p, z))), (lambda objs, R=R, p=page, z=size: nm(R(objs)[(p - 1) * z:p * z]))))
        out.append((bname + ' first()', lambda q=q: q().first().name, lambda objs, R=R: R(objs)[0].name))
        out.append((bname + ' exists()', lambda q=q: q().exists(), lambda objs, R=R: bool(R(objs))))
        out.append((bname + ' count()', lambda q=q: q().count(), lambda objs, R=R: len(R(objs))))
        out.append((bname + ' [:][2:5] (slice of a result)', lambda q=q: nm(q()[:][2:5]), lambda objs, R=R: nm(R(objs)[2:5])))
        out.append((bname + ' [1:8] then iterated twice', lambda q=q: (lambda r: (nm(r), nm(r)))(q()[1:8]), lambda objs, R=R: (nm(R(objs)[1:8]), nm(R(objs)[1:8]))))
        out.append((bname + ' filter(b > 2)[:4]', lambda q=q: nm(q().filter(lambda s: s.b > 2)[:4]), lambda objs, R=R: nm([s for s in R(objs) if s.b > 2][:4])))
        out.append((bname + ' where(a > 1).count()', lambda q=q: q().where(lambda s: s.a > 1).count(), lambda objs, R=R: len([s for s in R(objs) if s.a > 1])))
        out.append((bname + ' filter(a=2)', lambda q=q: nm(q().filter(a=2)), lambda objs, R=R: nm([s for s in R(objs) if s.a == 2])))
        out.append((bname + ' random(3) is a 3-subset', lambda q=q: (lambda r: (len(r), len(set(nm(r)))))(q().random(3)), lambda objs, R=R: (min(3, len(R(objs))), min(3, len(R(objs))))))
        out.append((bname + ' random(50) is the whole result', lambda q=q: sorted(nm(q().random(50))), lambda objs, R=R: sorted(nm(R(objs)))))
        out.append((bname + ' over a limited query + filter', lambda q=q: nm(orm.select(s for s in q().limit(4) if s.b > 2)), lambda objs, R=R: nm([s for s in R(objs)[:4] if s.b > 2])))
        out.append((bname + ' over a limited query, no filter', lambda q=q: sorted(nm(orm.select(s for s in q().limit(4)))), lambda objs, R=R: sorted(nm(R(objs)[:4]))))
        out.append((bname + ' over a sliced query [2:6] + count', lambda q=q: orm.select(s for s in q()[2:6]).count() if False else orm.count(s for s in q().limit(4, offset=2)), lambda objs, R=R: len(R(objs)[2:6])))
    ages = lambda objs: [s.age for s in objs if s.age is not None]
    out += [
        # first() of an UNORDERED query is the first item of the fully ordered result (every selected column takes part in the implicit ordering)
        ('first() unordered, pairs with ties on the first column', lambda: orm.select((s.a, 10 - s.b) for s in S if s.a == 2).first(), lambda objs: min((s.a, 10 - s.b) for s in objs if s.a == 2)),
        ('first() unordered, triples with ties on two columns', lambda: orm.select((s.a, s.a + 1, 10 - s.b) for s in S if s.a >= 2).first(), lambda objs: min((s.a, s.a + 1, 10 - s.b) for s in objs if s.a >= 2)),
        ('first() unordered, pairs (name last)', lambda: orm.select((s.b, s.name) for s in S if s.b == 3).first(), lambda objs: min((s.b, s.name) for s in objs if s.b == 3)),
        ('first() unordered, scalar', lambda: orm.select(10 - s.b for s in S).first(), lambda objs: min(10 - s.b for s in objs)),
        ('first() unordered, objects', lambda: orm.select(s for s in S if s.a == 2).first().name, lambda objs: min((s.id, s.name) for s in objs if s.a == 2)[1]),
        ('first() unordered after filter()', lambda: orm.select((s.a, 10 - s.b) for s in S).filter(lambda a, b: a == 3).first(), lambda objs: min((s.a, 10 - s.b) for s in objs if s.a == 3)),
        ('first() of an empty query', lambda: orm.select((s.a, s.b) for s in S if s.a > 100).first(), lambda objs: None),
        ('get() unique', lambda: S.select(lambda s: s.name == 'bob').get().name, lambda objs: 'bob'),
        ('get() none', lambda: S.select(lambda s: s.name == 'nobody').get(), lambda objs: None),
        ('get() of many raises', lambda: _raises(lambda: S.select(lambda s: s.a == 2).get(), core.MultipleObjectsFoundError), lambda objs: True),
        ('sum / min / max / avg / count of a filtered query', lambda: (lambda q: (q.sum(), q.min(), q.max(), round(q.avg(), 9), q.count()))(orm.select(s.age for s in S if s.a >= 2)),
         lambda objs: (lambda v, d: (sum(v), min(v), max(v), round(sum(d) / len(d), 9), len(d)))([s.age for s in objs if s.a >= 2 and s.age is not None], sorted(set(s.age for s in objs if s.a >= 2 and s.age is not None)))),
        ('sum / avg without_distinct', lambda: (lambda q: (q.sum(), round(q.avg(), 9), q.count()))(orm.select(s.age for s in S if s.a >= 1).without_distinct()),
         lambda objs: (lambda v: (sum(v), round(sum(v) / len(v), 9), len([s for s in objs if s.a >= 1])))([s.age for s in objs if s.a >= 1 and s.age is not None])),
        ('group_concat', lambda: sorted(orm.select(s.name for s in S if s.a == 2).group_concat(',').split(',')), lambda objs: sorted(s.name for s in objs if s.a == 2)),
        ('projection is distinct by default', lambda: sorted(orm.select(s.a for s in S)), lambda objs: sorted(set(s.a for s in objs))),
        ('without_distinct keeps duplicates', lambda: sorted(orm.select(s.a for s in S).without_distinct()), lambda objs: sorted(s.a for s in objs)),
        ('distinct() then ordering only permutes', lambda: sorted(orm.select(s.a for s in S).distinct().order_by(lambda a: a)) , lambda objs: sorted(set(s.a for s in objs))),
        ('ordering only permutes the result', lambda: sorted(nm(orm.select(s for s in S if s.b > 2).order_by(orm.desc(S.name)))), lambda objs: sorted(s.name for s in objs if s.b > 2)),
        ('order_by on a projection keeps it distinct', lambda: list(orm.select(s.group for s in S if s.group is not None).order_by(lambda g: g.name)) and
         [g.name for g in orm.select(s.group for s in S if s.group is not None).order_by(lambda g: g.name)], lambda objs: sorted(set(s.group.name for s in objs if s.group is not None))),
        ('exists() of a one-row query', lambda: S.select(lambda s: s.name == 'bob').exists(), lambda objs: True),
        ('exists() of an empty query', lambda: S.select(lambda s: s.name == 'nobody').exists(), lambda objs: False),
        ('sum of an empty result is 0', lambda: orm.sum(s.age for s in S if s.a > 100), lambda objs: sum(s.age for s in objs if s.a > 100)),
        ('min / max / avg of an empty result is None', lambda: (orm.min(s.age for s in S if s.a > 100), orm.max(s.age for s in S if s.a > 100), orm.avg(s.age for s in S if s.a > 100)), lambda objs: (None, None, None)),
        ('slice of a fetched result [:][2:9]', lambda: nm(orm.select(s for s in S).order_by(S.id)[:][2:9]), lambda objs: nm(sorted(objs, key=lambda s: s.id)[2:9])),
        ('limit(0)', lambda: nm(orm.select(s for s in S).order_by(S.id).limit(0)), lambda objs: []),
        ('[5:5]', lambda: nm(orm.select(s for s in S).order_by(S.id)[5:5]), lambda objs: []),
    ]
    return out


# ---- chains of filtering steps of every kind, in every order: each step must narrow the result exactly as the Python condition does, whatever came before or comes after
def steps(M):
    S = M.Student
    return {
        'filter(a=2)': (lambda q: q.filter(a=2), lambda s: s.a == 2),
        'where(b=3)': (lambda q: q.where(b=3), lambda s: s.b == 3),
        'filter(a=2, b=3)': (lambda q: q.filter(a=2, b=3), lambda s: s.a == 2 and s.b == 3),
        'filter(group=g1)': (lambda q: q.filter(group=M.Group.get(name='g1')), lambda s: s.group is not None and s.group.name == 'g1'),
        'filter(lambda b > 0)': (lambda q: q.filter(lambda s: s.b > 0), lambda s: s.b > 0),
        'where(lambda a < 3)': (lambda q: q.where(lambda s: s.a < 3), lambda s: s.a < 3),
        'filter(count(courses) > 1)': (lambda q: q.filter(lambda s: orm.count(s.courses) > 1), lambda s: len(s.courses) > 1),          # aggregates over a collection: the translator is rebuilt
        'where(count(courses) >= 1)': (lambda q: q.where(lambda s: orm.count(s.courses) >= 1), lambda s: len(s.courses) >= 1),
        'filter(max(courses.credits) > 0)': (lambda q: q.filter(lambda s: orm.max(s.courses.credits) > 0), lambda s: bool(s.courses) and max(c.credits for c in s.courses) > 0),
        'filter(group.level > 0)': (lambda q: q.filter(lambda s: s.group.level > 0), lambda s: s.group is not None and s.group.level is not None and s.group.level > 0),
        'order_by(name)': (lambda q: q.order_by(S.name), lambda s: True),
        'order_by(lambda)': (lambda q: q.order_by(lambda s: orm.desc(s.b)), lambda s: True),
        'filter(text)': (lambda q: q.filter('s.a >= 1'), lambda s: s.a >= 1),
    }


def step_chains(tier):
    import itertools
    names = list(steps(Q.model()))
    out = [c for k in (1, 2, 3) for c in itertools.product(names, repeat=k)]
    if tier == 'thorough': out += list(itertools.product(names, repeat=4))
    return out


def DELETES(M):
    S = M.Student
    return [
        ('plain condition', lambda: orm.select(s for s in S if s.b > 2 and s.a < 3), lambda s: s.b > 2 and s.a < 3),
        ('everything', lambda: S.select(), lambda s: True),
        ('nothing', lambda: S.select(lambda s: s.a > 100), lambda s: False),
        ('through a reference', lambda: S.select(lambda s: s.group.level > 0), lambda s: s.group is not None and (s.group.level or 0) > 0),
        ('keyword filter', lambda: S.select().filter(a=2), lambda s: s.a == 2),
        ('through a reference, with plain conditions', lambda: S.select(lambda s: s.group.level > 0 and s.b > 0).filter(lambda s: s.a < 3), lambda s: s.group is not None and (s.group.level or 0) > 0 and s.b > 0 and s.a < 3),
        ('aggregate over a collection', lambda: S.select(lambda s: orm.count(s.courses) > 1), lambda s: len(s.courses) > 1),
        ('keyword filter then aggregate', lambda: S.select().filter(a=2).filter(lambda s: orm.count(s.courses) > 1), lambda s: s.a == 2 and len(s.courses) > 1),
        ('aggregate of an attribute of the collection', lambda: S.select(lambda s: orm.max(s.courses.credits) > 0 and s.b > 1), lambda s: s.b > 1 and any(c.credits > 0 for c in s.courses)),
        ('membership in a subquery', lambda: S.select(lambda s: s.group in orm.select(g for g in M.Group if g.level > 0)), lambda s: s.group is not None and (s.group.level or 0) > 0),
        ('exists over a collection', lambda: S.select(lambda s: orm.exists(c for c in s.courses if c.credits > 3)), lambda s: any(c.credits > 3 for c in s.courses)),
    ]


def _raises(f, exc):
    try: f()
    except exc: return True
    return False


def configs(tier):
    return ([dict(chain=n) for n, q, py in chains(Q.model())] + [dict(chain='bulk delete removes exactly the selected rows'), dict(chain='delete() removes exactly the selected rows')]
            + [dict(chain='steps', tier=tier, first=f, base=b) for f in steps(Q.model()) for b in ('select()', 'generator', 'select(lambda)')])


def case(cfg, values):
    M = Q.model()

    def reset():
        try: orm.rollback()
        except Exception: pass
        core.local.db2cache.clear(); core.local.db_context_counter = 0; core.local.db_session = None

    def call():
        with orm.db_session:
            objs = list(M.Student.select().order_by(M.Student.id))
            if cfg['chain'] == 'steps':
                ST = steps(M); bad = []; S = M.Student
                bases = {'select()': (lambda: S.select(), lambda s: True), 'generator': (lambda: orm.select(s for s in S if s.age is not None), lambda s: s.age is not None),
                         'select(lambda)': (lambda: S.select(lambda s: s.b < 9), lambda s: s.b < 9)}
                mk, base_pred = bases[cfg['base']]
                for chain in step_chains(cfg['tier']):
                    if chain[0] != cfg['first']: continue
                    q = mk(); preds = [base_pred]
                    try:
                        for name in chain:
                            q = ST[name][0](q); preds.append(ST[name][1])
                    except Exception as e:
                        bad.append((cfg['base'] + '.' + '.'.join(chain), 'building the query raises %s: %s' % (type(e).__name__, str(e)[:80]))); continue
                    want = sorted(s.name for s in objs if all(p(s) for p in preds))
                    try: got = (sorted(s.name for s in q), q.count(), q.exists())
                    except Exception as e: got = 'raises %s: %s' % (type(e).__name__, str(e)[:80])
                    if got != (want, len(want), bool(want)):
                        bad.append((cfg['base'] + '.' + '.'.join(chain), 'query: %r' % (got,), 'python: %r' % ((want, len(want), bool(want)),)))
                return bad[:40]
            if 'delete' in cfg['chain']:
                S = M.Student; bad = []
                for label, mk, pred in DELETES(M):
                    want = sorted(s.name for s in objs if not pred(s))
                    n_want = len(objs) - len(want)
                    try:
                        n = mk().delete(bulk=cfg['chain'].startswith('bulk'))
                        got = sorted(M.db.select('select name from Student'))
                    except (core.TranslationError, NotImplementedError) as e: n, got = n_want, want          # a delete pony refuses is not a wrong delete
                    except Exception as e: n, got = 'raises %s: %s' % (type(e).__name__, str(e)[:80]), None
                    orm.rollback()
                    objs = list(M.Student.select().order_by(M.Student.id))
                    if (got, n) != (want, n_want): bad.append((label, 'deleted %r rows, left %r' % (n, got), 'python: %r / %r' % (n_want, want)))
                return bad
            name, q, py = [x for x in chains(M) if x[0] == cfg['chain']][0]
            want = py(objs)
            try: got = q()
            except AssertionError as e: got = 'AssertionError inside pony'
            return [] if got == want else [('query: %r' % (got,), 'python: %r' % (want,))]
    return Case(call, {}, [], lambda run: reset(), lambda run: reset())


def spec(cfg, i, path):
    return path.outcome == 'ret' and path.value == []
