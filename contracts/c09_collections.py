"""C09 (bounded part): a collection ends up in the database exactly as the program left it, whatever sequence of add / remove / whole-collection assignments led there.

Set.__set__, SetInstance.add / remove / clear and their reverse-side bookkeeping (added / removed sets that cancel each other out) are driven by every sequence of <= 3
operations out of 15 on one collection of three possible items, for a many-to-many seen from either side (only one side is the one whose pending sets are written) and a
one-to-many, from 3 initial contents, with the collection loaded beforehand or not. After each sequence the in-session content and, after commit, the link rows / foreign keys
must equal a Python set driven by the same operations."""
import itertools, types
from vf.verify import Case
from pony import orm
from pony.orm import core

BOUND = 'one collection over 3 possible items; every sequence of <= 3 operations out of 15 (add / remove one item, assign each of the 8 subsets, clear); 3 relationship views (many-to-many from either side, one-to-many) x 3 initial contents x loaded or not'
_M = None


def model():
    global _M
    if _M is None:
        db = orm.Database('sqlite', ':memory:')

        class Alpha(db.Entity):                         # sorts before Tag: its side of the many-to-many is the one _calc_modified_m2m reads
            id = orm.PrimaryKey(int)
            tags = orm.Set('Tag')
            parts = orm.Set('Part')

        class Tag(db.Entity):
            id = orm.PrimaryKey(int)
            alphas = orm.Set(Alpha)

        class Part(db.Entity):
            id = orm.PrimaryKey(int)
            owner = orm.Optional(Alpha)
        db.generate_mapping(create_tables=True)
        _M = types.SimpleNamespace(db=db, Alpha=Alpha, Tag=Tag, Part=Part)
    return _M


ITEMS = (1, 2, 3)
OPS = [('add', i) for i in ITEMS] + [('remove', i) for i in ITEMS] + [('assign', s) for k in range(4) for s in itertools.combinations(ITEMS, k)] + [('clear', None)]
VIEWS = ('m2m from the written side', 'm2m from the other side', 'one-to-many')
INITIAL = ((), (1, 2), (1, 2, 3))


def configs(tier):
    return [dict(view=v, initial=i, loaded=l, first=repr(op)) for v in VIEWS for i in INITIAL for l in (True, False) for op in OPS]


def _reset():
    try: orm.rollback()
    except Exception: pass
    core.local.db2cache.clear(); core.local.db_context_counter = 0; core.local.db_session = None


def run_one(M, view, initial, loaded, seq):
    _reset()
    with orm.db_session:
        for t in ('Alpha_Tag', 'Part', 'Tag', 'Alpha'): M.db.execute('delete from "%s"' % t)
        M.db.execute('insert into Alpha(id) values (1), (2)')
        for i in ITEMS:
            M.db.execute('insert into Tag(id) values (%d)' % i); M.db.execute('insert into Part(id, owner) values (%d, %s)' % (i, '1' if view == 'one-to-many' and i in initial else 'null'))
        M.db.execute('insert into Tag(id) values (9)'); M.db.execute('insert into Alpha_Tag(alpha, tag) values (2, 9)')            # a bystander
        if view == 'm2m from the other side':
            for i in ITEMS: M.db.execute('insert into Alpha(id) values (%d)' % (10 + i))
        if view != 'one-to-many':
            for i in initial:
                if view == 'm2m from the written side': M.db.execute('insert into Alpha_Tag(alpha, tag) values (1, %d)' % i)
                else: M.db.execute('insert into Alpha_Tag(alpha, tag) values (%d, 1)' % (10 + i))
    ref = set(initial)
    try:
        with orm.db_session:
            if view == 'm2m from the written side': owner = M.Alpha[1]; coll = lambda: owner.tags; item = lambda i: M.Tag[i]; key = lambda o: o.id
            elif view == 'm2m from the other side': owner = M.Tag[1]; coll = lambda: owner.alphas; item = lambda i: M.Alpha[10 + i]; key = lambda o: o.id - 10
            else: owner = M.Alpha[1]; coll = lambda: owner.parts; item = lambda i: M.Part[i]; key = lambda o: o.id
            for E in (M.Alpha, M.Tag, M.Part): list(E.select())          # every object is in the session: no operation below needs a query, nothing is flushed before the end
            if loaded: list(coll())
            for kind, arg in seq:
                if kind == 'add': coll().add(item(arg)); ref.add(arg)
                elif kind == 'remove': coll().remove(item(arg)); ref.discard(arg)
                elif kind == 'clear': coll().clear(); ref.clear()
                else:
                    new = [item(i) for i in arg]
                    if view == 'm2m from the written side': owner.tags = new
                    elif view == 'm2m from the other side': owner.alphas = new
                    else: owner.parts = new
                    ref = set(arg)
            in_session = sorted(key(o) for o in coll())
            if in_session != sorted(ref): return ('in the session: %r' % in_session, 'the operations leave: %r' % sorted(ref))
    except Exception as e:
        return ('raises %s: %s' % (type(e).__name__, str(e)[:80]),)
    finally:
        _reset()
    con = M.db.provider.pool.con
    if view == 'm2m from the written side': rows = sorted(r[0] for r in con.execute('select tag from Alpha_Tag where alpha = 1').fetchall())
    elif view == 'm2m from the other side': rows = sorted(r[0] - 10 for r in con.execute('select alpha from Alpha_Tag where tag = 1 and alpha > 10').fetchall())
    else: rows = sorted(r[0] for r in con.execute('select id from Part where owner = 1').fetchall())
    bystander = sorted(con.execute('select alpha, tag from Alpha_Tag where alpha = 2').fetchall())
    if rows != sorted(ref): return ('committed rows: %r' % rows, 'the operations leave: %r' % sorted(ref))
    if bystander != [(2, 9)]: return ('rows of another object changed: %r' % bystander,)
    return None


def _work(cfg):
    M = model(); out = []; n = 0
    first = next(op for op in OPS if repr(op) == cfg['first'])
    seqs = [(first,)] + [(first, b) for b in OPS] + [(first, b, c) for b in OPS for c in OPS]
    for seq in seqs:
        n += 1
        bad = run_one(M, cfg['view'], tuple(cfg['initial']), cfg['loaded'], seq)
        if bad:
            out.append((' ; '.join('%s %s' % (k, '' if a is None else a) for k, a in seq),) + tuple(bad))
            if len(out) >= 3: break
    return out if n else ['nothing run']


def case(cfg, values):
    from vf import par
    def call():
        key = {k: v for k, v in cfg.items() if not k.startswith('_')}
        return par.precomputed('c09_collections', configs('quick'), _work, key)
    return Case(call, {}, [], lambda r: _reset(), lambda r: _reset())


def spec(cfg, i, path):
    return path.outcome == 'ret' and path.value == []
