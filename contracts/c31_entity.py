"""C31 (bounded part): Entity.to_dict reports the CURRENT attribute values and relationship keys, distinct composite keys distinctly, and pickled objects / query results
unpickled in another session have equal attribute values.

Real entities on in-memory SQLite: plain key, multi-attribute composite key (Seat), ONE key attribute that references a composite-key entity (Booking: one attribute, two raw
columns), a key attribute referencing such an entity again (Receipt: one attribute, two columns, two hops), lazy attribute, to-one and to-many relationships to all of them.
The reference reading is computed from getattr() on the same objects."""
import itertools, pickle, types
from vf.verify import Case
from pony import orm
from pony.orm import core

BOUND_TD = 'one model (5 entities, every key shape), every object, 3 session states (loaded / modified in the session / created in the session) x 40 option combinations of to_dict'
BOUND_PK = 'the same model; single objects, lists, query results, nested containers, collections (many-to-many from either end, one-to-many); unpickled in a fresh session, in a session that already holds the objects, and in the pickling session'
_M = None


db = orm.Database()                                 # entities at module level: pickle finds classes by module and name


class Seat(db.Entity):
    row = orm.Required(str); number = orm.Required(int)
    orm.PrimaryKey(row, number)
    booking = orm.Optional('Booking')
    trips_seen = orm.Set('Trip', reverse='favourite_seats')

class Booking(db.Entity):
    seat = orm.PrimaryKey(Seat)                    # ONE key attribute, TWO raw key columns
    trip = orm.Required('Trip')
    price = orm.Optional(int)
    receipt = orm.Optional('Receipt')

class Receipt(db.Entity):
    booking = orm.PrimaryKey(Booking)              # one attribute, two raw columns, two hops away
    text = orm.Optional(str)
    trip = orm.Optional('Trip')

class Trip(db.Entity):
    name = orm.Required(str)
    notes = orm.Optional(str, lazy=True)
    bookings = orm.Set(Booking)
    receipts = orm.Set(Receipt, lazy=True)       # a LAZY collection: chosen by with_collections, not by with_lazy
    plains = orm.Set('Plain')
    favourite_seats = orm.Set(Seat, reverse='trips_seen')
    best = orm.Optional('Plain', reverse='best_of')

class Plain(db.Entity):
    trip = orm.Optional(Trip)
    best_of = orm.Set(Trip, reverse='best')
    weight = orm.Optional(float)
    weight_unit = orm.Optional(str)                 # a name that CONTAINS another attribute's name: excluding it by a string must not touch `weight`


def model():
    global _M
    if _M is not None: return _M
    db.bind('sqlite', ':memory:')
    db.generate_mapping(create_tables=True)
    with orm.db_session:
        t = Trip(name='t', notes='long text'); t2 = Trip(name='t2')
        seats = [Seat(row=r, number=n) for r, n in (('A', 1), ('A', 2), ('B', 1), ('B', 7))]
        bs = [Booking(seat=s, trip=t, price=10 * k) for k, s in enumerate(seats[:3])]
        Receipt(booking=bs[0], text='r0', trip=t); Receipt(booking=bs[1], text='r1', trip=t)
        p1 = Plain(trip=t, weight=1.5); Plain(trip=t); Plain()
        t.favourite_seats = seats[:2]; t2.favourite_seats = seats[1:]
        orm.flush()
        t.best = p1
    _M = types.SimpleNamespace(db=db, Seat=Seat, Booking=Booking, Receipt=Receipt, Trip=Trip, Plain=Plain)
    return _M


def raw_pk(obj):
    """the flat tuple of key column values, computed from the key attributes (not from pony's _get_raw_pkval_)"""
    out = []
    for attr in type(obj)._pk_attrs_:
        v = getattr(obj, attr.name)
        out.extend(raw_pk(v) if isinstance(v, core.Entity) else [v])
    return tuple(out)


def key_of(obj):
    k = raw_pk(obj)
    return k[0] if len(k) == 1 else k


def ref_to_dict(obj, only, exclude, with_collections, with_lazy, related_objects):
    E = type(obj)
    split = lambda s: s.replace(',', ' ').split() if isinstance(s, str) else list(s)
    if only: names = split(only)
    else: names = [a.name for a in E._attrs_ if (with_collections or not a.is_collection) and (with_lazy or not a.lazy or a.is_collection)]
    if exclude: names = [n for n in names if n not in split(exclude)]
    out = {}
    for n in names:
        a = E._adict_[n]; v = getattr(obj, n)
        if a.is_collection: v = sorted(v) if related_objects else sorted(key_of(x) for x in v)
        elif a.is_relation and v is not None and not related_objects: v = key_of(v)
        out[n] = v
    return out


OPTIONS = [dict(only=o, exclude=e, with_collections=wc, with_lazy=wl, related_objects=ro)
           for o in (None, 'FIRST2', 'COLLECTIONS') for e in (None, 'LAST') for wc in (False, True) for wl in (False, True) for ro in (False, True)
           if not (o and (wc or wl)) ] + [dict(only='STRING', exclude=None, with_collections=False, with_lazy=False, related_objects=False),
                                          dict(only=None, exclude='LONGER NAME AS STRING', with_collections=True, with_lazy=True, related_objects=False),
                                          dict(only='LONGER NAME AS STRING', exclude=None, with_collections=False, with_lazy=False, related_objects=False),
                                          dict(only=None, exclude='TWO NAMES AS STRING', with_collections=False, with_lazy=False, related_objects=False)]
STATES = ('loaded', 'modified', 'created')


def td_configs(tier):
    return [dict(entity=e, state=s) for e in ('Seat', 'Booking', 'Receipt', 'Trip', 'Plain') for s in STATES]


def _reset():
    try: orm.rollback()
    except Exception: pass
    core.local.db2cache.clear(); core.local.db_context_counter = 0; core.local.db_session = None


def _modify(M):
    t = M.Trip.get(name='t'); t2 = M.Trip.get(name='t2')
    t.name = 'renamed'; t.notes = 'new notes'
    b = M.Booking[M.Seat['A', 2]]; b.price = 99; b.trip = t2
    M.Receipt[b].text = 'changed'; M.Receipt[b].trip = None
    t.favourite_seats.remove(M.Seat['A', 1]); t.favourite_seats.add(M.Seat['B', 7])
    p = M.Plain.select().order_by(M.Plain.id).first(); p.weight = 2.25; p.trip = t2; t2.best = p


def _create(M):
    t3 = M.Trip(name='t3', notes='n3')
    s = M.Seat(row='C', number=3); s2 = M.Seat(row='C', number=4)
    b = M.Booking(seat=s, trip=t3, price=5); M.Booking(seat=s2, trip=t3)
    M.Receipt(booking=b, text='new', trip=t3)
    M.Plain(trip=t3, weight=0.5)
    t3.favourite_seats = [s, M.Seat['A', 1]]


def td_case(cfg, values):
    def call():
        M = model(); bad = []; n = 0
        E = getattr(M, cfg['entity'])
        with orm.db_session:
            try:
                if cfg['state'] == 'modified': _modify(M)
                if cfg['state'] == 'created': _create(M)
                for obj in list(E.select()):
                    names = [a.name for a in E._attrs_]
                    for o in OPTIONS:
                        o = dict(o)
                        if o['only'] == 'FIRST2': o['only'] = names[:2]
                        elif o['only'] == 'COLLECTIONS':
                            o['only'] = [a.name for a in E._attrs_ if a.is_collection or a.is_relation]
                            if not o['only']: continue
                        elif o['only'] == 'STRING': o['only'] = ', '.join(names[-2:])
                        longer = [n for n in names if any(m != n and m in n for m in names)]          # names that contain another attribute's name
                        if 'LONGER NAME AS STRING' in (o['only'], o['exclude']):
                            if not longer: continue
                            if o['only']: o['only'] = longer[0]
                            else: o['exclude'] = longer[0]
                        if o['exclude'] == 'TWO NAMES AS STRING': o['exclude'] = '%s, %s' % (names[-1], names[1])
                        if o['exclude'] == 'LAST': o['exclude'] = names[-1:] if not o['only'] else None
                        got = obj.to_dict(**o); want = ref_to_dict(obj, **o); n += 1
                        if got != want or list(got) != list(want):
                            bad.append((str(obj), str({k: v for k, v in o.items() if v}), 'to_dict: %r' % (got,), 'current state: %r' % (want,)))
                            if len(bad) >= 4: return bad
            finally:
                orm.rollback()
        return bad if n else ['nothing compared']
    return Case(call, {}, [], lambda run: _reset(), lambda run: _reset())


# ------------------------------------------------------------------ pickling
def snapshot(obj, collections=True):
    """attribute values as a program sees them (references by key, collections as sorted keys)"""
    E = type(obj); out = {'class': E.__name__}
    for a in E._attrs_:
        if a.is_collection and not collections: continue
        v = getattr(obj, a.name)
        out[a.name] = sorted(key_of(x) for x in v) if a.is_collection else (key_of(v) if isinstance(v, core.Entity) else v)
    return out


PICKLED = {
    'one trip': lambda M: M.Trip.get(name='t'), 'one booking': lambda M: M.Booking[M.Seat['A', 1]], 'one receipt': lambda M: M.Receipt.select().order_by(lambda r: r.text).first(),
    'one seat': lambda M: M.Seat['B', 7], 'list of plains': lambda M: list(M.Plain.select().order_by(M.Plain.id)), 'query result of bookings': lambda M: M.Booking.select().order_by(M.Booking.price)[:],
    'query result of pairs': lambda M: orm.select((b, b.trip) for b in M.Booking).order_by(lambda b, t: b.price)[:], 'nested containers': lambda M: {'k': [M.Seat['A', 2], (M.Plain.select().order_by(M.Plain.id).first(), 3)]},
    'trip with loaded lazy attribute': lambda M: (lambda t: (t.notes, t)[1])(M.Trip.get(name='t')), 'query result of values': lambda M: orm.select((s.row, s.number) for s in M.Seat).order_by(1, 2)[:],
    'everything': lambda M: [list(E.select()) for E in (M.Trip, M.Seat, M.Booking, M.Receipt, M.Plain)],
    # collections themselves (a SetInstance pickles its owner and its members)
    'a many-to-many collection': lambda M: M.Trip.get(name='t').favourite_seats, 'the other end of a many-to-many collection': lambda M: M.Seat['A', 1].trips_seen,
    'a one-to-many collection': lambda M: M.Trip.get(name='t').bookings, 'an object and two of its collections': lambda M: (lambda t: [t, t.favourite_seats, t.plains])(M.Trip.get(name='t')),
}
TARGETS = ('fresh session', 'session that already loaded everything', 'same session', 'fresh session, values read after it is over')


def pk_configs(tier):
    return [dict(data=d, target=t) for d in PICKLED for t in TARGETS]


def _walk(x):
    if isinstance(x, core.Entity): yield x
    elif isinstance(x, core.SetInstance):
        yield x._obj_
        for v in x: yield v
    elif isinstance(x, dict):
        for v in x.values(): yield from _walk(v)
    elif isinstance(x, (list, tuple, core.QueryResult)):
        for v in x: yield from _walk(v)


def _shape(x):
    if isinstance(x, core.Entity): return (type(x).__name__, key_of(x))
    if isinstance(x, core.SetInstance): return ('collection', type(x._obj_).__name__, key_of(x._obj_), x._attr_.name, sorted(key_of(v) for v in x))
    if isinstance(x, dict): return {k: _shape(v) for k, v in x.items()}
    if isinstance(x, (list, tuple, core.QueryResult)): return [_shape(v) for v in x]
    return x


def pk_case(cfg, values):
    def call():
        M = model(); bad = []
        over = cfg['target'].endswith('over')
        with orm.db_session:
            data = PICKLED[cfg['data']](M)
            shape = _shape(data)
            want = {(type(o).__name__, key_of(o)): snapshot(o, collections=not over) for o in _walk(data)}
            if over:
                for o in _walk(data):                          # the objects the values refer to are read too: their values travel in the pickle as well
                    for a in type(o)._attrs_:
                        v = None if a.is_collection else getattr(o, a.name)
                        if isinstance(v, core.Entity): snapshot(v, collections=False)
            blob = pickle.dumps(data)                          # (after the values were read: everything read is loaded and is in the pickle)
            if cfg['target'] == 'same session':
                back = pickle.loads(blob)
                if _shape(back) != shape: bad.append(('different structure', _shape(back), shape))
                for o in _walk(back):
                    if snapshot(o) != want[type(o).__name__, key_of(o)]: bad.append((str(o), snapshot(o), want[type(o).__name__, key_of(o)]))
                return bad[:4]
        _reset()
        with orm.db_session:
            if cfg['target'] == 'session that already loaded everything':
                for E in (M.Trip, M.Seat, M.Booking, M.Receipt, M.Plain): list(E.select())
            back = pickle.loads(blob)
            if _shape(back) != shape: bad.append(('different structure', _shape(back), shape))
            objs = list(_walk(back))
            if len(want) and not objs: bad.append('nothing came back')
            if not over:
                for o in objs:
                    if o is not type(o)[raw_pk(o) if len(type(o)._pk_attrs_) > 1 else getattr(o, type(o)._pk_attrs_[0].name)]: bad.append((str(o), 'not the object of the identity map'))
                    if snapshot(o) != want[type(o).__name__, key_of(o)]: bad.append((str(o), 'unpickled: %r' % (snapshot(o),), 'pickled: %r' % (want[type(o).__name__, key_of(o)],)))
        if over:
            # the session is over: the values that travelled in the pickle are there, nothing can be fetched any more
            for o in objs:
                try: got = snapshot(o, collections=False)
                except core.DatabaseSessionIsOver as e: bad.append((str(o), 'a pickled value is missing after unpickling: %s' % e)); continue
                if got != want[type(o).__name__, key_of(o)]: bad.append((str(o), 'unpickled: %r' % (got,), 'pickled: %r' % (want[type(o).__name__, key_of(o)],)))
        return bad[:4]
    return Case(call, {}, [], lambda run: _reset(), lambda run: _reset())


def spec(cfg, i, path):
    return path.outcome == 'ret' and path.value == []
