"""C08 Validation enforces declared attribute constraints (DESIGN 4-C08, Appendix A2)."""
import itertools, z3, decimal
from vf.verify import Contract, Case
from vf.inputs import Inputs, term, same
from vf import logic as L
from vf.explore import cur, choose
from vf.proxy import SymStr, SymReal, SymBool, sym_len
from pony.orm import dbapiprovider as dp, core
from pony.orm.ormtypes import LongStr

META = dict(
    level='proof',
    explanation='for every declaration accepted by init and every candidate value: validate returns the (normalised) value iff the value '
                'satisfies the declared bounds / size / signedness / max_len / nullability / required-ness / check, else raises',
    trusted_base=['decimal.Decimal(d) == d for a Decimal d (the only stubbed external; Decimal values are exact reals, no NaN/quantize)',
                  'str.strip() returns a string no longer than its argument'],
    assumptions=['float bounds min/max are not NaN', 'max_len >= 1 (max_len=0 is documented by the code as "no limit": falsy)',
                 'custom py_check is an effect returning an arbitrary bool, or one of 9 enumerated non-bool results judged by truth value'],
)


class Bag(object):
    def __init__(self, **kw): self.__dict__.update(kw)
    def __str__(self): return getattr(self, '_s', 'E.x')
    __repr__ = __str__


def _new_converter(cls, py_type, **prov):
    c = object.__new__(cls)
    c.attr = Bag(py_type=py_type, args=(), kwargs={}, name='x')
    c.provider = Bag(uint64_support=prov.get('uint64_support', True), dialect='SQLite', varchar_default_max_len=prov.get('vdml'))
    c.py_type = py_type
    return c


def _stage_call(conv, kwargs, val):
    st = cur().state
    st['stage'] = 'init'
    conv.init(kwargs)
    st['stage'] = 'validate'
    st['unknown_options'] = list(kwargs)
    st['conv'] = conv
    return conv.validate(val)


def _verdict(path, accept, same_value):
    """Shared postcondition shape: in the validate stage, returns <=> accept, raising ValueError otherwise."""
    if path.state.get('stage') != 'validate':
        return None                      # declaration rejected by init: nothing claimed about validate
    if path.outcome == 'ret':
        return L.And(accept, same_value)
    if isinstance(path.value, ValueError):
        return L.Not(accept)
    return False                          # any other exception for a well-typed value


# ------------------------------------------------------------------ IntConverter
def _int_configs(tier):
    out = []
    for size in (None, 8, 16, 24, 32, 64):
        for unsigned in (False, True):
            for mn in ('none', 'int'):
                for mx in ('none', 'int'):
                    out.append(dict(size=size, unsigned=unsigned, min=mn, max=mx, uint64=True))
    out.append(dict(size=64, unsigned=True, min='int', max='int', uint64=False))
    return out


def _int_range(cfg):
    size = cfg['size'] or 32              # IntConverter.init: unsigned defaults to False (not None) => size None means 32
    if cfg['unsigned']: return 0, 2 ** size - 1
    return -(2 ** (size - 1)), 2 ** (size - 1) - 1


def _int_case(cfg, values):
    I = Inputs(values)
    kwargs = {}
    if cfg['size'] is not None: kwargs['size'] = cfg['size']
    if cfg['unsigned']: kwargs['unsigned'] = True
    if cfg['min'] == 'int': kwargs['min'] = I.int('min')
    if cfg['max'] == 'int': kwargs['max'] = I.int('max')
    val = I.int('val')
    conv = _new_converter(dp.IntConverter, int, uint64_support=cfg['uint64'])
    return Case(lambda: _stage_call(conv, dict(kwargs), val), I.terms, I.pre)


def _int_accept(cfg, i, path):
    lo, hi = _int_range(cfg)
    v = i['val']
    acc = L.And(v >= lo, v <= hi, True if 'min' not in i else v >= i['min'], True if 'max' not in i else v <= i['max'])
    return _verdict(path, acc, path.outcome != 'ret' or same(path.value, v))


def _int_decl(cfg, i, path):
    """init accepts a declaration iff its explicit bounds lie within the size range (so the range check above is the whole story)."""
    lo, hi = _int_range(cfg)
    ok = L.And(True if 'min' not in i else i['min'] >= lo, True if 'max' not in i else i['max'] <= hi)
    if cfg['size'] == 64 and cfg['unsigned'] and not cfg['uint64']:
        return path.state.get('stage') == 'init' and isinstance(path.value, TypeError)
    if path.state.get('stage') == 'init':
        return L.And(L.Not(ok), isinstance(path.value, ValueError))
    return ok


# ------------------------------------------------------------------ RealConverter
def _real_configs(tier):
    return [dict(min=a, max=b) for a in ('none', 'float') for b in ('none', 'float')]


def _real_case(cfg, values):
    I = Inputs(values)
    kwargs = {}
    for k in ('min', 'max'):
        if cfg[k] == 'float':
            x = I.float(k); kwargs[k] = x
            t = term(x)
            I.require(L.Not(z3.fpIsNaN(t)) if isinstance(t, z3.ExprRef) else t == t)
    val = I.float('val')
    conv = _new_converter(dp.RealConverter, float)
    return Case(lambda: _stage_call(conv, dict(kwargs), val), I.terms, I.pre)


def _flt(a, b):
    return z3.fpLT(a, b) if isinstance(a, z3.ExprRef) or isinstance(b, z3.ExprRef) else a < b


def _feq(a, b):
    if isinstance(a, z3.ExprRef) or isinstance(b, z3.ExprRef):
        return a == b      # structural (bit) equality of FP terms
    import math
    return (a == b and math.copysign(1, a) == math.copysign(1, b)) or (a != a and b != b)


def _real_accept(cfg, i, path):
    v = i['val']
    acc = L.And(True if 'min' not in i else L.Not(_flt(v, i['min'])), True if 'max' not in i else L.Not(_flt(i['max'], v)))
    return _verdict(path, acc, path.outcome != 'ret' or _feq(term(path.value), v))


# ------------------------------------------------------------------ DecimalConverter
def _dec_configs(tier):
    return [dict(min=a, max=b) for a in ('none', 'dec') for b in ('none', 'dec')]


def _dec_case(cfg, values):
    I = Inputs(values)
    kwargs = {}
    conv_ = (lambda fr: decimal.Decimal(fr.numerator) / decimal.Decimal(fr.denominator))
    for k in ('min', 'max'):
        if cfg[k] == 'dec': kwargs[k] = I.real(k, decimal.Decimal, conv_)
    val = I.real('val', decimal.Decimal, conv_)
    conv = _new_converter(dp.DecimalConverter, decimal.Decimal)
    real_Decimal = dp.Decimal

    def setup(run):
        # the only stub: Decimal(x) for x already a (symbolic) Decimal is x itself
        dp.Decimal = lambda x, *a: x if isinstance(x, SymReal) else real_Decimal(x, *a)

    def teardown(run):
        dp.Decimal = real_Decimal
    return Case(lambda: _stage_call(conv, dict(kwargs), val), I.terms, I.pre, setup, teardown)


def _dec_accept(cfg, i, path):
    v = i['val']
    acc = L.And(True if 'min' not in i else v >= i['min'], True if 'max' not in i else v <= i['max'])
    if path.outcome == 'ret':
        import fractions
        r = term(path.value)
        if isinstance(r, decimal.Decimal): r = fractions.Fraction(r)
        samev = same(r, v) if isinstance(v, z3.ExprRef) else r == v
    else:
        samev = True
    return _verdict(path, acc, samev)


# ------------------------------------------------------------------ StrConverter
def _str_configs(tier):
    out = []
    for max_len in ('none', 'int'):
        for autostrip in (True, False):
            for default_len in (None, 255):
                out.append(dict(type='str', max_len=max_len, autostrip=autostrip, provider_default=default_len))
    out.append(dict(type='LongStr', max_len='none', autostrip=True, provider_default=255))
    return out


def _str_case(cfg, values):
    I = Inputs(values)
    kwargs = {}
    if cfg['max_len'] == 'int':
        m = I.int('max_len'); kwargs['max_len'] = m; I.require(term(m) >= 1)
    if not cfg['autostrip']: kwargs['autostrip'] = False
    conv = _new_converter(dp.StrConverter, LongStr if cfg['type'] == 'LongStr' else str, vdml=cfg['provider_default'])
    if values is None:
        val = SymStr.sym('val')
        # ghost inputs: the two lengths the encoding leaves uninterpreted (so a counter-model names them)
        I.terms['len_val'] = z3.Int('len!val')
        I.terms['len_strip'] = z3.Int('len!strip(%s)' % val.key())
        I.require(I.terms['len_val'] >= 0); I.require(I.terms['len_strip'] >= 0)
        I.require(I.terms['len_strip'] <= I.terms['len_val'])
    else:
        lv, ls = int(values['len_val']), int(values['len_strip'])
        val = ' ' * (lv - ls) + 'x' * ls
        I.terms['len_val'] = lv; I.terms['len_strip'] = ls
    return Case(lambda: _stage_call(conv, dict(kwargs), val), I.terms, I.pre)


def _str_accept(cfg, i, path):
    if path.state.get('stage') != 'validate': return None
    limit = i.get('max_len')
    if limit is None and cfg['type'] == 'str': limit = cfg['provider_default']
    n_expected = i['len_strip'] if cfg['autostrip'] else i['len_val']        # length of the normalised value
    acc = True if limit is None else n_expected <= limit
    if path.outcome == 'ret':
        r = path.value
        if isinstance(r, SymStr):
            want_key = SymStr.sym('val').strip().key() if cfg['autostrip'] else SymStr.sym('val').key()
            samev = r.key() == want_key
        else:
            lv, ls = i['len_val'], i['len_strip']
            v = ' ' * (lv - ls) + 'x' * ls
            samev = r == (v.strip() if cfg['autostrip'] else v)
        return L.And(acc, samev)
    if isinstance(path.value, ValueError):
        return L.Not(acc)
    return False


# ------------------------------------------------------------------ Attribute.validate / Required.validate
def _attr_configs(tier):
    out = []
    for cls in ('Required', 'Optional'):
        for val in ('None', 'value', 'zero', 'false'):
            out.append(dict(cls=cls, val=val, check_kind='bool'))
            # a custom check is any callable: its result counts by truth value (re.match -> None, v % 2 -> 0, a function that falls off its end -> None ...)
            for kind in CHECK_RESULTS:
                if kind != 'bool': out.append(dict(cls=cls, val=val, check_kind=kind))
    return out


class _Truthy(object):
    def __bool__(self): return True
class _Falsy(object):
    def __bool__(self): return False
    def __eq__(self, other): return other is False       # even one that claims to be equal to False is just falsy
    __hash__ = object.__hash__
CHECK_RESULTS = {'bool': None, 'None': None, 'int 0': 0, 'int 1': 1, 'empty str': '', 'str': 'matched', 'empty list': [], 'float 0.0': 0.0, 'match object': _Truthy(), 'falsy object': _Falsy()}


def _attr_case(cfg, values):
    I = Inputs(values)
    flags = {k: I.bool(k) for k in ('nullable', 'auto', 'is_volatile', 'sql_default', 'has_check', 'check_result', 'converter_rejects')}
    cls = core.Required if cfg['cls'] == 'Required' else core.Optional

    def call():
        attr = object.__new__(cls)
        attr.nullable = flags['nullable']; attr.is_required = cfg['cls'] == 'Required'
        attr.auto = flags['auto']; attr.is_volatile = flags['is_volatile']
        attr.sql_default = flags['sql_default']
        attr.default = None; attr.reverse = None; attr.py_type = str; attr.name = 'x'
        attr.entity = Bag(__name__='E', _s='E')
        g = cur().ghost

        class Conv(object):
            def validate(self, val, obj=None):
                g.append(('converter.validate', val))
                if flags['converter_rejects']:
                    raise ValueError('rejected by the converter (contracted separately)')
                return val
        attr.converters = [Conv()]

        def py_check(v):
            g.append(('py_check', v))
            return flags['check_result'] if cfg['check_kind'] == 'bool' else CHECK_RESULTS[cfg['check_kind']]
        attr.py_check = py_check if flags['has_check'] else None
        val = {'None': None, 'value': 'v', 'zero': 0, 'false': False}[cfg['val']]
        cur().state['val'] = val
        return cls.validate(attr, val)
    return Case(call, I.terms, I.pre)


def _attr_spec(cfg, i, path):
    T = lambda k: i[k]
    conv_called = any(g[0] == 'converter.validate' for g in path.ghost)
    if cfg['val'] == 'None':
        if cfg['cls'] == 'Required':
            acc = L.Or(T('auto'), T('is_volatile'), T('sql_default'))
        else:
            acc = T('nullable')
        # None never reaches the converter or the check
        if conv_called: return False
        if path.outcome == 'ret':
            return L.And(acc, path.value is None)
        return L.And(L.Not(acc), isinstance(path.value, ValueError))
    # non-None value: converter decides, then the custom check; Required additionally rejects the empty string
    normalised = path.state['val']
    passed = T('check_result') if cfg['check_kind'] == 'bool' else bool(CHECK_RESULTS[cfg['check_kind']])
    acc = L.And(L.Not(T('converter_rejects')), L.Or(L.Not(T('has_check')), passed))
    if path.outcome == 'ret':
        ok_val = path.value is normalised
        return L.And(acc, ok_val, conv_called)
    return L.And(L.Not(acc), isinstance(path.value, ValueError))


def _attr_check_sees_normalised(cfg, i, path):
    checks = [g for g in path.ghost if g[0] == 'py_check']
    if not checks: return None
    return len(checks) == 1 and checks[0][1] is path.state['val']


def _req_empty_case(cfg, values):
    """Required.validate: an empty string coming back from the converter is rejected ('' is not a value for Required)."""
    I = Inputs(values)

    def call():
        attr = object.__new__(core.Required)
        attr.nullable = False; attr.is_required = True; attr.auto = False; attr.is_volatile = False; attr.sql_default = None
        attr.default = None; attr.reverse = None; attr.py_type = str; attr.name = 'x'; attr.py_check = None
        attr.entity = Bag(__name__='E', _s='E')

        class Conv(object):
            def validate(self, val, obj=None): return val.strip()
        attr.converters = [Conv()]
        return core.Required.validate(attr, cfg['val'])
    return Case(call, I.terms, I.pre)


def _req_empty_spec(cfg, i, path):
    if cfg['val'].strip() == '':
        return path.outcome == 'exc' and isinstance(path.value, ValueError)
    return path.outcome == 'ret' and path.value == cfg['val'].strip()


# ------------------------------------------------------------------ call sites reach attr.validate
def _sites_configs(tier):
    return [dict(site=s) for s in ('create', 'assign', 'set', 'get', 'exists', 'select_kw')]


def _sites_case(cfg, values):
    from contracts import harness as H
    from pony import orm
    M = H.model()

    def call():
        seen = []
        real = core.Attribute.validate

        def rec(attr, val, *a, **k):
            seen.append((attr.name, val))
            return real(attr, val, *a, **k)
        core.Attribute.validate = rec
        try:
            with orm.db_session:
                P = M.P
                site = cfg['site']
                if site == 'create':
                    P(name='n1', i=11, j=2)
                    want = ('i', 11)
                else:
                    p = P(name='n2', i=1, j=2)
                    seen[:] = []
                    if site == 'assign': p.i = 12; want = ('i', 12)
                    elif site == 'set': p.set(i=13); want = ('i', 13)
                    elif site == 'get': P.get(i=14); want = ('i', 14)
                    elif site == 'exists': P.exists(i=15); want = ('i', 15)
                    else: P.select(i=16)[:]; want = ('i', 16)
                orm.rollback()
            return want in seen
        finally:
            core.Attribute.validate = real
    return Case(call, {}, [])



# ------------------------------------------------------------------ the converters of the other attribute types: the value kept is of the DECLARED type (bounded value table)
import datetime as _dt, uuid as _uuid
_D, _DT, _T, _TD = _dt.date, _dt.datetime, _dt.time, _dt.timedelta
_U = _uuid.UUID('12345678-1234-5678-1234-567812345678')
REJECT = 'rejected'
TYPED = {
    # converter class name -> (declared type, [(candidate, expected normalised value or REJECT)]); precision-dependent entries are functions of the precision
    'DateConverter': (_D, [(_D(2020, 1, 2), _D(2020, 1, 2)), (_DT(2020, 1, 2, 3, 4, 5), _D(2020, 1, 2)), (_DT(2020, 1, 2), _D(2020, 1, 2)), ('2020-01-02', _D(2020, 1, 2)), (5, REJECT), (1.5, REJECT),
                           ([], REJECT), (_T(1, 2), REJECT), (b'2020-01-02', REJECT)]),
    'DatetimeConverter': (_DT, [(_DT(2020, 1, 2, 3, 4, 5, 123456), lambda p: _DT(2020, 1, 2, 3, 4, 5, 123456 // 10 ** (6 - p) * 10 ** (6 - p))), (_DT(2020, 1, 2), _DT(2020, 1, 2)),
                                (_D(2020, 1, 2), REJECT), ('2020-01-02 03:04:05', _DT(2020, 1, 2, 3, 4, 5)), (5, REJECT), (_T(1, 2), REJECT), (None.__class__, REJECT)]),
    'TimeConverter': (_T, [(_T(3, 4, 5, 123456), lambda p: _T(3, 4, 5, 123456 // 10 ** (6 - p) * 10 ** (6 - p))), (_T(0, 0), _T(0, 0)), ('03:04:05', _T(3, 4, 5)), (_DT(2020, 1, 2, 3, 4), REJECT), (5, REJECT),
                           (_TD(hours=1), REJECT)]),
    'TimedeltaConverter': (_TD, [(_TD(1, 2, 123456), lambda p: _TD(1, 2, 123456 // 10 ** (6 - p) * 10 ** (6 - p))), (_TD(0), _TD(0)), (_TD(-1, 5, 7), lambda p: _TD(-1, 5, 7 // 10 ** (6 - p) * 10 ** (6 - p))),
                                 (5, REJECT), (_T(1, 2), REJECT), (1.5, REJECT)]),
    'BoolConverter': (bool, [(True, True), (False, False), (1, True), (0, False), ('', False), ('x', True), ([], False), (None, False)]),
    'BlobConverter': (bytes, [(b'ab', b'ab'), (b'', b''), ('ab', REJECT), (5, REJECT), ([1], REJECT)]),
    'UuidConverter': (_uuid.UUID, [(_U, _U), (_U.bytes, _U), (_U.hex, _U), (str(_U), _U), (_U.int, _U), (1.5, REJECT), ([], REJECT)]),
}


def _ty_configs(tier):
    out = []
    for cname, (T, rows) in TYPED.items():
        precisions = (0, 3, 6) if cname in ('DatetimeConverter', 'TimeConverter', 'TimedeltaConverter') else (None,)
        for p in precisions:
            for k in range(len(rows)): out.append(dict(converter=cname, precision=p, row=k))
    return out


def _ty_case(cfg, values):
    def call():
        cls = getattr(dp, cfg['converter']); T, rows = TYPED[cfg['converter']]
        conv = object.__new__(cls)
        conv.attr = Bag(py_type=T, args=(), kwargs={}, name='x'); conv.provider = Bag(dialect='SQLite'); conv.py_type = T
        if cfg['precision'] is not None: conv.precision = cfg['precision']
        cand, want = rows[cfg['row']]
        if callable(want) and want is not REJECT: want = want(cfg['precision'])
        try: got = conv.validate(cand)
        except (TypeError, ValueError) as e: return 'rejected', None, want, None
        try: again = conv.validate(got)
        except (TypeError, ValueError): again = 'rejected the value it had accepted'
        return 'accepted', got, want, again
    return Case(call, {}, [])


def _ty_spec(cfg, i, path):
    if path.outcome != 'ret': return False
    verdict, got, want, again = path.value
    T = TYPED[cfg['converter']][0]
    if want is REJECT: return verdict == 'rejected'
    # accepted: the value kept has EXACTLY the declared type (a datetime is not a date value), is the documented normalisation, and validating it again changes nothing
    return verdict == 'accepted' and type(got) is T and got == want and type(again) is T and again == got


# ------------------------------------------------------------------ ArrayConverter.validate: the items of an array attribute have the declared item type
class _Idx(object):
    def __index__(self): return 4

_AR_ITEMS = {'ints': [1, 0, -7], 'ints with a bool': [1, True], 'strs': ['a', ''], 'floats': [1.5, -0.0], 'ints and floats': [1, 2.5], 'a str among ints': [1, 'x', 3], 'an int among strs': ['a', 5],
             'a float among ints': [1, 2.5], 'None inside': [1, None], 'an __index__ object': [_Idx()], 'an __index__ object among strs': ['a', _Idx()], 'empty': [], 'a nested list': [[1]], 'bytes': [b'a']}
_AR_GIVEN = ('plain list', 'tuple', 'tracked array of this attribute of this object', 'tracked array of another attribute of this object', 'tracked array of the same attribute of another object',
             'a single value that is not a sequence')


def _ar_configs(tier):
    return [dict(item_type=t, items=k, given=g, with_object=w) for t in ('int', 'str', 'float') for k in _AR_ITEMS for g in _AR_GIVEN for w in (True, False)
            if w or g in ('plain list', 'tuple', 'a single value that is not a sequence')]


class _ArObj(object):
    def __init__(self): self.changed = []
    def _attr_changed_(self, attr): self.changed.append(attr)


def _ar_case(cfg, values):
    def call():
        from pony.orm import ormtypes as ot
        T = {'int': int, 'str': str, 'float': float}[cfg['item_type']]
        AT = {int: ot.IntArray, str: ot.StrArray, float: ot.FloatArray}[T]
        attr = Bag(py_type=AT, name='this', args=(), kwargs={}, nullable=False); other_attr = Bag(py_type=AT, name='other', args=(), kwargs={}, nullable=False)
        conv = object.__new__(dp.ArrayConverter); conv.attr = attr; conv.py_type = AT; conv.provider = Bag(dialect='SQLite')
        conv.item_converter = dp.ArrayConverter.array_types[T][1]
        obj = _ArObj() if cfg['with_object'] else None; obj2 = _ArObj()
        items = list(_AR_ITEMS[cfg['items']]); g = cfg['given']
        if g == 'plain list': val = list(items)
        elif g == 'tuple': val = tuple(items)
        elif g == 'a single value that is not a sequence':
            if not items: return ('skipped',)
            val = items[0]; items = [val]
            if hasattr(val, '__len__') and not isinstance(val, str): return ('skipped',)
        else:
            owner, a = {'tracked array of this attribute of this object': (obj, attr), 'tracked array of another attribute of this object': (obj, other_attr),
                        'tracked array of the same attribute of another object': (obj2, attr)}[g]
            val = ot.TrackedArray.__new__(ot.TrackedArray); list.__init__(val, items); val.obj_ref = __import__('weakref').ref(owner); val.attr = a; val.item_type = T      # as if it had got there unvalidated
        st = cur().state; st.update(val=val, obj=obj, attr=attr, items=items, keep=(obj, obj2))
        try: got = conv.validate(val, obj)
        except TypeError: return ('rejected',)
        return ('accepted', got)
    return Case(call, {}, [])


def _ar_spec(cfg, i, path):
    if path.outcome != 'ret': return False
    r = path.value; st = path.state
    if r[0] == 'skipped': return True
    T = {'int': int, 'str': str, 'float': float}[cfg['item_type']]
    items = st['items']
    def ok(v):                                                       # the declared item type; an object with __index__ stands for its integer in a numeric array
        if T is str: return isinstance(v, str)
        if isinstance(v, (int, float) if T is float else int): return True
        return hasattr(v, '__index__')
    if cfg['given'] == 'tracked array of this attribute of this object':
        if r[0] == 'accepted' and r[1] is st['val']: return True      # the documented shortcut: the attribute's own array (obj.attr += [...]) was validated item by item when it was filled
    if not all(ok(v) for v in items): return r[0] == 'rejected'
    if r[0] != 'accepted': return False
    got = r[1]
    want = [v if isinstance(v, (int, float, str)) else v.__index__() for v in items]
    if list(got) != want or [type(a) for a in got] != [type(b) for b in want]: return False
    if st['obj'] is None: return type(got) is list
    # a tracked array of THIS attribute of THIS object, and a fresh one: not the container another attribute or another object holds
    return type(got).__name__ == 'TrackedArray' and got.attr is st['attr'] and got.obj_ref() is st['obj'] and got is not st['val']


from contracts import c08_rawkeys as RK

CONTRACTS = [
    Contract('IntConverter', ['pony.orm.dbapiprovider:IntConverter.init', 'pony.orm.dbapiprovider:IntConverter.validate'],
             _int_configs, _int_case, [('accepts_iff_within_declared_bounds', _int_accept), ('init_accepts_iff_bounds_fit_size', _int_decl)],
             allowed_exc=(ValueError, TypeError),
             doc='all (min, max in Z or None) x size x unsigned; every candidate int: accepted <=> within size range and min/max'),
    Contract('RealConverter', ['pony.orm.dbapiprovider:RealConverter.init', 'pony.orm.dbapiprovider:RealConverter.validate'],
             _real_configs, _real_case, [('accepts_iff_within_declared_bounds', _real_accept)], allowed_exc=(ValueError, TypeError),
             doc='IEEE-754 binary64 bounds and values incl. +-0.0, inf, NaN values'),
    Contract('DecimalConverter', ['pony.orm.dbapiprovider:DecimalConverter.init', 'pony.orm.dbapiprovider:DecimalConverter.validate'],
             _dec_configs, _dec_case, [('accepts_iff_within_declared_bounds', _dec_accept)], allowed_exc=(ValueError, TypeError),
             doc='exact real bounds and values'),
    Contract('StrConverter', ['pony.orm.dbapiprovider:StrConverter.init', 'pony.orm.dbapiprovider:StrConverter.validate'],
             _str_configs, _str_case, [('accepts_iff_within_max_len', _str_accept)], allowed_exc=(ValueError, TypeError),
             doc='any string (length and strip() uninterpreted, len(strip(s)) <= len(s)); max_len declared / provider default / CLOB'),
    Contract('Attribute.validate', ['pony.orm.core:Attribute.validate', 'pony.orm.core:Required.validate'],
             _attr_configs, _attr_case, [('nullability_requiredness_check', _attr_spec), ('check_sees_normalised_value', _attr_check_sees_normalised)],
             allowed_exc=(ValueError,), doc='decision table over nullable / auto / volatile / sql_default / custom check / converter verdict'),
    Contract('Required.validate.empty', ['pony.orm.core:Required.validate'], [dict(val=''), dict(val='  '), dict(val=' a ')],
             _req_empty_case, [('empty_after_normalisation_is_rejected', _req_empty_spec)], allowed_exc=(ValueError,)),
    Contract('validate.call_sites', ['pony.orm.core:Entity.__init__', 'pony.orm.core:Attribute.__set__', 'pony.orm.core:Entity.set',
                                     'pony.orm.core:EntityMeta.get', 'pony.orm.core:EntityMeta.exists', 'pony.orm.core:EntityMeta.select'],
             _sites_configs, _sites_case, [('reaches_attr_validate', lambda cfg, i, path: path.outcome == 'ret' and path.value is True)],
             doc='creation, assignment, set(), get(), exists(), select(**kw) each pass the value through attr.validate (ground)'),
    Contract('typed_converters.validate', ['pony.orm.dbapiprovider:DateConverter.validate', 'pony.orm.dbapiprovider:DatetimeConverter.validate', 'pony.orm.dbapiprovider:TimeConverter.validate',
                                           'pony.orm.dbapiprovider:TimedeltaConverter.validate', 'pony.orm.dbapiprovider:BoolConverter.validate', 'pony.orm.dbapiprovider:BlobConverter.validate',
                                           'pony.orm.dbapiprovider:UuidConverter.validate', 'pony.orm.dbapiprovider:ConverterWithMicroseconds.round_microseconds_to_precision'],
             _ty_configs, _ty_case, [('accepted_value_has_exactly_the_declared_type_and_the_documented_normal_form', _ty_spec)], level='bounded',
             bound='7 converters x 5 - 9 candidate values each (right type, subclass, text, wrong types) x precisions 0 / 3 / 6 where they apply'),
    Contract('ArrayConverter.validate', ['pony.orm.dbapiprovider:ArrayConverter.validate'], _ar_configs, _ar_case,
             [('items_have_the_declared_item_type_and_the_result_belongs_to_this_attribute', _ar_spec)]),
    Contract('raw_key_values_for_relationships', ['pony.orm.core:EntityMeta._get_by_raw_pkval_', 'pony.orm.core:Attribute.validate', 'pony.orm.core:EntityMeta._normalize_args_' if hasattr(core.EntityMeta, '_normalize_args_') else 'pony.orm.core:Attribute.validate'],
             RK.configs, RK.case, [('raw_key_validated_like_the_key_attribute_it_stands_for', RK.spec)], level='bounded', bound=RK.BOUND),
]
