"""Stub driver / framework modules, used ONLY so that the real dialect and integration modules of pony can be imported
in a sandbox without the third-party packages. No behaviour of the real packages is inferred from them."""
import sys, types

flask_request = None


def install_stub_modules():
    global flask_request
    if 'flask' not in sys.modules:
        try:
            import flask  # noqa
        except ImportError:
            m = types.ModuleType('flask')
            m.request = types.SimpleNamespace()
            sys.modules['flask'] = m
    flask_request = sys.modules['flask'].request
    if 'bottle' not in sys.modules:
        try:
            import bottle  # noqa
        except ImportError:
            m = types.ModuleType('bottle')

            class HTTPResponse(Exception):
                pass

            class HTTPError(HTTPResponse):
                pass
            m.HTTPResponse = HTTPResponse; m.HTTPError = HTTPError
            sys.modules['bottle'] = m


def _dbapi_module(name):
    """A module object with the PEP 249 exception hierarchy and nothing else."""
    m = types.ModuleType(name)

    class Warning(Exception): pass
    class Error(Exception): pgcode = None
    class InterfaceError(Error): pass
    class DatabaseError(Error): pass
    class DataError(DatabaseError): pass
    class OperationalError(DatabaseError): pass
    class IntegrityError(DatabaseError): pass
    class InternalError(DatabaseError): pass
    class ProgrammingError(DatabaseError): pass
    class NotSupportedError(DatabaseError): pass
    for k, v in list(locals().items()):
        if isinstance(v, type): setattr(m, k, v)
    m.paramstyle = 'pyformat'
    return m


def install_driver_stubs():
    """psycopg2 / pymysql / cx_Oracle stand-ins: PEP 249 exception classes + the names the dialect modules touch at import."""
    from unittest import mock
    if 'psycopg2' not in sys.modules:
        try:
            import psycopg2  # noqa
        except ImportError:
            m = _dbapi_module('psycopg2')
            ext = types.ModuleType('psycopg2.extensions'); extras = types.ModuleType('psycopg2.extras')
            for f in ('register_uuid', 'register_default_json', 'register_default_jsonb'):
                setattr(extras, f, lambda *a, **k: None)
            m.extensions = ext; m.extras = extras
            sys.modules.update({'psycopg2': m, 'psycopg2.extensions': ext, 'psycopg2.extras': extras})
    if 'pymysql' not in sys.modules and 'MySQLdb' not in sys.modules:
        try:
            import pymysql  # noqa
        except ImportError:
            m = _dbapi_module('pymysql')
            conv = types.ModuleType('pymysql.converters'); const = types.ModuleType('pymysql.constants')
            conv.escape_str = lambda s, *a: "'%s'" % s; conv.conversions = {}
            conv.encoders = {}; conv.decoders = {}
            const.FIELD_TYPE = mock.MagicMock(); const.FLAG = mock.MagicMock(); const.CLIENT = mock.MagicMock()
            m.converters = conv; m.constants = const
            sys.modules.update({'pymysql': m, 'pymysql.converters': conv, 'pymysql.constants': const})
    if 'cx_Oracle' not in sys.modules:
        try:
            import cx_Oracle  # noqa
        except ImportError:
            m = _dbapi_module('cx_Oracle')
            for k in ('LOB', 'STRING', 'NUMBER', 'FIXED_CHAR', 'TIMESTAMP', 'SessionPool', 'CLOB', 'BLOB', 'DATETIME', 'NATIVE_FLOAT'):
                setattr(m, k, mock.MagicMock(name=k))
            sys.modules['cx_Oracle'] = m
