"""Stub driver / framework modules, used ONLY so that the real dialect and integration modules of pony can be imported
in a sandbox without the third-party packages. No behaviour of the real packages is inferred from them."""
import sys, types

flask_request = None


def install_stub_modules():
    global flask_request
    if 'flask' not in sys.modules:
        try:
            import flask  # noqa
        except ImportError:
            m = types.ModuleType('flask')
            m.request = types.SimpleNamespace()
            sys.modules['flask'] = m
    flask_request = sys.modules['flask'].request
    if 'bottle' not in sys.modules:
        try:
            import bottle  # noqa
        except ImportError:
            m = types.ModuleType('bottle')

            class HTTPResponse(Exception):
                pass

            class HTTPError(HTTPResponse):
                pass
            m.HTTPResponse = HTTPResponse; m.HTTPError = HTTPError
            sys.modules['bottle'] = m


def install_driver_stubs():
    from unittest import mock
    for name in ('psycopg2', 'psycopg2.extensions', 'psycopg2.extras', 'MySQLdb', 'MySQLdb.converters', 'MySQLdb.constants',
                 'pymysql', 'pymysql.converters', 'pymysql.constants', 'cx_Oracle'):
        if name not in sys.modules:
            try:
                __import__(name)
            except ImportError:
                sys.modules[name] = mock.MagicMock(name=name)
