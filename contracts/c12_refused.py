"""C12 (bounded part): a delete() that is refused half way leaves both ends of every relationship as they were.

Deleting a Group first unlinks its students (Student.group is optional), clears its many-to-many tags and replaces its one-to-one desk, and only then finds out that the group
still has courses that cannot be unlinked (Course.group is required, cascade_delete is off): ConstraintError. Afterwards every student must still refer to the group AND the
group's collection must still hold every student (iteration, len, count, is_empty, membership), the same for the tags and the desk, in the session and after commit."""
import types
from vf.verify import Case
from pony import orm
from pony.orm import core

BOUND = 'one group with 0..3 students, 0..2 tags and a desk, blocked by 1 course; objects new / loaded with collections read / loaded with collections unread / only some collections read'
_M = None


def model():
    global _M
    if _M is None:
        db = orm.Database('sqlite', ':memory:')

        class Group(db.Entity):
            id = orm.PrimaryKey(int)
            students = orm.Set('Student')
            tags = orm.Set('Tag')
            desk = orm.Optional('Desk')
            courses = orm.Set('Course', cascade_delete=False)          # declared last: everything above is unlinked before the refusal

        class Student(db.Entity):
            id = orm.PrimaryKey(int)
            group = orm.Optional(Group)

        class Tag(db.Entity):
            id = orm.PrimaryKey(int)
            groups = orm.Set(Group)

        class Desk(db.Entity):
            id = orm.PrimaryKey(int)
            group = orm.Optional(Group)

        class Course(db.Entity):
            id = orm.PrimaryKey(int)
            group = orm.Required(Group)
        db.generate_mapping(create_tables=True)
        _M = types.SimpleNamespace(db=db, Group=Group, Student=Student, Tag=Tag, Desk=Desk, Course=Course)
    return _M


STATES = ('new objects', 'loaded, collections read', 'loaded, collections unread', 'loaded, only the students read', 'loaded, everything but the students read')


def configs(tier):
    return [dict(students=n, tags=t, desk=d, state=s) for n in (0, 1, 2, 3) for t in (0, 2) for d in (False, True) for s in STATES]


def _reset():
    try: orm.rollback()
    except Exception: pass
    core.local.db2cache.clear(); core.local.db_context_counter = 0; core.local.db_session = None


def case(cfg, values):
    def call():
        M = model(); bad = []; n, t = cfg['students'], cfg['tags']
        _reset()
        with orm.db_session:
            for tb in ('Course', 'Desk', 'Group_Tag', 'Student', 'Tag', 'Group'): M.db.execute('delete from "%s"' % tb)
            for i in (1, 2): M.db.execute('insert into Tag(id) values (%d)' % i)
            M.db.execute('insert into "Group"(id) values (2)'); M.db.execute('insert into Student(id, "group") values (9, 2)')          # bystanders
        try:
            with orm.db_session:
                if cfg['state'] == 'new objects':
                    g = M.Group(id=1); studs = [M.Student(id=i, group=g) for i in range(1, n + 1)]; tags = [M.Tag[i] for i in range(1, t + 1)]
                    for x in tags: g.tags.add(x)
                    desk = M.Desk(id=1, group=g) if cfg['desk'] else None
                    M.Course(id=1, group=g)
                else:
                    M.db.execute('insert into "Group"(id) values (1)')
                    for i in range(1, n + 1): M.db.execute('insert into Student(id, "group") values (%d, 1)' % i)
                    for i in range(1, t + 1): M.db.execute('insert into Group_Tag("group", tag) values (1, %d)' % i)
                    if cfg['desk']: M.db.execute('insert into Desk(id, "group") values (1, 1)')
                    M.db.execute('insert into Course(id, "group") values (1, 1)')
                    g = M.Group[1]; studs = [M.Student[i] for i in range(1, n + 1)]; tags = [M.Tag[i] for i in range(1, t + 1)]; desk = M.Desk[1] if cfg['desk'] else None
                    if cfg['state'] == 'loaded, collections read': list(g.students), list(g.tags), list(g.courses), g.desk
                    elif cfg['state'] == 'loaded, only the students read': list(g.students)
                    elif cfg['state'] == 'loaded, everything but the students read': list(g.tags), list(g.courses), g.desk
                other = M.Student[9]
                try: g.delete(); bad.append(('the delete of a group that still has courses was not refused',))
                except core.ConstraintError: pass
                for s in studs:
                    if s.group is not g: bad.append(('%r.group is %r after the refused delete' % (s, s.group),))
                got = sorted(s.id for s in g.students)
                if got != list(range(1, n + 1)): bad.append(('Group.students after the refused delete', got, 'before: %r' % list(range(1, n + 1))))
                if len(g.students) != n or g.students.count() != n or g.students.is_empty() != (n == 0): bad.append(('len / count / is_empty of Group.students', len(g.students), g.students.count(), g.students.is_empty(), n))
                if any(s not in g.students for s in studs) or other in g.students: bad.append(('membership in Group.students disagrees with Student.group',))
                if sorted(x.id for x in g.tags) != list(range(1, t + 1)): bad.append(('Group.tags after the refused delete', sorted(x.id for x in g.tags)))
                for x in tags:
                    if g not in x.groups: bad.append(('%r.groups lost the group' % x,))
                if (g.desk is not desk) or (desk is not None and desk.group is not g): bad.append(('Group.desk / Desk.group after the refused delete', g.desk, desk and desk.group))
                if sorted(c.id for c in g.courses) != [1]: bad.append(('Group.courses after the refused delete', sorted(c.id for c in g.courses)))
        except Exception as e:
            bad.append(('raises %s: %s' % (type(e).__name__, str(e)[:120]),))
        finally:
            _reset()
        if not bad:
            con = M.db.provider.pool.con
            rows = dict(students=sorted(r[0] for r in con.execute('select id from Student where "group" = 1')), tags=sorted(r[0] for r in con.execute('select tag from Group_Tag where "group" = 1')),
                        desk=[r[0] for r in con.execute('select id from Desk where "group" = 1')], groups=sorted(r[0] for r in con.execute('select id from "Group"')))
            want = dict(students=list(range(1, n + 1)), tags=list(range(1, t + 1)), desk=[1] if cfg['desk'] else [], groups=[1, 2])
            if rows != want: bad.append(('committed rows', rows, 'expected %r' % want))
        return bad[:4]
    return Case(call, {}, [], lambda r: _reset(), lambda r: _reset())


def spec(cfg, i, path):
    return path.outcome == 'ret' and path.value == []
