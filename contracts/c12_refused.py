"""C12 (bounded part): a delete() that is refused half way leaves both ends of every relationship as they were.

Deleting a Group first unlinks its students (Student.group is optional), clears its many-to-many tags and replaces its one-to-one desk, and only then finds out that the group
still has courses that cannot be unlinked (Course.group is required, cascade_delete is off): ConstraintError. Afterwards every student must still refer to the group AND the
group's collection must still hold every student (iteration, len, count, is_empty, membership), the same for the tags and the desk, in the session and after commit."""
import types
from vf.verify import Case
from pony import orm
from pony.orm import core

BOUND = 'one group with 0..3 students, 0..2 tags and a desk, blocked by 1 course; objects new / loaded with collections read / loaded with collections unread / only some collections read'
_M = None


def model():
    global _M
    if _M is None:
        db = orm.Database('sqlite', ':memory:')

        class Group(db.Entity):
            id = orm.PrimaryKey(int)
            students = orm.Set('Student')
            tags = orm.Set('Tag')
            desk = orm.Optional('Desk')
            courses = orm.Set('Course', cascade_delete=False)          # declared last: everything above is unlinked before the refusal

        class Student(db.Entity):
            id = orm.PrimaryKey(int)
            group = orm.Optional(Group)

        class Tag(db.Entity):
            id = orm.PrimaryKey(int)
            groups = orm.Set(Group)

        class Desk(db.Entity):
            id = orm.PrimaryKey(int)
            group = orm.Optional(Group)

        class Course(db.Entity):
            id = orm.PrimaryKey(int)
            group = orm.Required(Group)
        db.generate_mapping(create_tables=True)
        _M = types.SimpleNamespace(db=db, Group=Group, Student=Student, Tag=Tag, Desk=Desk, Course=Course)
    return _M


STATES = ('new objects', 'loaded, collections read', 'loaded, collections unread', 'loaded, only the students read', 'loaded, everything but the students read')


def configs(tier):
    return [dict(students=n, tags=t, desk=d, state=s) for n in (0, 1, 2, 3) for t in (0, 2) for d in (False, True) for s in STATES]


def _reset():
    try: orm.rollback()
    except Exception: pass
    core.local.db2cache.clear(); core.local.db_context_counter = 0; core.local.db_session = None


def case(cfg, values):
    def call():
        M = model(); bad = []; n, t = cfg['students'], cfg['tags']
        _reset()
        with orm.db_session:
            for tb in ('Course', 'Desk', 'Group_Tag', 'Student', 'Tag', 'Group'): M.db.execute('delete from "%s"' % tb)
            for i in (1, 2): M.db.execute('insert into Tag(id) values (%d)' % i)
            M.db.execute('insert into "Group"(id) values (2)'); M.db.execute('insert into Student(id, "group") values (9, 2)')          # bystanders
        try:
            with orm.db_session:
                if cfg['state'] == 'new objects':
                    g = M.Group(id=1); studs = [M.Student(id=i, group=g) for i in range(1, n + 1)]; tags = [M.Tag[i] for i in range(1, t + 1)]
                    for x in tags: g.tags.add(x)
                    desk = M.Desk(id=1, group=g) if cfg['desk'] else None
                    M.Course(id=1, group=g)
                else:
                    M.db.execute('insert into "Group"(id) values (1)')
                    for i in range(1, n + 1): M.db.execute('insert into Student(id, "group") values (%d, 1)' % i)
                    for i in range(1, t + 1): M.db.execute('insert into Group_Tag("group", tag) values (1, %d)' % i)
                    if cfg['desk']: M.db.execute('insert into Desk(id, "group") values (1, 1)')
                    M.db.execute('insert into Course(id, "group") values (1, 1)')
                    g = M.Group[1]; studs = [M.Student[i] for i in range(1, n + 1)]; tags = [M.Tag[i] for i in range(1, t + 1)]; desk = M.Desk[1] if cfg['desk'] else None
                    if cfg['state'] == 'loaded, collections read': list(g.students), list(g.tags), list(g.courses), g.desk
                    elif cfg['state'] == 'loaded, only the students read': list(g.students)
                    elif cfg['state'] == 'loaded, everything but the students read': list(g.tags), list(g.courses), g.desk
                other = M.Student[9]
                try: g.delete(); bad.append(('the delete of a group that still has courses was not refused',))
                except core.ConstraintError: pass
                for s in studs:
                    if s.group is not g: bad.append(('%r.group is %r after the refused delete' % (s, s.group),))
                got = sorted(s.id for s in g.students)
                if got != list(range(1, n + 1)): bad.append(('Group.students after the refused delete', got, 'before: %r' % list(range(1, n + 1))))
                if len(g.students) != n or g.students.count() != n or g.students.is_empty() != (n == 0): bad.append(('len / count / is_empty of Group.students', len(g.students), g.students.count(), g.students.is_empty(), n))
                if any(s not in g.students for s in studs) or other in g.students: bad.append(('membership in Group.students disagrees with Student.group',))
                if sorted(x.id for x in g.tags) != list(range(1, t + 1)): bad.append(('Group.tags after the refused delete', sorted(x.id for x in g.tags)))
                for x in tags:
                    if g not in x.groups: bad.append(('%r.groups lost the group' % x,))
                if (g.desk is not desk) or (desk is not None and desk.group is not g): bad.append(('Group.desk / Desk.group after the refused delete', g.desk, desk and desk.group))
                if sorted(c.id for c in g.courses) != [1]: bad.append(('Group.courses after the refused delete', sorted(c.id for c in g.courses)))
        except Exception as e:
            bad.append(('raises %s: %s' % (type(e).__name__, str(e)[:120]),))
        finally:
            _reset()
        if not bad:
            con = M.db.provider.pool.con
            rows = dict(students=sorted(r[0] for r in con.execute('select id from Student where "group" = 1')), tags=sorted(r[0] for r in con.execute('select tag from Group_Tag where "group" = 1')),
                        desk=[r[0] for r in con.execute('select id from Desk where "group" = 1')], groups=sorted(r[0] for r in con.execute('select id from "Group"')))
            want = dict(students=list(range(1, n + 1)), tags=list(range(1, t + 1)), desk=[1] if cfg['desk'] else [], groups=[1, 2])
            if rows != want: bad.append(('committed rows', rows, 'expected %r' % want))
        return bad[:4]
    return Case(call, {}, [], lambda r: _reset(), lambda r: _reset())


def spec(cfg, i, path):
    return path.outcome == 'ret' and path.value == []


# ------------------------------------------------------------------ symmetric relationships, the object itself included
BOUND_SYM = 'spouse = Optional(Person, reverse=spouse) and friends = Set(Person, reverse=friends) over 3 persons; every sequence of <= 3 operations out of 16 (the object itself among the operands); objects preloaded or not'
_S = None


def sym_model():
    global _S
    if _S is None:
        db = orm.Database('sqlite', ':memory:')

        class Person(db.Entity):
            id = orm.PrimaryKey(int)
            spouse = orm.Optional('Person', reverse='spouse')
            friends = orm.Set('Person', reverse='friends')
        db.generate_mapping(create_tables=True)
        _S = types.SimpleNamespace(db=db, Person=Person)
    return _S


SYM_OPS = [('spouse', a, b) for a in (1, 2, 3) for b in (1, 2, None) if not (a == 3 and b is None)] + [('friend', 1, 1), ('friend', 1, 2), ('friend', 2, 3), ('unfriend', 1, 1), ('unfriend', 2, 1), ('unfriend', 3, 2), ('friends=', 1, (1, 3)), ('friends=', 2, ())]


def sym_configs(tier):
    import itertools
    return [dict(first=repr(op), preload=pl) for op in SYM_OPS for pl in (True, False)]


def sym_case(cfg, values):
    import itertools
    def call():
        M = sym_model(); P = M.Person; bad = []
        first = next(o for o in SYM_OPS if repr(o) == cfg['first'])
        seqs = [(first,)] + [(first, b) for b in SYM_OPS] + [(first, b, c) for b in SYM_OPS[::2] for c in SYM_OPS[1::3]]
        for seq in seqs:
            _reset()
            with orm.db_session:
                M.db.execute('delete from Person_friends') if False else None
                for t in M.db.provider.pool.con.execute("select name from sqlite_master where type='table'").fetchall():
                    M.db.execute('delete from "%s"' % t[0])
                M.db.execute('insert into Person(id, spouse) values (1, null), (2, 3), (3, 2)')
                link = [t[0] for t in M.db.provider.pool.con.execute("select name from sqlite_master where type='table' and name <> 'Person'").fetchall()][0]
                cols = [r[1] for r in M.db.provider.pool.con.execute('PRAGMA table_info("%s")' % link).fetchall()]
                M.db.execute('insert into "%s"(%s, %s) values (2, 3), (3, 2)' % (link, cols[0], cols[1]))
            spouse = {1: None, 2: 3, 3: 2}; friends = {1: set(), 2: {3}, 3: {2}}
            try:
                with orm.db_session:
                    if cfg['preload']:
                        for p in P.select(): p.spouse, list(p.friends)
                    for kind, a, b in seq:
                        if kind == 'spouse':
                            P[a].spouse = None if b is None else P[b]
                            old = spouse[a]
                            if old is not None and old != a: spouse[old] = None
                            if b is not None:
                                ob = spouse[b]
                                if ob is not None and ob != b: spouse[ob] = None
                                spouse[b] = a
                            spouse[a] = b
                        elif kind == 'friend': P[a].friends.add(P[b]); friends[a].add(b); friends[b].add(a)
                        elif kind == 'unfriend': P[a].friends.remove(P[b]); friends[a].discard(b); friends[b].discard(a)
                        else:
                            P[a].friends = [P[x] for x in b]
                            for x in list(friends[a]): friends[x].discard(a)
                            friends[a] = set(b)
                            for x in b: friends[x].add(a)
                    got_s = {p.id: getattr(p.spouse, 'id', None) for p in P.select()}; got_f = {p.id: {x.id for x in p.friends} for p in P.select()}
                    if got_s != spouse: bad.append((' ; '.join(map(repr, seq)), 'spouses in the session: %r' % got_s, 'links made: %r' % spouse))
                    if got_f != friends: bad.append((' ; '.join(map(repr, seq)), 'friends in the session: %r' % got_f, 'links made: %r' % friends))
                with orm.db_session:
                    got_s = {p.id: getattr(p.spouse, 'id', None) for p in P.select()}; got_f = {p.id: {x.id for x in p.friends} for p in P.select()}
                    if got_s != spouse or got_f != friends: bad.append((' ; '.join(map(repr, seq)), 'after commit: %r %r' % (got_s, got_f), 'links made: %r %r' % (spouse, friends)))
            except Exception as e:
                bad.append((' ; '.join(map(repr, seq)), 'raises %s: %s' % (type(e).__name__, str(e)[:100])))
            finally:
                _reset()
            if len(bad) >= 3: break
        return bad[:3]
    return Case(call, {}, [], lambda r: _reset(), lambda r: _reset())
