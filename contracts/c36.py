"""C36 A forked process never uses its parent's database connection (DESIGN 4-C36)."""
import z3, sqlite3, os
from vf.verify import Contract, Case
from vf.inputs import Inputs, term, same
from vf import logic as L
from vf.explore import cur
from vf.effects import note, effect, Fault, ok
from contracts import stubs
stubs.install_driver_stubs()
from pony.orm import core, dbapiprovider as dp
from pony.orm.dbproviders import sqlite as sq, postgres as pg, oracle as ora
import psycopg2, cx_Oracle
_STORE_TYPE = type(dp.Pool.forked_connections)          # the keep-alive store of the code under test (a list of pairs on the pinned tree): the harness empties it, it does not choose its type

META = dict(
    level='proof',
    explanation='per call of Pool.connect (as inherited by SQLitePool and PGPool) and OraPool.connect, for ALL recorded / current process ids: a connection '
                'recorded under another pid is never returned and receives no call; it is parked; the pool records the current pid',
    trusted_base=['os.getpid() / os.getppid() are effects returning arbitrary integers', 'dbapi connect() / cx_Oracle.SessionPool() are stubs creating fresh recording objects'],
    assumptions=['a fork INSIDE an open session (child inherits cache.connection) is outside what connect() can guarantee: not covered',
                 'visibility of committed data between the processes is the database\'s contract'],
)


class RecCon(object):
    """Recording connection / session pool: any attribute access is an observable use."""
    def __init__(self, name):
        object.__setattr__(self, '_name', name); object.__setattr__(self, '_uses', [])

    def __getattr__(self, k):
        self._uses.append(k)
        return lambda *a, **kw: RecCon(self._name + '.' + k)

    def __setattr__(self, k, v):
        self._uses.append('set ' + k)


def _pool_configs(tier):
    return [dict(pool=k, has_con=h, pid_known=pk) for k in ('Pool', 'SQLitePool', 'PGPool') for h in (True, False) for pk in (True, False)
            if not (h and not pk)]


def _pool_case(cfg, values):
    I = Inputs(values)
    p0 = I.int('recorded_pid') if cfg['pid_known'] else None
    p1 = I.int('current_pid')
    pp = I.int('parent_pid')                        # os.getppid() is an arbitrary integer too (the unchanged code never asks; a replay must not depend on the checker's own parent)
    real_getpid = dp.os.getpid; real_getppid = dp.os.getppid

    def setup(run):
        dp.os.getpid = lambda: (note('getpid'), p1)[1]
        dp.os.getppid = lambda: (note('getppid'), pp)[1]
        dp.Pool.forked_connections = _STORE_TYPE()

    def teardown(run):
        dp.os.getpid = real_getpid; dp.os.getppid = real_getppid
        dp.Pool.forked_connections = _STORE_TYPE()

    def call():
        st = cur().state
        if cfg['pool'] == 'Pool': pool = dp.Pool(sqlite3)
        elif cfg['pool'] == 'SQLitePool': pool = sq.SQLitePool(False, ':memory:', False)
        else: pool = pg.PGPool(psycopg2)
        parent = RecCon('parent') if cfg['has_con'] else None
        pool.con = parent; pool.pid = p0
        fresh = RecCon('fresh')

        def _connect():
            effect('_connect', (Fault,))()          # opening the child's own connection may fail (transient driver error)
            pool.con = fresh
        pool._connect = _connect
        st.update(pool=pool, parent=parent, fresh=fresh)
        try:
            r = pool.connect()
        except Fault:
            note('retry')
            r = pool.connect()                      # the application retries
        st['forked'] = dp.Pool.forked_connections
        return r
    return Case(call, I.terms, I.pre, setup, teardown)


def _pool_spec(cfg, i, path):
    st = path.state
    pool, parent, fresh = st['pool'], st['parent'], st['fresh']
    if path.outcome == 'exc' and isinstance(path.value, Fault):
        # both attempts failed: still, the parent's connection must be untouched and not reachable through the pool
        pool, parent = st['pool'], st['parent']
        if not cfg['has_con']: return True
        differs = L.Not(L.Eq(i['recorded_pid'], i['current_pid']))
        return L.Implies(differs, parent._uses == [] and pool.con is not parent)
    con, is_new = path.value
    connected = bool(ok(path.ghost, '_connect'))
    pid_recorded = same(pool.pid, i['current_pid'])
    if not cfg['has_con']:
        return con is fresh and is_new is True and connected and pid_recorded
    differs = L.Not(L.Eq(i['recorded_pid'], i['current_pid']))
    forked_case = (con is fresh and is_new is True and connected and parent._uses == [] and pid_recorded
                   and _holds(st['forked'], parent))
    same_case = (con is parent and is_new is False and not connected and len(st['forked']) == 0 and parent._uses == [])
    return L.ite(differs, forked_case, same_case)


def _ora_case(cfg, values):
    I = Inputs(values)
    p0 = I.int('recorded_pid'); p1 = I.int('current_pid'); pp = I.int('parent_pid')
    real_getpid = ora.os.getpid; real_getppid = ora.os.getppid
    real_sp = cx_Oracle.SessionPool

    def setup(run):
        ora.os.getpid = lambda: (note('getpid'), p1)[1]
        ora.os.getppid = lambda: (note('getppid'), pp)[1]
        ora.OraPool.forked_pools = []
        cx_Oracle.SessionPool = lambda **kw: (effect('SessionPool()', (Fault,))(), RecCon('fresh_pool'))[1]

    def teardown(run):
        ora.os.getpid = real_getpid; ora.os.getppid = real_getppid
        ora.OraPool.forked_pools = []
        cx_Oracle.SessionPool = real_sp

    def call():
        st = cur().state
        pool = object.__new__(ora.OraPool)
        pool.kwargs = {}
        parent = RecCon('parent_pool')
        pool.cx_pool = parent; pool.pid = p0
        st.update(pool=pool, parent=parent)
        try:
            r = pool.connect()
        except Fault:
            note('retry')
            r = pool.connect()                      # the application retries after a transient failure
        st['forked'] = list(ora.OraPool.forked_pools)
        return r
    return Case(call, I.terms, I.pre, setup, teardown)


def _ora_spec(cfg, i, path):
    st = path.state
    pool, parent = st['pool'], st['parent']
    differs = L.Not(L.Eq(i['recorded_pid'], i['current_pid']))
    if path.outcome == 'exc':
        return L.And(isinstance(path.value, Fault), L.Implies(differs, parent._uses == []))
    con, is_new = path.value
    created = bool(ok(path.ghost, 'SessionPool()'))
    forked_case = (created and pool.cx_pool is not parent and parent._uses == [] and same(pool.pid, i['current_pid'])
                   and any(c is parent for c, _ in st['forked']) and con._name.startswith('fresh_pool'))
    same_case = (not created and pool.cx_pool is parent and parent._uses == ['acquire'] and st['forked'] == [])
    return L.ite(differs, forked_case, same_case)


# ------------------------------------------------------------------ several pools in one child: every inherited connection stays parked (alive, unused) for the life of the child
def _holds(store, x, depth=0):
    """is object x reachable from the keep-alive store (a list of pairs on the pinned tree; any nesting of list / tuple / set / dict is accepted)"""
    if store is x: return True
    if depth > 4: return False
    if isinstance(store, dict): return any(_holds(k, x, depth + 1) or _holds(v, x, depth + 1) for k, v in store.items())
    if isinstance(store, (list, tuple, set, frozenset)): return any(_holds(v, x, depth + 1) for v in store)
    return False


def _many_configs(tier):
    import itertools
    out = []
    for n in (1, 2, 3):
        for owners in itertools.product(('parent', 'grandparent', 'this process'), repeat=n):
            for kinds in (('Pool',) * n, ('SQLitePool', 'Pool', 'PGPool')[:n]):
                for twice in (False, True):
                    out.append(dict(owners=' '.join(owners), kinds=' '.join(kinds), connect_twice=twice))
    return list({repr(sorted(c.items())): c for c in out}.values())


def _many_case(cfg, values):
    PID = {'parent': 100, 'grandparent': 50, 'this process': 200}
    real_getpid = dp.os.getpid; saved = {}

    def setup(run):
        dp.os.getpid = lambda: 200
        saved['store'] = dp.Pool.forked_connections
        dp.Pool.forked_connections = _STORE_TYPE()                   # the store of the code under test, empty

    def teardown(run):
        dp.os.getpid = real_getpid
        dp.Pool.forked_connections = saved['store']

    def call():
        st = cur().state; pools = []; inherited = []; own = []
        for k, (owner, kind) in enumerate(zip(cfg['owners'].split(' ') if False else cfg['owners'].replace('this process', 'this_process').split(' '), cfg['kinds'].split(' '))):
            owner = owner.replace('_', ' ')
            if kind == 'Pool': pool = dp.Pool(sqlite3)
            elif kind == 'SQLitePool': pool = sq.SQLitePool(False, ':memory:', False)
            else: pool = pg.PGPool(psycopg2)
            con = RecCon('%s-con-%d' % (owner, k)); pool.con = con; pool.pid = PID[owner]
            fresh = RecCon('fresh-%d' % k)
            pool._connect = (lambda pool=pool, fresh=fresh: setattr(pool, 'con', fresh))
            pools.append(pool); (own if owner == 'this process' else inherited).append((pool, con, fresh))
        results = []
        for rnd in range(2 if cfg['connect_twice'] else 1):
            for pool in pools: results.append(pool.connect())
        st.update(inherited=inherited, own=own, results=results, store=dp.Pool.forked_connections, pools=pools)
        return 'done'
    return Case(call, {}, [], setup, teardown)


def _many_spec(cfg, i, path):
    if path.outcome != 'ret': return False
    st = path.state
    for pool, con, fresh in st['inherited']:
        if con._uses != []: return False                               # never touched in this process
        if not _holds(st['store'], con): return False                  # and kept alive: dropping the last reference would finalise (close) the parent's connection here
        if pool.con is not fresh or pool.pid != 200: return False
    for pool, con, fresh in st['own']:
        if pool.con is not con or _holds(st['store'], con): return False
    n = len(st['pools'])
    for k, (c, is_new) in enumerate(st['results']):
        pool = st['pools'][k % n]
        if c is not pool.con: return False
    return True


# ------------------------------------------------------------------ Pool.disconnect (Database.disconnect() in the child, e.g. as the first thing after a fork)
def _dis_configs(tier):
    return [dict(pool=k, has_con=h) for k in ('Pool', 'SQLitePool', 'PGPool') for h in (True, False)]


def _dis_case(cfg, values):
    I = Inputs(values)
    p0 = I.int('recorded_pid'); p1 = I.int('current_pid')
    real_getpid = dp.os.getpid

    def setup(run):
        dp.os.getpid = lambda: (note('getpid'), p1)[1]
        dp.Pool.forked_connections = _STORE_TYPE()

    def teardown(run):
        dp.os.getpid = real_getpid
        dp.Pool.forked_connections = _STORE_TYPE()

    def call():
        st = cur().state
        if cfg['pool'] == 'Pool': pool = dp.Pool(sqlite3)
        elif cfg['pool'] == 'SQLitePool': pool = sq.SQLitePool(False, '/some/file.sqlite', False)
        else: pool = pg.PGPool(psycopg2)
        con = RecCon('recorded') if cfg['has_con'] else None
        pool.con = con; pool.pid = p0 if cfg['has_con'] else None
        st.update(pool=pool, con=con)
        pool.disconnect()
        st['forked'] = dp.Pool.forked_connections
        return 'done'
    return Case(call, I.terms, I.pre, setup, teardown)


def _dis_spec(cfg, i, path):
    if path.outcome != 'ret': return False
    st = path.state; pool, con = st['pool'], st['con']
    if pool.con is not None: return False                                   # the pool lets go of the connection in every case
    if con is None: return len(st['forked']) == 0
    differs = L.Not(L.Eq(i['recorded_pid'], i['current_pid']))
    other_process = con._uses == [] and _holds(st['forked'], con)           # not closed, not rolled back: parked alive
    own = con._uses == ['close'] and len(st['forked']) == 0
    return L.ite(differs, other_process, own)


CONTRACTS = [
    Contract('Pool.connect', ['pony.orm.dbapiprovider:Pool.connect'], _pool_configs, _pool_case,
             [('never_returns_or_touches_a_connection_of_another_process', _pool_spec)], allowed_exc=(Fault,),
             doc='all integer pids (symbolic); SQLitePool and PGPool inherit connect'),
    Contract('Pool.connect.several_pools', ['pony.orm.dbapiprovider:Pool.connect'], _many_configs, _many_case,
             [('every_inherited_connection_stays_parked_alive_and_unused', _many_spec)], level='bounded',
             bound='1..3 pools (Pool / SQLitePool / PGPool) whose connections were opened by the parent, the grandparent or this process; each pool connected once or twice; concrete process ids'),
    Contract('Pool.disconnect', ['pony.orm.dbapiprovider:Pool.disconnect'], _dis_configs, _dis_case,
             [('closes_its_own_connection_and_parks_a_connection_of_another_process', _dis_spec)], doc='all integer pids (symbolic); file-backed SQLitePool and PGPool inherit disconnect'),
    Contract('OraPool.connect', ['pony.orm.dbproviders.oracle:OraPool.connect'], [dict()], _ora_case,
             [('never_uses_the_session_pool_of_another_process', _ora_spec)], allowed_exc=(Fault,),
             doc='creating the child\'s own session pool may fail; the application retries once'),
]
