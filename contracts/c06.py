"""C06 Values reach the database unchanged: parameters, literals and identifiers (DESIGN 4-C06, 2.6)."""
import itertools, re, z3
from vf.verify import Contract, Case
from vf.explore import cur
from vf.proxy import SymStr
from vf import strhom as SH, logic as L
from contracts import stubs, harness as H
stubs.install_driver_stubs()
from pony.orm import sqlbuilding as sb, dbapiprovider as dp, sqltranslation as st
from pony.orm.dbproviders import sqlite as sq, postgres as pg, mysql as my, oracle as ora

META = dict(
    level='proof',
    explanation='the real quoting functions are run on a symbolic string; their result is prefix + Hom(replace-chain, s) + suffix; the per-character '
                'local conditions "lexer(step) reads h(c) back as c" are discharged by z3 for every character class incl. a symbolic "any other '
                'character" and symbolic lookahead; lean/StrHom.lean (decodes_enc, enc_injective\') lifts them to ALL strings',
    trusted_base=['lean/StrHom.lean checked by Lean 4.33 in setup.sh', 'str.replace with a one-character needle is a char-wise homomorphism',
                  'reference lexers of vf/strhom.py: SQL standard literal / quoted identifier (validated against sqlite3 every run), MySQL default-mode '
                  'backslash escapes (manual 9.1.1; assumed), DB-API format/pyformat percent pass (%% -> %), LIKE tokenizer with escape character '
                  '(validated against sqlite3 every run), default LIKE escape: none on SQLite/Oracle, backslash on PostgreSQL/MySQL (manuals; assumed)',
                  'SQL REPLACE(x, a, b) with a one-character a equals Python str.replace'],
    assumptions=['text following a literal in generated SQL does not start with the quote character',
                 'placeholder layout (make_param / adapter) is BOUNDED: <= 4 PARAM occurrences, every partition into keys',
                 'non-string literal forms (numbers, dates, intervals, bytes) are covered only for their string part (date/datetime quoting)'],
)


def startup(rep, tier):
    rep.extra['sql_literal_lexer_validated_vs_sqlite3'] = SH.selfcheck_sqlite_literals(3 if tier == 'quick' else 5)
    rep.extra['like_tokenizer_validated_vs_sqlite3'] = SH.selfcheck_sqlite_like(2 if tier == 'quick' else 3)
    import subprocess, os
    lean = os.path.join(os.path.dirname(os.path.dirname(os.path.abspath(__file__))), 'lean')
    r = subprocess.run(['lean', 'StrHom.lean'], cwd=lean, capture_output=True, text=True)
    rep.extra['lean_StrHom'] = 'checked' if r.returncode == 0 else 'FAILED: ' + (r.stdout + r.stderr)[-400:]
    if r.returncode != 0:
        rep.errors.append('lean/StrHom.lean does not check: ' + (r.stdout + r.stderr)[-400:])
    if tier == 'thorough':
        r2 = subprocess.run('lean -o StrHom.olean StrHom.lean && leanchecker StrHom 2>&1 | tail -2', shell=True, cwd=lean, capture_output=True, text=True)
        rep.extra['leanchecker'] = (r2.stdout + r2.stderr).strip()[-200:]


OTHER = 'other'
o, d0, d1 = z3.Int('o'), z3.Int('d0'), z3.Int('d1')      # any other character; lookahead


def _img(chain, c):
    """image of class c under the chain, as code points"""
    if c == OTHER:
        return [o]
    return [ord(x) for x in SH.apply_chain(chain, c)]


def _cp(c): return o if c == OTHER else ord(c)


def _other_pre(specials):
    return [o >= 0, o <= 0x10FFFF] + [o != ord(x) for x in specials] + [d0 >= -1, d1 >= -1, z3.Implies(d0 == -1, d1 == -1)]


# ------------------------------------------------------------------ string literals: Value.__str__ / quote_str
VALUE_CLASSES = {'Value(generic/Oracle)': (sb.Value, 'std'), 'SQLiteValue': (sq.SQLiteValue, 'std'), 'PGValue': (pg.PGValue, 'std'),
                 'MySQLValue': (my.MySQLValue, 'mysql')}
STYLES = ['qmark', 'numeric', 'named', 'format', 'pyformat']
LIT_CLASSES = ["'", '%', '\\', OTHER]


def _lit_configs(tier):
    return [dict(cls=k, style=s) for k in VALUE_CLASSES for s in STYLES]


def _lit_case(cfg, values):
    cls, _ = VALUE_CLASSES[cfg['cls']]
    if values is None:
        s = SymStr.sym('s')
    else:
        s = values.get('s', '')
    return Case(lambda: cls(cfg['style'], s).__str__(), {'o': o, 'd0': d0, 'd1': d1}, _other_pre("'%\\"))


def _lit_lexer(cfg):
    return SH.mysql_string_lexer() if VALUE_CLASSES[cfg['cls']][1] == 'mysql' else SH.sql_string_lexer("'")


def _lit_shape(cfg, i, path):
    if path.outcome != 'ret': return False
    nf = SH.normal_form(path.value, 's')
    return nf is not None and nf[0] == "'" and nf[2] == "'"


def _lit_local(c):
    def clause(cfg, i, path):
        if path.outcome != 'ret': return None
        nf = SH.normal_form(path.value, 's')
        if nf is None: return None
        chain = nf[1]
        image = _img(chain, c)
        if cfg['style'] in ('format', 'pyformat'):
            # the driver's %-formatting pass reads the statement first: %% -> %, a lone % would start a placeholder
            if c == OTHER:
                pass
            else:
                okp, dec = SH.percent_pass(''.join(map(chr, image)))
                if not okp: return False
                image = [ord(x) for x in dec]
        return SH.local_condition(_lit_lexer(cfg), image, _cp(c), d0, d1)
    return clause


def _lit_close(cfg, i, path):
    """the closing quote ends the literal whenever the following text does not start with a quote"""
    if path.outcome != 'ret': return None
    kind, ch, n = _lit_lexer(cfg)(ord("'"), d0)
    return L.Implies(d0 != ord("'"), L.And(L.Eq(kind, SH.STOP), L.Eq(n, 1)))


def _lit_replay(cfg, values, doc):
    """Concrete witness: the one-character string of the failing class (plus lookahead), through the real __str__ and the
    concrete reference lexer (after the driver's percent pass for format/pyformat)."""
    cls, _ = VALUE_CLASSES[cfg['cls']]
    m = re.search(r'local_decode\[(.*?)\]', doc['clause'])
    if not m:
        return {'reproduced': None, 'detail': 'no concrete witness for clause %s' % doc['clause']}
    c = m.group(1)
    ch = chr(values['o']) if c == OTHER else c
    la = ''.join(chr(v) for v in (values.get('d0', -1), values.get('d1', -1)) if isinstance(v, int) and v >= 0)
    s = ch + la
    text = cls(cfg['style'], s).__str__()
    if cfg['style'] in ('format', 'pyformat'):
        okp, text2 = SH.percent_pass(text)
        if not okp:
            return {'reproduced': True, 'detail': 'literal %r for value %r contains a lone %% under paramstyle %s' % (text, s, cfg['style']), 'value': s}
        text = text2
    dec = SH.decode_concrete(_lit_lexer(cfg), text[1:]) if text[:1] == "'" else None
    bad = dec is None or dec[0] != s or dec[1] != ''
    return {'reproduced': bool(bad), 'value': s, 'literal': text, 'lexer_reads': dec,
            'detail': 'the %s lexer reads the literal %r as %r, the value was %r' % (VALUE_CLASSES[cfg['cls']][1], text, dec, s)}


# ------------------------------------------------------------------ date / datetime literals go through the same quote_str
def _dt_configs(tier):
    return [dict(cls=k, style=s, kind=t) for k in VALUE_CLASSES for s in ('qmark', 'format') for t in ('date', 'datetime')]


def _dt_case(cfg, values):
    import datetime
    cls, _ = VALUE_CLASSES[cfg['cls']]
    v = datetime.date(2024, 2, 29) if cfg['kind'] == 'date' else datetime.datetime(2024, 2, 29, 23, 59, 58, 123456)
    return Case(lambda: (cls(cfg['style'], v).__str__(), v), {}, [])


def _dt_spec(cfg, i, path):
    if path.outcome != 'ret': return False
    text, v = path.value
    m = re.search(r"'(.*)'$", text)
    if not m: return False
    body = m.group(1)
    import datetime
    want = str(v) if cfg['kind'] == 'date' else v.strftime('%Y-%m-%d %H:%M:%S.%f')
    return body == want and "'" not in body and '%' not in body


# ------------------------------------------------------------------ identifiers: DBAPIProvider.quote_name
def _qn_configs(tier):
    return [dict(quote_char=q, name=n) for q in ('"', '`') for n in ('str', 'tuple')]


def _qn_case(cfg, values):
    p = object.__new__(dp.DBAPIProvider)
    p.quote_char = cfg['quote_char']
    name = SymStr.sym('s') if cfg['name'] == 'str' else (SymStr.sym('s'), SymStr.sym('t'))
    return Case(lambda: p.quote_name(name), {'o': o, 'd0': d0, 'd1': d1}, _other_pre('"`.'))


def _qn_parts(cfg, path):
    """-> list of (prefix, chain, suffix) per name component, or None"""
    r = path.value
    if not isinstance(r, SymStr): return None
    q = cfg['quote_char']
    if cfg['name'] == 'str':
        nf = SH.normal_form(r, 's')
        return None if nf is None else [nf]
    ps = r.pieces
    if len(ps) != 5 or [p[0] for p in ps] != ['lit', 'sym', 'lit', 'sym', 'lit']: return None
    if ps[1][1] != 's' or ps[3][1] != 't' or ps[2][1] != q + '.' + q: return None
    return [(ps[0][1], ps[1][2], q), (q, ps[3][2], ps[4][1])]


def _qn_shape(cfg, i, path):
    if path.outcome != 'ret': return False
    parts = _qn_parts(cfg, path)
    q = cfg['quote_char']
    return parts is not None and all(p[0] == q and p[2] == q for p in parts)


def _qn_local(c):
    def clause(cfg, i, path):
        if path.outcome != 'ret': return None
        parts = _qn_parts(cfg, path)
        if parts is None: return None
        lex = SH.sql_string_lexer(cfg['quote_char'])
        return L.And(*[SH.local_condition(lex, _img(chain, c), _cp(c), d0, d1) for _, chain, _ in parts])
    return clause


def _qn_close(cfg, i, path):
    if path.outcome != 'ret': return None
    q = ord(cfg['quote_char'])
    kind, ch, n = SH.sql_string_lexer(cfg['quote_char'])(q, d0)
    return L.Implies(d0 != q, L.And(L.Eq(kind, SH.STOP), L.Eq(n, 1)))


# ------------------------------------------------------------------ LIKE patterns: StringMixin._like (real monads, real translator)
LIKE_DIALECTS = {'SQLite': None, 'Oracle': None, 'PostgreSQL': '\\', 'MySQL': '\\'}      # default LIKE escape character
LIKE_CLASSES = ['!', '%', '_', '\\', OTHER]
METHODS = {'contains': ('%', '%'), 'startswith': (None, '%'), 'endswith': ('%', None)}


def _like_configs(tier):
    return [dict(dialect=d, method=m, item=it) for d in LIKE_DIALECTS for m in METHODS for it in ('const', 'expr')]


def _like_case(cfg, values):
    M = H.model()

    def setup(run): H.push_translator(M, cfg['dialect'])
    def teardown(run): H.pop_translator(M)

    def call():
        name = M.tr.namespace['p'].getattr('name')
        if cfg['item'] == 'const':
            item = st.StringConstMonad(SymStr.sym('v') if values is None else values.get('v', ''))
        else:
            item = M.tr.namespace['p'].getattr('opt')
        before, after = METHODS[cfg['method']]
        r = name._like(item, before=before, after=after)
        return r.getsql()[0]
    return Case(call, {'o': o, 'd0': d0, 'd1': d1}, _other_pre('!%_\\'), setup, teardown)


def _like_parse(cfg, path):
    """-> (chain, escape char or None, excluded classes) describing the pattern the database receives, or None if malformed"""
    sql = path.value
    if sql[0] != 'LIKE' or sql[1] != ['COLUMN', 'p', 'name']: return None
    esc = None
    if len(sql) > 3:
        if sql[3] != ['VALUE', '!'] or len(sql) != 4: return None
        esc = '!'
    before, after = METHODS[cfg['method']]
    tmpl = sql[2]
    if cfg['item'] == 'const':
        if tmpl[0] != 'VALUE': return None
        nf = SH.normal_form(tmpl[1], 'v')
        if nf is None or nf[0] != (before or '') or nf[2] != (after or ''): return None
        chain = nf[1]
        # characters the path condition excludes from v ('%' in v, '_' in v were observed False)
        excluded = set()
        for lit in path.pc:
            m = re.match(r"Not\(charin!v!(\d+)\)$", str(lit).replace('\n', ' '))
            if m: excluded.add(chr(int(m.group(1))))
        return chain, esc, excluded
    # expression item: REPLACE chain built in the SQL AST, wrapped in CONCAT with the wildcards
    parts = tmpl[1:] if tmpl[0] == 'CONCAT' else [tmpl]
    want_parts = ([['VALUE', before]] if before else []) + ['X'] + ([['VALUE', after]] if after else [])
    if len(parts) != len(want_parts): return None
    inner = None
    for got, want in zip(parts, want_parts):
        if want == 'X': inner = got
        elif got != want: return None
    chain = []
    while inner[0] == 'REPLACE':
        if inner[2][0] != 'VALUE' or inner[3][0] != 'VALUE': return None
        chain.append((inner[2][1], inner[3][1])); inner = inner[1]
    if inner != ['COLUMN', 'p', 'opt']: return None
    chain.reverse()       # innermost REPLACE is applied first
    return tuple(chain), esc, set()


def _like_shape(cfg, i, path):
    if path.outcome != 'ret': return False
    return _like_parse(cfg, path) is not None


def _like_local(c):
    def clause(cfg, i, path):
        if path.outcome != 'ret': return None
        pr = _like_parse(cfg, path)
        if pr is None: return None
        chain, esc, excluded = pr
        if c in excluded: return None                       # v cannot contain this character on this path
        lex = SH.like_lexer(esc if esc is not None else LIKE_DIALECTS[cfg['dialect']])
        return SH.local_condition(lex, _img(chain, c), _cp(c), d0, d1)
    return clause


def _like_replay(cfg, values, doc):
    m = re.search(r'pattern_char_is_literal\[(.*?)\]', doc['clause'])
    if not m or cfg['item'] != 'const':
        return {'reproduced': None, 'detail': 'no concrete witness constructed for this clause'}
    c = m.group(1)
    ch = chr(values['o']) if c == OTHER else c
    la = chr(values['d0']) if isinstance(values.get('d0'), int) and values['d0'] >= 0 and chr(values['d0']) not in '%_' else 'x'
    v = ch + la
    M = H.model()
    H.push_translator(M, cfg['dialect'])
    try:
        name = M.tr.namespace['p'].getattr('name')
        before, after = METHODS[cfg['method']]
        sql = name._like(st.StringConstMonad(v), before=before, after=after).getsql()[0]
    finally:
        H.pop_translator(M)
    pat = sql[2][1]
    esc = '!' if len(sql) > 3 else LIKE_DIALECTS[cfg['dialect']]
    body = pat[len(before or ''):len(pat) - len(after or '')]
    dec = SH.decode_concrete(SH.like_lexer(esc), body, stop_kinds=(SH.END,))
    bad = dec is None or dec[0] != v
    return {'reproduced': bool(bad), 'value': v, 'pattern': pat, 'escape_in_effect': esc, 'tokenizer_reads_literal': dec,
            'detail': 'LIKE pattern %r (escape %r) matches the literal %r, the searched value was %r' % (pat, esc, dec, v)}


# ------------------------------------------------------------------ SQLBuilder.MOD
def _mod_case(cfg, values):
    b = type('B', (), dict(paramstyle=cfg['style'], __call__=lambda self, x: x))()
    return Case(lambda: sb.SQLBuilder.MOD(b, 'A', 'B'), {}, [])


def _mod_spec(cfg, i, path):
    if path.outcome != 'ret': return False
    text = ''.join(path.value)
    if cfg['style'] in ('format', 'pyformat'):
        okp, text = SH.percent_pass(text)
        if not okp: return False
    return text == '(A % B)'


# ------------------------------------------------------------------ placeholder layout (BOUNDED)
def _partitions(k):
    def rec(i, blocks):
        if i == k:
            yield list(blocks); return
        for b in range(len(blocks)):
            blocks[b].append(i); yield from rec(i + 1, blocks); blocks[b].pop()
        blocks.append([i]); yield from rec(i + 1, blocks); blocks.pop()
    return rec(0, [])


def _ph_configs(tier):
    K = 4 if tier == 'quick' else 5
    out = []
    for style in STYLES:
        for k in range(1, K + 1):
            for part in _partitions(k):
                keyof = {}
                for bi, block in enumerate(part):
                    for occ in block: keyof[occ] = bi
                out.append(dict(style=style, keys=tuple(keyof[j] for j in range(k))))
    return out


def _ph_case(cfg, values):
    def call():
        prov = type('P', (), dict(paramstyle=cfg['style'], quote_name=lambda self, n: '"%s"' % n))()
        ast = ['ROW'] + [['PARAM', ('k%d' % key, None, None)] for key in cfg['keys']] + [['VALUE', "a?%s:1:p1"]]
        b = sb.SQLBuilder(prov, ast)
        vals = {'k%d' % key: ('value-of-k%d' % key) for key in set(cfg['keys'])}
        return b.sql, b.adapter(vals)
    return Case(call, {}, [])


def _ph_spec(cfg, i, path):
    """PEP 249 binding: which argument each placeholder occurrence receives."""
    if path.outcome != 'ret': return False
    sql, args = path.value
    style = cfg['style']
    # remove the string literal first (a driver does not look for placeholders inside quotes; for format/pyformat the % are doubled)
    m = re.search(r"'(?:[^']|'')*'", sql)
    if not m: return False
    lit = m.group(0)
    if style in ('format', 'pyformat'):
        okp, dec = SH.percent_pass(lit)
        if not okp or dec != "'a?%s:1:p1'": return False
    elif lit != "'a?%s:1:p1'": return False
    rest = sql[:m.start()] + sql[m.end():]
    pats = {'qmark': r'\?', 'format': r'%s', 'numeric': r':(\d+)', 'named': r':(p\d+)', 'pyformat': r'%\((p\d+)\)s'}
    occ = list(re.finditer(pats[style], rest))
    if len(occ) != len(cfg['keys']): return False
    for j, (mo, key) in enumerate(zip(occ, cfg['keys'])):
        if style in ('qmark', 'format'): got = args[j] if isinstance(args, tuple) and j < len(args) else None
        elif style == 'numeric':
            idx = int(mo.group(1)) - 1
            got = args[idx] if isinstance(args, tuple) and 0 <= idx < len(args) else None
        else: got = args.get(mo.group(1)) if isinstance(args, dict) else None
        if got != 'value-of-k%d' % key: return False
    if style in ('qmark', 'format') and len(args) != len(occ): return False
    return True



# ------------------------------------------------------------------ composite parameters (a JSON path with variables is ONE bound value): each occurrence gets ITS path
CP_ITEMS = {'x': ['VALUE', 'x'], 'y': ['VALUE', 'y'], '1': ['VALUE', 1], 'k0': ['PARAM', ('k0', None, None)], 'k1': ['PARAM', ('k1', None, None)]}
CP_VALUES = {'k0': 'os', 'k1': 2}


def _cp_configs(tier):
    import itertools
    paths = [p for n in (1, 2) for p in itertools.product(CP_ITEMS, repeat=n) if any(i.startswith('k') for i in p)]
    out = [dict(paths=(a,)) for a in paths] + [dict(paths=(a, b)) for a in paths for b in paths]
    if tier == 'thorough': out += [dict(paths=(a, b, c)) for a in paths[::2] for b in paths[::3] for c in paths[1::4]]
    return out


def _cp_case(cfg, values):
    def call():
        from pony.orm.dbproviders import sqlite as sq
        prov = type('P', (), dict(paramstyle='qmark', quote_name=lambda self, n: '"%s"' % n, json1_available=True))()
        ast = ['ROW'] + [['JSON_QUERY', ['COLUMN', 't', 'c'], [CP_ITEMS[i] for i in path]] for path in cfg['paths']]
        b = sq.SQLiteBuilder(prov, ast)
        return b.sql, b.adapter(dict(CP_VALUES))
    return Case(call, {}, [])


def _cp_spec(cfg, i, path):
    if path.outcome != 'ret': return False
    sql, args = path.value
    want = []
    for pth in cfg['paths']:
        vals = [CP_VALUES[i] if i.startswith('k') else (1 if i == '1' else i) for i in pth]
        want.append('$' + ''.join('[%d]' % v if isinstance(v, int) else '.' + v for v in vals))
    return sql.count('?') == len(cfg['paths']) and tuple(args) == tuple(want)



# ------------------------------------------------------------------ SQLite: a value bound as a parameter and the same value written as an inline literal denote the same database value
import datetime as _dt, decimal as _dec
PARAM_VALUES = {
    'bool': [True, False], 'int': [0, 1, -7, 2 ** 40], 'float': [0.0, 1.5, -2.25, 1e-7], 'str': ['', 'a', "it's", '100%', 'a\\b', 'x\ny'],
    'Decimal': [_dec.Decimal('0'), _dec.Decimal('1.50'), _dec.Decimal('-12.345')],
    'date': [_dt.date(2020, 1, 2), _dt.date(999, 12, 31), _dt.date(1, 1, 1)],
    'datetime': [_dt.datetime(2020, 1, 2, 3, 4, 5), _dt.datetime(2020, 1, 2, 3, 4, 5, 123456), _dt.datetime(999, 12, 31, 23, 59, 59, 999999), _dt.datetime(1, 1, 1)],
    'timedelta': [_dt.timedelta(0), _dt.timedelta(seconds=1), _dt.timedelta(seconds=1, microseconds=500000), _dt.timedelta(days=2, seconds=3, microseconds=4), _dt.timedelta(microseconds=1),
                  _dt.timedelta(days=-1, microseconds=250000), _dt.timedelta(hours=36), _dt.timedelta(-1, 0, 1), _dt.timedelta(100000, 0, 1), _dt.timedelta(5, 86399, 999999), _dt.timedelta(days=36500, seconds=1)],
    'bytes': [b'', b'ab', bytes(range(6))],
}


_PL_DB = None


def _pl_configs(tier):
    return [dict(type=t, index=k) for t, vs in PARAM_VALUES.items() for k in range(len(vs))]


def _pl_case(cfg, values):
    def call():
        import sqlite3
        from pony.orm.dbproviders import sqlite as sq
        v = PARAM_VALUES[cfg['type']][cfg['index']]
        global _PL_DB
        if _PL_DB is None:
            from pony import orm as _orm
            _PL_DB = _orm.Database('sqlite', ':memory:')
        converter = _PL_DB.provider.get_converter_by_py_type(type(v))          # the converter the translator uses for a parameter of this type
        bound = converter.py2sql(v)
        lit = str(sq.SQLiteValue('qmark', v))
        con = sqlite3.connect(':memory:')
        row = con.execute('select ? = %s, typeof(?), typeof(%s), ?, %s' % (lit, lit, lit), (bound, bound, bound)).fetchone()
        return row, repr(bound), lit
    return Case(call, {}, [])


class Bag(object):
    def __init__(self, **kw): self.__dict__.update(kw)


def _pl_spec(cfg, i, path):
    if path.outcome != 'ret': return False
    (equal, t_param, t_lit, p, l), bound, lit = path.value
    if cfg['type'] in ('float', 'timedelta', 'Decimal'):
        # numbers: SQL `=` must say they are the same number (repr() of a double reads back as the same double); the storage class may differ (integer / real / text of a number)
        return equal == 1 and (t_param == t_lit or {t_param, t_lit} <= {'real', 'integer', 'text'})
    return equal == 1 and t_param == t_lit


CONTRACTS = [
    Contract('Value.quote_str', ['pony.orm.sqlbuilding:Value.quote_str', 'pony.orm.sqlbuilding:Value.__str__', 'pony.orm.dbproviders.sqlite:SQLiteValue.__str__',
                                 'pony.orm.dbproviders.postgres:PGValue.__str__', 'pony.orm.dbproviders.mysql:MySQLValue.__str__'],
             _lit_configs, _lit_case,
             [('literal_is_quote_hom_quote', _lit_shape)] + [('local_decode[%s]' % c, _lit_local(c)) for c in LIT_CLASSES] + [('closing_quote_stops', _lit_close)],
             replay=_lit_replay, doc='inline string literal denotes the value under the dialect lexer (after the driver percent pass for format/pyformat)'),
    Contract('Value.__str__.dates', ['pony.orm.sqlbuilding:Value.__str__', 'pony.orm.dbproviders.sqlite:SQLiteValue.__str__'], _dt_configs, _dt_case,
             [('date_literal_body_is_iso_text_without_metacharacters', _dt_spec)]),
    Contract('DBAPIProvider.quote_name', 'pony.orm.dbapiprovider:DBAPIProvider.quote_name', _qn_configs, _qn_case,
             [('identifier_is_quote_hom_quote', _qn_shape)] + [('local_decode[%s]' % c, _qn_local(c)) for c in ('"', '`', '.', OTHER)] + [('closing_quote_stops', _qn_close)],
             replay=False, doc='no identifier can end its own quoting: the quoted identifier lexes back to exactly the name'),
    Contract('StringMixin._like', ['pony.orm.sqltranslation:StringMixin._like', 'pony.orm.sqlbuilding:SQLBuilder.LIKE'], _like_configs, _like_case,
             [('pattern_is_wildcards_around_hom', _like_shape)] + [('pattern_char_is_literal[%s]' % c, _like_local(c)) for c in LIKE_CLASSES],
             replay=_like_replay, doc='contains / startswith / endswith: every character of the searched value is a literal token of the LIKE pattern under the '
                                      'escape character in effect (explicit ESCAPE, or the dialect default when the code omits the clause)'),
    Contract('SQLBuilder.MOD', 'pony.orm.sqlbuilding:SQLBuilder.MOD', [dict(style=s) for s in STYLES], _mod_case, [('percent_survives_driver_formatting', _mod_spec)]),
    Contract('SQLBuilder.placeholders', ['pony.orm.sqlbuilding:SQLBuilder.__init__', 'pony.orm.sqlbuilding:SQLBuilder.make_param', 'pony.orm.sqlbuilding:Param.__str__',
                                         'pony.orm.sqlbuilding:Param.eval'],
             _ph_configs, _ph_case, [('each_placeholder_receives_its_keys_value', _ph_spec)], level='bounded',
             bound='<= 4 (quick) / 5 (thorough) PARAM occurrences, every partition of occurrences into keys, all five paramstyles'),
    Contract('SQLBuilder.composite_params', ['pony.orm.sqlbuilding:SQLBuilder.build_json_path', 'pony.orm.sqlbuilding:SQLBuilder.make_composite_param', 'pony.orm.sqlbuilding:SQLBuilder.make_param',
                                             'pony.orm.sqlbuilding:SQLBuilder.eval_json_path'], _cp_configs, _cp_case,
             [('each_placeholder_receives_the_path_written_at_its_place', _cp_spec)], level='bounded',
             bound='statements with 1 - 2 (thorough: 3) JSON paths of <= 2 items out of 3 constants and 2 variables, at least one variable per path'),
    Contract('sqlite.parameter_equals_literal', ['pony.orm.dbproviders.sqlite:SQLiteTimedeltaConverter.py2sql', 'pony.orm.dbproviders.sqlite:SQLiteDatetimeConverter.py2sql',
                                                 'pony.orm.dbproviders.sqlite:SQLiteDateConverter.py2sql', 'pony.orm.dbproviders.sqlite:SQLiteDecimalConverter.py2sql',
                                                 'pony.orm.dbproviders.sqlite:SQLiteValue.__str__', 'pony.utils.utils:datetime2timestamp'], _pl_configs, _pl_case,
             [('bound_value_and_inline_literal_denote_the_same_database_value', _pl_spec)], level='bounded',
             bound='9 Python types, 2 - 7 values each (boundary years, sub-second and negative intervals, quotes, percent, empty), compared inside a real SQLite connection'),
]

from contracts import c07 as _c07
CONTRACTS += [c for c in _c07.CONTRACTS if c.id == 'sqlite_converters.roundtrip']          # py2sql of every SQLite converter writes a value that reads back as the same value (shared with C07)
