"""C10 Lookups and queries inside a session see the session's own unflushed changes (DESIGN 4-C10).

PROOF (per call): SessionCache.prepare_connection_for_query_execution flushes pending changes before any query can run (ghost trace order, every
fault point); SessionCache.flush empties the query-result cache whenever it saves something; SetInstance.count with SYMBOLIC database count and
symbolic numbers of added / removed items returns db + |added| - |removed| (computed with auto-flush disabled, so nothing is counted twice) and caches it.
BOUNDED (end to end, differential): on a real SQLite model, for enumerated unflushed modifications x warm-up states x reads (attribute, collection
iteration / count / len / is_empty / in, Entity[pk], get, exists, select with and without filters, aggregates, to_dict): the answer inside the
modifying session equals the answer a NEW session gives after the same modifications were committed."""
import types, z3
from vf.verify import Contract, Case
from vf.inputs import Inputs, term, same
from vf.explore import cur, decide
from vf.effects import effect, Fault, Patch, note
from vf.proxy import Proxy, SymInt
from vf import logic as L
from pony import orm
from pony.orm import core
from contracts import c19
from contracts import c10_blind as BL

META = dict(
    level='proof',
    explanation='auto-flush before every query (ghost order), result-cache invalidation by flush, collection count arithmetic over symbolic sizes proved on the real functions; '
                'agreement of cache-answered reads with post-commit reads checked differentially on enumerated scenarios (bounded)',
    trusted_base=['the differential oracle is pony itself in a fresh session after commit (a translation bug common to both sides is invisible here: C01)',
                  'SizedSet: a set observed only through len() and truthiness'],
    assumptions=['agreement of _find_in_cache_ / collection shortcuts with a database query is history-dependent: only the enumerated scenarios are covered (bounded)'],
)


# ------------------------------------------------------------------ prepare_connection_for_query_execution
def _pc_configs(tier):
    return [dict(modified=m, noflush=n, connected=c) for m in (False, True) for n in (0, 1) for c in (False, True)]


def _pc_case(cfg, values):
    def call():
        st = cur().state
        p = c19._mk_provider('generic', False, st)
        db = c19.Bag(provider=p, priority=0, call_on_connect=lambda con: None, provider_name='generic')
        s = core.DBSessionContextManager()
        s._enter()
        cache = core.local.db2cache[db] = core.SessionCache(db)
        if cfg['connected']:
            cache.prepare_connection_for_query_execution()
        cache.flush = effect('cache.flush', (Fault,))
        cache.modified = cfg['modified']; cache.noflush_counter = cfg['noflush']
        st['mark'] = len(cur().ghost)
        st['cache'] = cache
        con = cache.prepare_connection_for_query_execution()
        note('returned')
        return con is cache.connection and con is not None
    return Case(call, {}, [], c19._session_setup, c19._session_teardown)


def _pc_spec(cfg, i, path):
    st = path.state
    if 'mark' not in st: return None                                      # failed while connecting in the harness prelude
    g = [x for x in path.ghost[st['mark']:]]
    names = [x[0] for x in g]
    must_flush = cfg['modified'] and cfg['noflush'] == 0
    if path.outcome == 'ret':
        if path.value is not True: return False
        if names.count('cache.flush') != (1 if must_flush else 0): return False
        if must_flush and not (names.index('cache.flush') < names.index('returned') and ('cache.flush', 'ok') in [x[:2] for x in g]): return False
        return True
    # raised: the caller never gets a connection to run its query on; a failed flush is not swallowed
    return 'returned' not in names


# ------------------------------------------------------------------ SessionCache.flush invalidates cached query results
def _fq_configs(tier):
    return [dict(modified=m, noflush=n) for m in (False, True) for n in (0, 1)]


def _fq_case(cfg, values):
    def call():
        st = cur().state
        db = core.Database(); db.provider = c19.Bag()
        core.local.db_context_counter = 1
        cache = core.SessionCache(db)
        saved = st['saved'] = []

        class Obj(object):
            def _before_save_(o): pass
            def _save_(o): saved.append(len(cache.query_results))
        if cfg['modified']:
            cache.objects_to_save.append(Obj()); cache.modified = True
        cache.noflush_counter = cfg['noflush']
        cache.query_results['q'] = ['stale']
        st['cache'] = cache
        cache.flush()
        return 'flushed'
    return Case(call, {}, [], c19._session_setup, c19._session_teardown)


def _fq_spec(cfg, i, path):
    if path.outcome != 'ret': return False
    cache = path.state['cache']
    if cfg['modified'] and cfg['noflush'] == 0:
        return path.state['saved'] == [0] and not cache.query_results and cache.modified is False and cache.objects_to_save == []
    return path.state['saved'] == [] and cache.query_results == {'q': ['stale']}


# ------------------------------------------------------------------ SetInstance.count
class SizedSet(Proxy):
    """a set that the code under contract may only measure: len() and truthiness"""
    __slots__ = ('n',)
    vf_type = set
    def __init__(self, n): self.n = n
    def vf_len(self): return self.n
    def __len__(self): return self.n.__index__()
    def __bool__(self): return decide(term(self.n) != 0)
    __hash__ = Proxy.__hash__


_M = None


def model():
    global _M
    if _M is None:
        db = orm.Database('sqlite', ':memory:')

        class Person(db.Entity):
            name = orm.Required(str, unique=True)
            age = orm.Optional(int)
            group = orm.Optional('Group')
            tags = orm.Set('Tag')

        class Group(db.Entity):
            title = orm.Required(str)
            members = orm.Set(Person)

        class Tag(db.Entity):
            label = orm.Required(str)
            persons = orm.Set(Person)
        db.generate_mapping(create_tables=True)
        _M = types.SimpleNamespace(db=db, Person=Person, Group=Group, Tag=Tag)
        _reset_data(_M)
    return _M


def _reset_data(M):
    con = M.db.get_connection() if False else None
    with orm.db_session:
        db = M.db
        for t in ('Person_Tag', 'Person', 'Group', 'Tag'):
            db.execute('delete from "%s"' % t)
        db.execute("insert into \"Group\"(id, title) values (1, 'g1'), (2, 'g2'), (3, 'g3')")
        db.execute("insert into Person(id, name, age, \"group\") values (1, 'p1', 10, 1), (2, 'p2', 60, 2), (5, 'p5', 20, 1)")          # p5: a second member of g1 that no scenario loads by itself
        db.execute("insert into Tag(id, label) values (1, 't1'), (2, 't2')")
        db.execute("insert into Person_Tag(person, tag) values (1, 1), (2, 1)")


def _sess_setup(run):
    c19._session_setup(run)
    run.state['patch'] = Patch()


def _sess_teardown(run):
    run.state['patch'].restore()
    try: orm.rollback()
    except Exception: pass
    c19._session_teardown(run)


class Cur(object):
    def __init__(self, v): self.v = v
    def fetchone(self): return (self.v,)


def _cnt_configs(tier):
    return [dict(attr=a, added=x, removed=y, cached=c) for a in ('members', 'tags') for x in (False, True) for y in (False, True) for c in (False, True)]


def _cnt_case(cfg, values):
    I = Inputs(values)
    dbc, na, nr, cc = I.int('db_count'), I.int('n_added'), I.int('n_removed'), I.int('cached_count')
    I.require(term(na) >= 0); I.require(term(nr) >= 0)
    M = model()

    def call():
        st = cur().state
        with orm.db_session:
            o = M.Group[1] if cfg['attr'] == 'members' else M.Person[1]
            attr = getattr(type(o), cfg['attr'])
            sd = o._vals_[attr] = core.SetData()
            if cfg['added']: sd.added = SizedSet(na)
            if cfg['removed']: sd.removed = SizedSet(nr)
            if cfg['cached']: sd.count = cc
            calls = st['calls'] = []

            def _exec_sql(db, sql, arguments=None, returning_id=False, start_transaction=False):
                calls.append((sql, db._get_cache().noflush_counter))
                return Cur(dbc)
            st['patch'].set(core.Database, '_exec_sql', _exec_sql)
            try:
                r = getattr(o, cfg['attr']).count()
                st['cached_after'] = sd.count
                return r
            finally:
                st['patch'].restore()
                o._vals_.pop(attr, None)
    return Case(call, I.terms, I.pre, _sess_setup, _sess_teardown)


def _cnt_spec(cfg, i, path):
    if path.outcome != 'ret': return False
    st = path.state
    if cfg['cached']:
        return L.And(len(st['calls']) == 0, L.Eq(term(path.value), i['cached_count']))
    if len(st['calls']) != 1 or st['calls'][0][1] < 1 or 'COUNT' not in st['calls'][0][0].upper(): return False     # one COUNT query, run with auto-flush disabled
    want = i['db_count'] + (i['n_added'] if cfg['added'] else 0) - (i['n_removed'] if cfg['removed'] else 0)
    return L.And(L.Eq(term(path.value), want), L.Eq(term(st['cached_after']), want))


# ------------------------------------------------------------------ end-to-end differential (bounded)
def _mods(M):
    P, G, T = M.Person, M.Group, M.Tag
    return dict(
        create=lambda: P(name='p3', age=30, group=G[1], tags=[T[2]]),
        update=lambda: setattr(P[1], 'age', 99),
        rename=lambda: setattr(P[1], 'name', 'q1'),
        delete=lambda: P[1].delete(),
        move_in=lambda: G[1].members.add(P[2]),
        move_out=lambda: G[1].members.remove(P[1]),
        tag_add=lambda: P[1].tags.add(T[2]),
        tag_remove=lambda: P[1].tags.remove(T[1]),
        ungroup=lambda: setattr(P[1], 'group', None),
        regroup=lambda: setattr(P[2], 'group', G[1]),
        create_empty_group_member=lambda: P(name='p4', age=5, group=G[3]),
        delete_group=lambda: G[3].delete(),
        # taking out again, through the REVERSE side, an item that was added earlier in the same unflushed session
        ungroup_p2=lambda: setattr(P[2], 'group', None),
        delete_created=lambda: P.get(name='p3').delete(),
        untag_via_reverse=lambda: T[2].persons.remove(P[1]),
    )


def _reads(M):
    """every value is normalised to names (an object that is not flushed yet has no id)"""
    P, G, T = M.Person, M.Group, M.Tag
    nm = lambda o: None if o is None else getattr(o, 'name', None) or getattr(o, 'title', None) or getattr(o, 'label', None)
    names = lambda objs: sorted(nm(o) for o in objs)
    return dict(
        all_persons=lambda: sorted((p.name, p.age, nm(p.group)) for p in P.select()),
        get_by_name=lambda: nm(P.get(name='p1')),
        get_by_pk=lambda: nm(P.get(id=1)),
        get_new_by_name=lambda: nm(P.get(name='p3')),
        exists_age=lambda: P.exists(age=99),
        exists_lambda=lambda: P.exists(lambda p: p.age > 90),
        count_in_group=lambda: orm.count(p for p in P if p.group == G[1]),
        sum_age=lambda: orm.sum(p.age for p in P),
        max_age=lambda: orm.max(p.age for p in P),
        members_count=lambda: G[1].members.count(),
        members_len=lambda: len(G[1].members),
        members_is_empty=lambda: G[1].members.is_empty(),
        g3_is_empty=lambda: G[3].members.is_empty() if G.get(id=3) else 'gone',
        g3_count=lambda: G[3].members.count() if G.get(id=3) else 'gone',
        g2_members=lambda: names(G[2].members),
        p2_in_g1=lambda: P[2] in G[1].members,
        t2_in_p1_tags=lambda: T[2] in P[1].tags,
        p1_in_t2_persons=lambda: P[1] in T[2].persons,
        t1_in_p1_tags=lambda: T[1] in P[1].tags,
        members_iter=lambda: names(G[1].members),
        select_filter=lambda: names(P.select(lambda p: p.age > 50)),
        select_kw=lambda: names(P.select(age=99)),
        group_to_dict=lambda: (lambda d: (d['title'], len(d['members'])))(G[1].to_dict(with_collections=True)),
        group_to_dict_related=lambda: (lambda d: (d['title'], names(d['members'])))(G[1].to_dict(with_collections=True, related_objects=True)),
        person_to_dict=lambda: (lambda d: sorted((k, v if not isinstance(v, list) else sorted(v)) for k, v in d.items()))(P[2].to_dict(with_collections=True)),
        p2_tags=lambda: names(P[2].tags),
        t1_persons_count=lambda: T[1].persons.count(),
        t2_persons=lambda: names(T[2].persons),
        t2_is_empty=lambda: T[2].persons.is_empty(),
        p1_tags_is_empty=lambda: P[1].tags.is_empty(),
        # an emptiness answer must not disturb what the collection says afterwards
        p1_tags_is_empty_then_content=lambda: (P[1].tags.is_empty(), T[1] in P[1].tags, names(P[1].tags), P[1].tags.count()),
        members_is_empty_then_content=lambda: (G[1].members.is_empty(), names(G[1].members), len(G[1].members), G[1].members.count()),
        t1_persons_is_empty_then_content=lambda: (T[1].persons.is_empty(), names(T[1].persons)),
        select_by_tag=lambda: names(orm.select(p for p in P if T[2] in p.tags)),
        group_of_p2=lambda: nm(P[2].group),
        join_count=lambda: sorted(orm.select((g.title, orm.count(g.members)) for g in G)[:]),
        # select_random answers from the identity map when MAX(id) is already known in this transaction: the names 30 seeded draws of one object give (every live person w.h.p.: 3..4 persons)
        select_random_draws=lambda: (__import__('random').seed(3), sorted({nm(o) for k in range(30) for o in P.select_random(1)}))[1],
        # with seed 2 the first identifier drawn out of 1..5 is 1: Person[1] is looked up in the identity map before any statement could flush the session
        select_random_hands_out_live_objects=lambda: (__import__('random').seed(2), (lambda r: (len(r), all(o._status_ not in ('marked_to_delete', 'deleted', 'cancelled') for o in r)))(P.select_random(1)))[1],
    )


WARM = dict(
    none=lambda M: None,
    count=lambda M: (M.Group[1].members.count(), M.Tag[1].persons.count(), M.Tag[2].persons.count(), M.Group[3].members.count()),
    load=lambda M: (list(M.Group[1].members), list(M.Tag[1].persons), list(M.Person[1].tags), list(M.Group[3].members)),
    is_empty=lambda M: (M.Group[1].members.is_empty(), M.Tag[2].persons.is_empty(), M.Group[3].members.is_empty()),
    query=lambda M: (M.Person.select()[:], orm.count(p for p in M.Person), orm.sum(p.age for p in M.Person)),
    same_read=None,          # the read itself is executed once BEFORE the modifications (whatever it cached must not be served afterwards)
)
MOD_NAMES = ['create', 'update', 'rename', 'delete', 'move_in', 'move_out', 'tag_add', 'tag_remove', 'ungroup', 'regroup', 'create_empty_group_member', 'delete_group',
             'ungroup_p2', 'delete_created', 'untag_via_reverse']
PAIRS = [('create', 'delete'), ('move_in', 'move_out'), ('tag_add', 'tag_remove'), ('update', 'move_out'), ('create', 'regroup'), ('ungroup', 'regroup'),
         ('tag_remove', 'create'), ('delete', 'create_empty_group_member'), ('rename', 'create'),
         ('regroup', 'ungroup_p2'), ('create', 'delete_created'), ('tag_add', 'untag_via_reverse'), ('move_in', 'ungroup_p2')]


def _dd_configs(tier):
    seqs = [(m,) for m in MOD_NAMES] + (PAIRS if tier != 'thorough' else [(a, b) for a in MOD_NAMES for b in MOD_NAMES if a != b])
    return [dict(mods='+'.join(s), warm=w) for s in seqs for w in WARM]


def _dd_case(cfg, values):
    M = model()

    def call():
        st = cur().state
        mods, reads = _mods(M), _reads(M)
        seq = cfg['mods'].split('+')
        _reset_data(M)
        # oracle: the same modifications committed, then every read in a NEW session
        try:
            with orm.db_session:
                for m in seq: mods[m]()
        except (core.OperationalError, core.ObjectNotFound, core.ConstraintError, AttributeError) as e:      # not a meaningful script (e.g. modifies a deleted object)
            st['want'], st['got'] = {}, {}
            _reset_data(M)
            return []
        want = {}
        for name, rd in reads.items():
            with orm.db_session:
                try: want[name] = rd()
                except Exception as e: want[name] = ('exc', type(e).__name__)
        # subject: one fresh session per read; warm-up, unflushed modifications, the read, rollback
        got = {}
        for name, rd in reads.items():
            _reset_data(M)
            try:
                with orm.db_session:
                    if cfg['warm'] == 'same_read':
                        try: rd()
                        except Exception: pass
                    else: WARM[cfg['warm']](M)
                    for m in seq: mods[m]()
                    try: got[name] = rd()
                    except Exception as e: got[name] = ('exc', type(e).__name__)
                    orm.rollback()
            except Exception as e:
                got[name] = ('session-exc', type(e).__name__)
        _reset_data(M)
        st['want'], st['got'] = want, got
        return sorted(k for k in want if want[k] != got.get(k))
    return Case(call, {}, [], _sess_setup, _sess_teardown)


def _dd_spec(cfg, i, path):
    if path.outcome != 'ret': return False
    path.state['diff'] = {k: (path.state['want'][k], path.state['got'].get(k)) for k in path.value}
    return path.value == []


CONTRACTS = [
    Contract('prepare_connection_for_query_execution', 'pony.orm.core:SessionCache.prepare_connection_for_query_execution', _pc_configs, _pc_case,
             [('pending_changes_flushed_before_the_query_can_run', _pc_spec)], allowed_exc=(Exception,)),
    Contract('SessionCache.flush', 'pony.orm.core:SessionCache.flush', _fq_configs, _fq_case, [('saving_invalidates_cached_query_results', _fq_spec)]),
    Contract('SetInstance.count', 'pony.orm.core:SetInstance.count', _cnt_configs, _cnt_case,
             [('count_is_database_count_plus_added_minus_removed_and_cached', _cnt_spec)], replay=False),
    Contract('reads_after_unflushed_changes', ['pony.orm.core:EntityMeta._find_in_cache_', 'pony.orm.core:EntityMeta._find_one_', 'pony.orm.core:SetInstance.count',
                                                'pony.orm.core:SetInstance.is_empty', 'pony.orm.core:SetInstance.__contains__', 'pony.orm.core:SetInstance.__len__',
                                                'pony.orm.core:Query._actual_fetch', 'pony.orm.core:Query._aggregate', 'pony.orm.core:Entity.to_dict'],
             _dd_configs, _dd_case, [('same_answer_as_a_new_session_after_commit', _dd_spec)], level='bounded',
             bound='3 entities (1-n and n-n), 15 single modifications + pairs, 6 warm-up states, 32 reads'),
    Contract('blind_writes_survive_row_loads', ['pony.orm.core:Entity._db_set_', 'pony.orm.core:Entity.set', 'pony.orm.core:Entity._load_', 'pony.orm.core:Attribute.__set__',
                                               'pony.orm.core:EntityMeta._set_rowdata_' if hasattr(core.EntityMeta, '_set_rowdata_') else 'pony.orm.core:Entity._db_set_'],
             BL.configs, BL.case, [('reads_in_the_session_and_after_commit_see_the_written_values', BL.spec)], level='bounded', bound=BL.BOUND),
    Contract('new_objects_as_query_parameters', ['pony.orm.sqlbuilding:Param.eval', 'pony.orm.core:Query._construct_sql_and_arguments', 'pony.orm.core:EntityMeta._find_in_db_', 'pony.orm.core:extract_vars'],
             BL.new_configs, BL.new_case, [('reads_in_the_session_and_after_commit_see_the_written_values', BL.spec)], level='bounded', bound=BL.BOUND_NEW),
]
