"""C28 In-place changes to Json and array values are persisted (DESIGN 4-C28, Appendix A7) — finite domain, enumerated completely.

(1) method table: every method of dict / list that can mutate the receiver in place (found by PROBING the builtin at start-up and cross-checked
    with a hand-written list, so that a CPython surprise shows up as a discrepancy) is intercepted in TrackedDict / TrackedList / TrackedArray:
    calling it reports the change to the owner exactly through _attr_changed_, gives the builtin's result, and wraps container arguments so
    that later changes of them are reported too; no non-mutating method reports a change (reads never mark the object modified).
(2) Entity._attr_changed_ for every object status: write bit set, status 'modified', queued once, cache.modified.
(3) end to end on a real session: each mutator at nesting depths 1..3 of a Json document / on an int array, committed and re-read."""
import copy, itertools, types
from vf.verify import Contract, Case
from vf.explore import cur
from vf.effects import note
from pony import orm
from pony.orm import core, ormtypes

META = dict(
    level='proof',
    explanation='finite domain enumerated completely: the in-place mutators of dict and list (probed from CPython, cross-checked with a hand-written list) x the tracked '
                'classes x nesting depth 1..3; obligations are ground',
    trusted_base=['probing a fresh dict / list with canonical arguments finds every in-place mutator of the running CPython (cross-checked with the hand-written list)',
                  'in-memory SQLite for the end-to-end clause'],
    assumptions=['nesting depth <= 3 in the end-to-end clause (wrapping is recursive by construction: make() is applied by the constructors)'],
)

HAND = {
    dict: {'__setitem__', '__delitem__', '__ior__', 'update', 'setdefault', 'pop', 'popitem', 'clear'},
    list: {'__setitem__', '__delitem__', '__iadd__', '__imul__', 'append', 'extend', 'insert', 'pop', 'remove', 'reverse', 'sort', 'clear'},
}
ARGS = {   # canonical arguments per method name: (receiver value, args)
    dict: {'__setitem__': ('k', 1), '__delitem__': ('a',), '__ior__': ({'z': 1},), 'update': ({'z': {'n': []}},), 'setdefault': ('z', []), 'pop': ('a',), 'popitem': (),
           'clear': (), 'get': ('a',), 'keys': (), 'items': (), 'values': (), 'copy': (), '__getitem__': ('a',), '__contains__': ('a',), '__len__': (), '__iter__': (),
           '__eq__': ({},), '__ne__': ({},), '__or__': ({'z': 1},), '__ror__': ({'z': 1},), '__repr__': (), '__sizeof__': (), '__reversed__': (), 'fromkeys': (['q'],),
           '__ge__': ({},), '__gt__': ({},), '__le__': ({},), '__lt__': ({},), '__str__': (), '__format__': ('',), '__class_getitem__': (int,), 'fromkeys': (['q'],), '__sizeof__': ()},
    list: {'__setitem__': (0, [9]), '__delitem__': (0,), '__iadd__': ([{'n': 1}],), '__imul__': (2,), 'append': ({'n': []},), 'extend': ([[1]],), 'insert': (0, [1]),
           'pop': (), 'remove': (2,), 'reverse': (), 'sort': (), 'clear': (), 'copy': (), 'count': (2,), 'index': (2,), '__getitem__': (0,), '__contains__': (2,),
           '__len__': (), '__iter__': (), '__eq__': ([],), '__ne__': ([],), '__add__': ([1],), '__mul__': (2,), '__rmul__': (2,), '__repr__': (), '__sizeof__': (),
           '__reversed__': (), '__ge__': ([],), '__gt__': ([],), '__le__': ([],), '__lt__': ([],), '__str__': (), '__format__': ('',), '__class_getitem__': (int,), '__sizeof__': ()},
}
RECEIVER = {dict: {'a': 1, 'b': {'c': [1, 2]}}, list: [3, 2, 1]}
SKIP = {'fromkeys', '__sizeof__', '__init__', '__new__', '__init_subclass__', '__subclasshook__', '__getattribute__', '__setattr__', '__delattr__', '__dir__', '__reduce__', '__reduce_ex__',
        '__getstate__', '__hash__', '__class__', '__doc__'}


def probe_mutators(base):
    """names of methods of the builtin that change the receiver in place when called with the canonical arguments"""
    found = set()
    for name in dir(base):
        if name in SKIP or name not in ARGS[base]: continue
        recv = copy.deepcopy(RECEIVER[base])
        before = copy.deepcopy(recv)
        try:
            getattr(recv, name)(*copy.deepcopy(ARGS[base][name]))
        except Exception:
            continue
        if recv != before: found.add(name)
    return found


def startup(rep, tier):
    disc = {}
    for base in (dict, list):
        probed = probe_mutators(base)
        unknown = [n for n in dir(base) if n not in SKIP and n not in ARGS[base]]
        if probed != HAND[base] or unknown:
            disc[base.__name__] = {'probed_not_listed': sorted(probed - HAND[base]), 'listed_not_probed': sorted(HAND[base] - probed), 'methods_without_canonical_args': unknown}
    rep.extra['mutator_spec_discrepancies'] = disc
    if disc:
        rep.errors.append('in-place mutator spec of dict/list differs between probing and the hand-written list: %r' % disc)


class FakeOwner(object):
    """stands for the entity instance: only _attr_changed_ is called on it (recorded)"""
    def __init__(self): self.changes = []
    def _attr_changed_(self, attr): self.changes.append(attr)


TRACKED = {'TrackedDict': (ormtypes.TrackedDict, dict), 'TrackedList': (ormtypes.TrackedList, list), 'TrackedArray': (ormtypes.TrackedArray, list)}


def _mk_tracked(clsname, owner):
    cls, base = TRACKED[clsname]
    attr = types.SimpleNamespace(name='j', py_type=types.SimpleNamespace(item_type=object))
    return cls(owner, attr, copy.deepcopy(RECEIVER[base])), attr, base


def _mt_configs(tier):
    out = []
    for clsname, (cls, base) in TRACKED.items():
        for name in sorted(ARGS[base]):
            if hasattr(base, name) and name not in SKIP: out.append(dict(cls=clsname, method=name))
    return out


def _mt_case(cfg, values):
    def call():
        owner = FakeOwner()
        t, attr, base = _mk_tracked(cfg['cls'], owner)
        plain = copy.deepcopy(RECEIVER[base])
        args = copy.deepcopy(ARGS[base][cfg['method']])
        owner.changes[:] = []
        try:
            want = ('ret', getattr(plain, cfg['method'])(*copy.deepcopy(args)))
        except Exception as e:
            want = ('exc', type(e))
        try:
            got = ('ret', getattr(t, cfg['method'])(*args))
        except Exception as e:
            got = ('exc', type(e))
        n_changes = len(owner.changes)
        # containers that were stored must now report their own changes
        owner.changes[:] = []
        nested_ok = True
        stack = [t]
        while stack:
            x = stack.pop()
            kids = list(x.values()) if isinstance(x, dict) else list(x) if isinstance(x, list) else []
            for k in kids:
                if isinstance(k, (dict, list)):
                    if not isinstance(k, ormtypes.TrackedValue): nested_ok = False
                    stack.append(k)
        return want, got, n_changes, nested_ok, (plain, t.get_untracked() if hasattr(t, 'get_untracked') else t), attr, owner
    return Case(call, {}, [])


def _norm_res(r):
    kind, v = r
    if kind == 'ret' and not isinstance(v, (int, str, bool, type(None), float, dict, list, tuple)):
        return (kind, type(v).__name__ if not hasattr(v, '__next__') else 'iterator')
    return r


def _mt_spec(cfg, i, path):
    if path.outcome != 'ret': return False
    want, got, n_changes, nested_ok, (plain, untracked), attr, owner = path.value
    base = TRACKED[cfg['cls']][1]
    mutator = cfg['method'] in HAND[base]
    if want[0] == 'ret' and isinstance(want[1], (dict, list)) and want[1] is not None and cfg['method'] in ('__iadd__', '__imul__', '__ior__'):
        same_result = got[0] == 'ret'           # augmented operators return the receiver itself
    else:
        same_result = _norm_res(want) == _norm_res(got)
    same_content = plain == untracked
    if mutator:
        return same_result and same_content and n_changes >= 1 and nested_ok
    return same_result and same_content and n_changes == 0


# ------------------------------------------------------------------ replacements that Python's == cannot see (True == 1 == 1.0, False == 0): they change the stored document all the same
EQ_CASES = {
    'TrackedDict': [('__setitem__', {'a': 1, 'f': 0}, ('a', True)), ('__setitem__', {'a': 1, 'f': 0}, ('f', False)), ('update', {'a': 1}, ({'a': 1.0},)), ('__ior__', {'f': 0}, ({'f': False},)),
                    ('update', {'a': True}, ({'a': 1},)), ('__setitem__', {'d': {'on': 1}}, ('d', {'on': True})), ('__setitem__', {'l': [0, 1]}, ('l', [False, True]))],
    'TrackedList': [('__setitem__', [1, 0], (0, True)), ('__setitem__', [1, 0], (slice(0, 2), [True, False])), ('reverse', [True, 1], ()), ('__setitem__', [[1]], (0, [True])),
                    ('__setitem__', [1.0], (0, 1)), ('sort', [1, True, 0], ())],
    'TrackedArray': [('__setitem__', [1, 0], (0, True)), ('reverse', [True, 1], ()), ('sort', [1, True, 0], ())],
}


def _eq_configs(tier):
    return [dict(cls=c, case=k) for c, rows in EQ_CASES.items() for k in range(len(rows))]


def _eq_case(cfg, values):
    def call():
        import json
        cls, base = TRACKED[cfg['cls']]
        method, recv, args = EQ_CASES[cfg['cls']][cfg['case']]
        owner = FakeOwner()
        attr = types.SimpleNamespace(name='j', py_type=types.SimpleNamespace(item_type=int))
        t = cls(owner, attr, copy.deepcopy(recv)); plain = copy.deepcopy(recv)
        doc_before = json.dumps(plain, sort_keys=True)
        getattr(plain, method)(*copy.deepcopy(args))
        owner.changes[:] = []
        getattr(t, method)(*copy.deepcopy(args))
        return doc_before, json.dumps(plain, sort_keys=True), json.dumps(t.get_untracked(), sort_keys=True), len(owner.changes)
    return Case(call, {}, [])


def _eq_spec(cfg, i, path):
    if path.outcome != 'ret': return False
    doc_before, doc_plain, doc_tracked, n_changes = path.value
    if doc_before == doc_plain: return doc_tracked == doc_plain                 # not a change of the document (a stable sort of equal items): nothing to report
    return doc_tracked == doc_plain and n_changes >= 1


# ------------------------------------------------------------------ Entity._attr_changed_
_M = None


def model():
    global _M
    if _M is None:
        db = orm.Database('sqlite', ':memory:')

        class D(db.Entity):
            j = orm.Optional(orm.Json)
            arr = orm.Optional(orm.IntArray)
            n = orm.Optional(int)
            vj = orm.Optional(orm.Json, volatile=True)              # volatile and non-optimistic attributes are tracked like any other
            varr = orm.Optional(orm.IntArray, volatile=True)
            nj = orm.Optional(orm.Json, optimistic=False)
            lj = orm.Optional(orm.Json, lazy=True)                 # lazy: fetched by a separate statement at the first attribute access
            larr = orm.Optional(orm.IntArray, lazy=True)
        db.generate_mapping(create_tables=True)
        with orm.db_session:
            D(j={'k': [1], 'd': {'e': {'f': [0]}}}, arr=[1, 2, 3], n=0, vj={'k': [1]}, varr=[1], nj={'k': [1]})
        _M = types.SimpleNamespace(db=db, D=D)
    return _M


def _ac_configs(tier):
    return [dict(status=s, attr=a) for s in ('loaded', 'modified', 'created', 'inserted', 'updated', 'deleted') for a in ('j', 'vj', 'varr', 'nj')]


def _ac_case(cfg, values):
    M = model()

    def call():
        try:
            with orm.db_session:
                s = cfg['status']
                if s in ('loaded', 'modified', 'updated', 'deleted'):
                    o = M.D[1]; getattr(o, cfg['attr'])
                    if s == 'modified': o.n = 1
                    if s == 'updated': o.n = 2; orm.flush()
                    if s == 'deleted': o.delete()
                else:
                    o = M.D(j={'k': [1]}, n=5, vj={'k': [1]}, varr=[1], nj={'k': [1]})
                    if s == 'inserted': orm.flush()
                cache = o._session_cache_
                before = (o._status_, o._wbits_, o in cache.objects_to_save, list(cache.objects_to_save).count(o))
                try:
                    o._attr_changed_(getattr(M.D, cfg['attr'])); res = 'ok'
                except core.OperationWithDeletedObjectError:
                    res = 'deleted-error'
                after = (o._status_, o._wbits_, list(cache.objects_to_save).count(o), cache.modified, M.D._bits_[getattr(M.D, cfg['attr'])])
                orm.rollback()
                return before, res, after
        finally:
            core.local.db2cache.clear()
    return Case(call, {}, [])


def _ac_spec(cfg, i, path):
    if path.outcome != 'ret': return False
    before, res, after = path.value
    status, wbits, queued, modified, bit = after
    if cfg['status'] == 'deleted': return res == 'deleted-error'
    if res != 'ok': return False
    if cfg['status'] == 'created':
        return status == 'created' and queued == 1          # a new object is written in full anyway
    return status == 'modified' and (wbits & bit) == bit and queued == 1 and modified is True


# ------------------------------------------------------------------ end to end: mutators at nesting depth 1..3, committed and re-read
def _paths():
    # (description, getter of the nested container from the attribute value, kind)
    return [('depth1-dict', lambda j: j, dict), ('depth2-list', lambda j: j['k'], list), ('depth2-dict', lambda j: j['d'], dict),
            ('depth3-dict', lambda j: j['d']['e'], dict), ('depth4-list', lambda j: j['d']['e']['f'], list)]


E2E_OPS = {
    dict: {'__setitem__': lambda x: x.__setitem__('new', [1]), '__delitem__': lambda x: x.__delitem__(next(iter(x))), '|=': lambda x: x.__ior__({'new': 2}),
           'update': lambda x: x.update({'new': 3}), 'setdefault': lambda x: x.setdefault('new', 4), 'pop': lambda x: x.pop(next(iter(x))), 'popitem': lambda x: x.popitem(),
           'clear': lambda x: x.clear(), 'nested-after-store': lambda x: (x.__setitem__('new', {'in': []}), x['new']['in'].append(1))},
    list: {'__setitem__': lambda x: x.__setitem__(0, 9), '__delitem__': lambda x: x.__delitem__(0), '+=': lambda x: x.__iadd__([7]), '*=': lambda x: x.__imul__(2),
           'append': lambda x: x.append(8), 'extend': lambda x: x.extend([5, 6]), 'insert': lambda x: x.insert(0, 4), 'pop': lambda x: x.pop(), 'remove': lambda x: x.remove(x[0]),
           'reverse': lambda x: (x.append(99), x.reverse()), 'sort': lambda x: (x.append(-1), x.sort()), 'clear': lambda x: x.clear(),
           'slice-assign': lambda x: x.__setitem__(slice(0, 1), [1, 2]), 'nested-after-append': lambda x: (x.append({'in': []}), x[-1]['in'].append(1))},
}


def _e2e_configs(tier):
    out = []
    for name, getter, kind in _paths():
        for op in E2E_OPS[kind]: out.append(dict(where=name, op=op, attr='j'))
    for op in E2E_OPS[list]:
        if 'nested' not in op and op != 'slice-assign': out.append(dict(where='array', op=op, attr='arr'))      # arrays hold scalars; slice assignment is rejected with TypeError
    for op in ('append', '+=', 'clear'):
        out.append(dict(where='array', op=op, attr='varr'))
    for op in ('__setitem__', '|=', 'update'):
        out.append(dict(where='depth1-dict', op=op, attr='vj')); out.append(dict(where='depth1-dict', op=op, attr='nj'))
    for op in ('append', '+='):
        out.append(dict(where='depth2-list', op=op, attr='vj'))
    for op in ('__setitem__', 'update', 'nested-after-store', 'pop'):
        out.append(dict(where='depth1-dict', op=op, attr='lj')); out.append(dict(where='depth3-dict', op=op, attr='lj'))
    for op in ('append', '+=', 'sort', '__delitem__'):
        out.append(dict(where='depth2-list', op=op, attr='lj')); out.append(dict(where='array', op=op, attr='larr'))
    return out


def _e2e_case(cfg, values):
    M = model()

    def call():
        try:
            with orm.db_session:
                doc = {'k': [1, 5], 'd': {'e': {'f': [0, 3]}, 'x': 1}}
                o = M.D(j=doc, arr=[3, 1, 2], n=0, vj=copy.deepcopy(doc), varr=[3, 1, 2], nj=copy.deepcopy(doc), lj=copy.deepcopy(doc), larr=[3, 1, 2])
                orm.commit()
                pk = o.id
            with orm.db_session:
                o = M.D[pk]
                isjson = cfg['attr'] in ('j', 'vj', 'nj', 'lj')
                if isjson:
                    getter = dict((n, g) for n, g, k in _paths())[cfg['where']]
                    kind = dict((n, k) for n, g, k in _paths())[cfg['where']]
                    target = getter(getattr(o, cfg['attr']))
                else:
                    kind = list; target = getattr(o, cfg['attr'])
                status_after_read = o._status_
                E2E_OPS[kind][cfg['op']](target)
                expected = copy.deepcopy(getattr(o, cfg['attr']).get_untracked() if isjson else list(getattr(o, cfg['attr'])))
                status_after_change = o._status_
            with orm.db_session:
                o = M.D[pk]
                stored = getattr(o, cfg['attr']).get_untracked() if isjson else list(getattr(o, cfg['attr']))
                o.delete()
            return status_after_read, status_after_change, expected, stored
        finally:
            core.local.db2cache.clear()
    return Case(call, {}, [])


def _e2e_spec(cfg, i, path):
    if path.outcome != 'ret': return False
    s1, s2, expected, stored = path.value
    return s1 == 'loaded' and s2 == 'modified' and expected == stored



# ------------------------------------------------------------------ values put INTO a tracked container after it was loaded: later nested changes belong to the new owner
SOURCES = ('plain', 'other object, same attribute', 'same object, other attribute', 'same object, same attribute', 'other object, whole value')
INSERTS = {
    '__setitem__': lambda tgt, v: tgt.__setitem__('in', v), 'update(dict)': lambda tgt, v: tgt.update({'in': v}), 'update(kw)': lambda tgt, v: tgt.update(**{'in': v}),
    'update(pairs)': lambda tgt, v: tgt.update([('in', v)]), 'setdefault': lambda tgt, v: tgt.setdefault('in', v), '|=': lambda tgt, v: tgt.__ior__({'in': v}),
    'list.append': lambda tgt, v: tgt['k'].append(v), 'list.extend': lambda tgt, v: tgt['k'].extend([v]), 'list.insert': lambda tgt, v: tgt['k'].insert(0, v),
    'list.+=': lambda tgt, v: tgt['k'].__iadd__([v]), 'list.__setitem__': lambda tgt, v: tgt['k'].__setitem__(0, v), 'list.slice-assign': lambda tgt, v: tgt['k'].__setitem__(slice(0, 1), [v]),
    'attribute assignment': None,
}


def _mv_configs(tier):
    return [dict(source=src, insert=ins) for src in SOURCES for ins in INSERTS if not (src == 'other object, whole value') or ins in ('attribute assignment', '__setitem__', 'list.append')]


def _find(doc):
    """the value that was put in, wherever the insert operation left it"""
    if isinstance(doc, dict) and 'marker' in doc: return doc
    for v in (doc.values() if isinstance(doc, dict) else doc if isinstance(doc, list) else ()):
        r = _find(v)
        if r is not None: return r


def _mv_case(cfg, values):
    M = model()

    def call():
        try:
            with orm.db_session:
                a = M.D(j={'sub': {'marker': 1, 'deep': {'lst': [1]}}, 'k': [0]}, nj={'sub': {'marker': 1, 'deep': {'lst': [1]}}, 'k': [0]})
                b = M.D(j={'k': [0]}, nj={'k': [0]})
                orm.commit(); pa, pb = a.id, b.id
            with orm.db_session:
                a, b = M.D[pa], M.D[pb]
                src = cfg['source']
                if src == 'plain': v = {'marker': 1, 'deep': {'lst': [1]}}
                elif src == 'other object, same attribute': v = a.j['sub']
                elif src == 'same object, other attribute': b.nj['sub'] = {'marker': 1, 'deep': {'lst': [1]}}; orm.commit(); v = b.nj['sub']
                elif src == 'same object, same attribute': b.j['first'] = {'marker': 1, 'deep': {'lst': [1]}}; orm.commit(); v = b.j['first']
                else: v = a.j
                if cfg['insert'] == 'attribute assignment': b.j = v if src == 'other object, whole value' else {'in': v, 'k': [0]}
                else: INSERTS[cfg['insert']](b.j, v)
                orm.commit()                                          # the move itself is saved
                # LATER, in the same session and in the next one: nested changes made through the new owner
                if src == 'other object, whole value' and cfg['insert'] == 'attribute assignment': tgt = b.j['sub']
                elif cfg['insert'].startswith('list.'): tgt = _find([x for x in b.j['k'] if isinstance(x, dict)])
                else: tgt = _find(b.j['in'])
                tgt['deep']['lst'].append(2); tgt['later'] = True
                changed_same_session = (b._status_, a._status_)
                want_b = copy.deepcopy(b.j.get_untracked())
            with orm.db_session:
                a, b = M.D[pa], M.D[pb]
                stored_b = b.j.get_untracked(); stored_a = a.j.get_untracked()
                a.delete(); b.delete()
            return changed_same_session, want_b, stored_b, stored_a
        finally:
            core.local.db2cache.clear()
    return Case(call, {}, [])


def _mv_spec(cfg, i, path):
    if path.outcome != 'ret': return False
    (sb, sa), want_b, stored_b, stored_a = path.value
    a_untouched = {'sub': {'marker': 1, 'deep': {'lst': [1]}}, 'k': [0]}
    return sb == 'modified' and sa in ('loaded', 'updated', 'inserted') and stored_b == want_b and stored_a == a_untouched


CONTRACTS = [
    Contract('tracked_method_table', ['pony.orm.ormtypes:TrackedDict', 'pony.orm.ormtypes:TrackedList', 'pony.orm.ormtypes:TrackedArray', 'pony.orm.ormtypes:tracked_method',
                                      'pony.orm.ormtypes:TrackedValue.make', 'pony.orm.ormtypes:TrackedValue._changed_'], _mt_configs, _mt_case,
             [('mutators_report_change_and_wrap_arguments_readers_do_not', _mt_spec)], doc='every method of dict / list on each tracked class'),
    Contract('tracked_method.python_equal_replacements', ['pony.orm.ormtypes:tracked_method', 'pony.orm.ormtypes:TrackedDict', 'pony.orm.ormtypes:TrackedList', 'pony.orm.ormtypes:TrackedArray'],
             _eq_configs, _eq_case, [('a_replacement_by_an_equal_value_of_another_json_type_is_reported', _eq_spec)], level='bounded', bound='16 replacements (bool <-> int <-> float, at depth 1 and 2, item and slice assignment, update, |=, reverse, sort) on the three tracked classes'),
    Contract('Entity._attr_changed_', 'pony.orm.core:Entity._attr_changed_', _ac_configs, _ac_case,
             [('marks_object_modified_and_queues_it_once', _ac_spec)], allowed_exc=()),
    Contract('in_place_change_is_persisted', ['pony.orm.ormtypes:TrackedDict', 'pony.orm.ormtypes:TrackedList', 'pony.orm.ormtypes:TrackedArray', 'pony.orm.core:Attribute.get'],
             _e2e_configs, _e2e_case, [('reading_does_not_modify_changing_does_and_commit_stores_it', _e2e_spec)], level='bounded',
             bound='nesting depth <= 4 of one document shape; every mutator incl. += *= |= and slice assignment'),
    Contract('value_put_into_a_loaded_container', ['pony.orm.ormtypes:TrackedValue.make', 'pony.orm.ormtypes:tracked_method', 'pony.orm.ormtypes:TrackedDict', 'pony.orm.ormtypes:TrackedList',
                                                   'pony.orm.dbapiprovider:JsonConverter.validate', 'pony.orm.core:Attribute.__set__'], _mv_configs, _mv_case,
             [('later_nested_changes_are_stored_for_the_new_owner_only', _mv_spec)], level='bounded',
             bound='13 ways of putting a value in x 5 origins of the value (plain, tracked value of another object / of another attribute / of the same attribute, whole value of another object)'),
]
