"""C15 (bounded part): a bulk query delete removes exactly the rows the query selects, and leaves the database that the object-by-object delete of the same query leaves.

Query.delete(bulk=True) turns the query into one DELETE statement (sqltranslation.construct_delete_sql_ast: a plain WHERE when the query has one table, otherwise
`WHERE pk IN (subquery)` with the joins, GROUP BY and HAVING of the query). For a family of queries (ordinary conditions, parameters, joins through references, conditions on
collections, aggregated conditions alone and combined with ordinary ones, subclasses of a hierarchy, subqueries, chained filters) on a freshly filled database:
  - the rows that disappear from the entity's table are exactly the rows the query SELECTs;
  - every table holds afterwards what it holds after Query.delete(bulk=False) of the same query on an identical database (that path deletes object by object with the
    in-session cascade rules of the decision-table contract);
  - no row refers to a missing row.
A bulk delete that is refused as a whole (an exception of the translator or of the database) must leave the database as it was; whether the statement should have been
accepted is not this property's business (seen on the pinned tree: an uncorrelated exists(...) over joined tables inside a bulk delete is refused by SQLite with
'ambiguous column name', because aliases stay suppressed inside the subquery of an alias-less DELETE)."""
import types
from vf.verify import Case
from pony import orm
from pony.orm import core
from pony.orm import select, count, exists, sum as sum_, max as max_

BOUND = 'one model (Group - Student(Person) - Course many-to-many, Note with cascade, Teacher), one data set (4 groups, 6 students, 1 teacher, 3 courses, 4 notes), 27 queries'
_M = None


def model():
    global _M
    if _M is None:
        db = orm.Database('sqlite', ':memory:')

        class Group(db.Entity):
            dept = orm.Required(int)
            students = orm.Set('Student')
            notes = orm.Set('Note', cascade_delete=True)

        class Person(db.Entity):
            name = orm.Required(str)

        class Student(Person):
            group = orm.Optional(Group)
            courses = orm.Set('Course')
            age = orm.Optional(int)

        class Teacher(Person):
            degree = orm.Optional(str)

        class Course(db.Entity):
            title = orm.Required(str)
            students = orm.Set(Student)

        class Note(db.Entity):
            group = orm.Optional(Group)
            text = orm.Required(str)
        db.generate_mapping(create_tables=True)
        _M = types.SimpleNamespace(db=db, Group=Group, Person=Person, Student=Student, Teacher=Teacher, Course=Course, Note=Note)
    return _M


def fill(M):
    with orm.db_session:
        for t in ('Course_Student', 'Note', 'Person', 'Course', 'Group'): M.db.execute('delete from "%s"' % t)
        M.db.execute('insert into "Group"(id, dept) values (1, 1), (2, 1), (3, 2), (4, 2)')
        M.db.execute("insert into Course(id, title) values (1, 'c1'), (2, 'c2'), (3, 'c3')")
        M.db.execute("""insert into Person(id, name, classtype, "group", age, degree) values (1, 's1', 'Student', 1, 20, null), (2, 's2', 'Student', 1, 21, null), (3, 's3', 'Student', 2, null, null),
                        (4, 's4', 'Student', 3, 22, null), (5, 's5', 'Student', 3, 20, null), (6, 's6', 'Student', 4, 30, null), (7, 't7', 'Teacher', null, null, 'phd')""")
        M.db.execute('insert into Course_Student(course, student) values (1, 1), (2, 1), (1, 2), (1, 4), (2, 4), (3, 4), (3, 6)')
        M.db.execute("""insert into Note(id, "group", text) values (1, 1, 'n1'), (2, 2, 'n2'), (3, 3, 'n3'), (4, 4, 'n4')""")


def snapshot(M):
    with orm.db_session:
        return dict(groups=sorted(M.db.select('select id, dept from "Group"')), persons=sorted(M.db.select('select id, classtype, "group" from Person'), key=repr),
                    notes=sorted(M.db.select('select id, "group" from Note'), key=repr), links=sorted(M.db.select('select course, student from Course_Student')),
                    courses=sorted(M.db.select('select id from Course')))


def _q_dept(M, d): return select(g for g in M.Group if g.dept == d)
def _q_getattr(M, name, v): return select(s for s in M.Student if getattr(s, name) == v)

QUERIES = {
    'every group': ('Group', lambda M: M.Group.select()),
    'groups of a department': ('Group', lambda M: select(g for g in M.Group if g.dept == 1)),
    'groups of a department given as a parameter': ('Group', lambda M: _q_dept(M, 2)),
    'groups with more than one student': ('Group', lambda M: select(g for g in M.Group if count(g.students) > 1)),
    'groups of a department with more than one student': ('Group', lambda M: select(g for g in M.Group if g.dept == 1 and count(g.students) > 1)),
    'groups of a department (first filter) with more than one student (second filter)': ('Group', lambda M: M.Group.select(lambda g: g.dept == 2).filter(lambda g: count(g.students) > 1)),
    'groups with more than one student (first filter) of a department (second filter)': ('Group', lambda M: M.Group.select(lambda g: count(g.students) > 1).where(lambda g: g.dept == 2)),
    'groups whose students are 42 years old in sum': ('Group', lambda M: select(g for g in M.Group if sum_(g.students.age) == 42 and g.dept > 0)),
    'groups whose oldest student is 30': ('Group', lambda M: select(g for g in M.Group if max_(g.students.age) == 30)),
    'groups without students': ('Group', lambda M: select(g for g in M.Group if not g.students)),
    'groups that have a student with a course': ('Group', lambda M: select(g for g in M.Group if exists(s for s in g.students if s.courses))),
    'groups some student of which is called s4': ('Group', lambda M: select(g for g in M.Group if 's4' in g.students.name)),
    'groups with a note n2': ('Group', lambda M: select(g for g in M.Group for n in g.notes if n.text == 'n2')),
    'every person': ('Person', lambda M: M.Person.select()),
    'every student': ('Person', lambda M: M.Student.select()),
    'every teacher': ('Person', lambda M: M.Teacher.select()),
    'students with more than one course': ('Person', lambda M: select(s for s in M.Student if count(s.courses) > 1)),
    'students not called s4 with a course': ('Person', lambda M: select(s for s in M.Student if s.name != 's4' and count(s.courses) >= 1)),
    'students of a department': ('Person', lambda M: select(s for s in M.Student if s.group.dept == 2)),
    'students aged 20': ('Person', lambda M: _q_getattr(M, 'age', 20)),
    'students aged 20 (after a bulk delete made by the same code object with another attribute)': ('Person', lambda M: _q_getattr(M, 'age', 20), lambda M: _q_getattr(M, 'id', 99).delete(bulk=True)),
    'every group if some student belongs to department 2': ('Group', lambda M: select(g for g in M.Group if exists(s for s in M.Student if s.group.dept == 2))),
    'students who take course 3': ('Person', lambda M: select(s for s in M.Student if M.Course[3] in s.courses)),
    'students without age': ('Person', lambda M: select(s for s in M.Student if s.age is None)),
    'persons with a name above s3': ('Person', lambda M: select(p for p in M.Person if p.name > 's3')),
    'students older than the average': ('Person', lambda M: select(s for s in M.Student if s.age > orm.avg(x.age for x in M.Student))),
    'courses nobody of department 1 takes': ('Course', lambda M: select(c for c in M.Course if not exists(s for s in c.students if s.group.dept == 1))),
}


def configs(tier):
    return [dict(query=q) for q in QUERIES]


def _reset():
    try: orm.rollback()
    except Exception: pass
    core.local.db2cache.clear(); core.local.db_context_counter = 0; core.local.db_session = None


def case(cfg, values):
    def call():
        M = model(); kind, make = QUERIES[cfg['query']][:2]; bad = []; prime = QUERIES[cfg['query']][2:]
        key = {'Group': 'groups', 'Person': 'persons', 'Course': 'courses'}[kind]
        ids = lambda snap: sorted(r[0] if isinstance(r, tuple) else r for r in snap[key])
        try:
            fill(M); before = snapshot(M)
            with orm.db_session: selected = sorted(o.id for o in make(M)[:])
            try:
                with orm.db_session: make(M).delete(bulk=False)
                one_by_one = snapshot(M)
            except Exception as e: one_by_one = 'raises %s' % type(e).__name__
            fill(M)
            if prime:
                M.db._constructed_sql_cache.clear()                        # the order of the configurations must not matter: the priming statement is the first bulk delete of its code object
                with orm.db_session: prime[0](M)
            try:
                with orm.db_session: n = make(M).delete(bulk=True)
                after = snapshot(M)
            except Exception as e:
                # a statement that is refused as a whole (by the translator or by the database) deletes nothing: the property speaks about what a delete leaves behind
                _reset(); after = snapshot(M)
                return [] if after == before else [('the bulk delete raises %s: %s' % (type(e).__name__, str(e)[:100]), 'and the database is not what it was: %r' % (after,))]
            removed = sorted(set(ids(before)) - set(ids(after)))
            if removed != selected: bad.append(('the query selects %r, the bulk delete removed %r' % (selected, removed),))
            if n != len(selected): bad.append(('the bulk delete reports %r rows, the query selects %d' % (n, len(selected)),))
            if after != one_by_one: bad.append(('database after the bulk delete: %r' % (after,), 'after deleting object by object: %r' % (one_by_one,)))
            groups = {g[0] for g in after['groups']}; persons = {p[0] for p in after['persons']}; courses = set(after['courses'])
            for pid, ct, gid in after['persons']:
                if gid is not None and gid not in groups: bad.append(('Person[%d] refers to the deleted Group[%d]' % (pid, gid),))
            for nid, gid in after['notes']:
                if gid is not None and gid not in groups: bad.append(('Note[%d] refers to the deleted Group[%d]' % (nid, gid),))
            for c, s in after['links']:
                if s not in persons or c not in courses: bad.append(('a link row (%d, %d) refers to a deleted row' % (c, s),))
        finally:
            _reset()
            try: fill(M)
            except Exception: pass
            _reset()
        return bad[:4]
    return Case(call, {}, [], lambda r: _reset(), lambda r: _reset())


def spec(cfg, i, path):
    return path.outcome == 'ret' and path.value == []
