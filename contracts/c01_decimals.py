"""C01 (bounded part): arithmetic and comparisons of Decimal attributes with constants and PARAMETERS, against CPython's evaluation of the same expression, on real SQLite.

A Decimal parameter reaches SQLite as text; a column of declared type DECIMAL converts it when compared (column affinity), a computed expression does not. Every condition below is
source text: pony gets `E.select(lambda e: text)`, CPython evaluates the same text on the loaded objects (Decimal arithmetic is exact for the values used)."""
import types
from decimal import Decimal
from vf.verify import Case
from pony import orm
from pony.orm import core

BOUND = 'one entity with two Decimal attributes (one nullable) and a float; 6 rows; 40 conditions: column or expression on the left, Decimal constant / Decimal parameter / int / float on the right'
_M = None


def model():
    global _M
    if _M is None:
        db = orm.Database('sqlite', ':memory:')

        class E(db.Entity):
            id = orm.PrimaryKey(int)
            d = orm.Required(Decimal, precision=10, scale=2)
            d2 = orm.Optional(Decimal, precision=10, scale=2)
            f = orm.Required(float)
        db.generate_mapping(create_tables=True)
        with orm.db_session:
            for i, (d, d2, f) in enumerate((('1.50', '3.00', 1.5), ('2.25', None, 2.25), ('10.00', '10.00', 10.0), ('0.00', '0.10', 0.0), ('-3.50', '7.00', -3.5), ('100.00', '99.99', 100.0)), 1):
                E(id=i, d=Decimal(d), d2=None if d2 is None else Decimal(d2), f=f)
        _M = types.SimpleNamespace(db=db, E=E)
    return _M


ENV = dict(Decimal=Decimal, D3=Decimal('3.00'), D3i=Decimal('3'), D15=Decimal('1.50'), D10=Decimal('10'), Dneg=Decimal('-7.00'), D0=Decimal('0'))
COND = [
    'e.d == D15', 'e.d < D3', 'e.d >= D10', 'e.d != D15', 'e.d in (D15, D10)', 'e.d == Decimal("1.50")', 'e.d == 10', 'e.d > 2', 'e.d2 == D3', 'e.d2 > e.d', 'e.d2 == e.d',
    'e.d * 2 == D3', 'e.d * 2 == D3i', 'e.d * 2 == 3', 'e.d * 2 == Decimal("3.00")', 'e.d + 1 > D3', 'e.d + 1 > 3', 'e.d * 1 < D3', 'e.d - D15 == D0', 'e.d - D15 == 0', 'e.d * 2 == Dneg', 'e.d + e.d == D3',
    '-e.d > D3', 'abs(e.d) > D3', 'e.d * 2 in (D3, D10)', 'e.d + D15 == D3', 'e.d + D15 > e.d2', 'e.d2 - e.d == D15', 'e.d2 - e.d > D0', 'e.d * 2 <= e.d2', 'D3 == e.d * 2', 'D3 < e.d + 1',
    'e.d / 2 < D15', 'e.d * e.d == Decimal("2.25")', 'e.f * 2 == 3.0', 'e.f + 1 > 3', 'e.d * 2 > e.f', 'e.d == e.f', 'e.d * 2 == 3.0', 'max(e.d, D3) == D3',
]


def configs(tier):
    return [dict(text=t) for t in COND]


def _reset():
    try: orm.rollback()
    except Exception: pass
    core.local.db2cache.clear(); core.local.db_context_counter = 0; core.local.db_session = None


def case(cfg, values):
    def call():
        M = model(); env = dict(ENV); text = cfg['text']
        f = eval('lambda e: ' + text, env)
        with orm.db_session:
            objs = list(M.E.select().order_by(M.E.id))
            want = []
            for o in objs:
                try:
                    if f(o) is True: want.append(o.id)
                except TypeError: pass                              # an operation on a missing value (or Decimal with float: Python refuses) does not select the row
            try: got = sorted(o.id for o in M.E.select(f))
            except (core.TranslationError, NotImplementedError, TypeError) as e: return ['rejected', type(e).__name__]
            if got != want: return ['differs', 'pony selects %r' % got, 'python selects %r' % want, M.db.last_sql.replace('\n', ' ')[-90:]]
            return []
    return Case(call, {}, [], lambda r: _reset(), lambda r: _reset())


def spec(cfg, i, path):
    """equal to Python, or refused (a query Pony cannot translate raises an error)"""
    return path.outcome == 'ret' and (path.value == [] or path.value[:1] == ['rejected'])
