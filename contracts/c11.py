"""C11 One in-memory object per primary key per session (DESIGN 4-C11, Appendix A5): the session's key indexes as maps.

cache.indexes[attr] is a SymDict: Array(key -> code) with ARBITRARY content (code 0 = absent, 1 = obj, 2 = another object).
Representation invariant INV(obj, old): index[old] is obj when old is a value, and obj occurs under no other key — a PRECONDITION
of every index function, re-established for the new value by its postcondition. Whole-view postconditions: every key k (skolem)."""
import itertools, types, z3
from vf.verify import Contract, Case
from vf.inputs import Inputs, term, same
from vf.explore import cur
from vf.proxy import SymDict, ObjUniverse, SRef, ABSENT
from vf import logic as L
from pony import orm
from pony.orm import core

META = dict(
    level='proof',
    explanation='index maps with arbitrary symbolic content (z3 arrays), all paths of the real index functions: after the call the map is the old map with '
                'exactly new -> obj added and old removed (every other key unchanged, skolem key), an occupied key raises and changes nothing, and the '
                'representation invariant is re-established for the new value; identity-map lookup returns the registered object or registers the new one at exactly pk',
    trusted_base=['SymDict: CPython dict semantics of get / setdefault / pop / __getitem__ / __setitem__ / __delitem__ incl. KeyError on z3 arrays',
                  'the representation invariant INV is assumed at entry (its preservation by each function is proved; that it holds at every point of every '
                  'history is the induction over histories, not claimed)'],
    assumptions=['composite keys: tuples of arity 2 and 3 of symbolic ints (BOUNDED arity), reported separately',
                 'which functions call the index functions, and in which order, is covered by C13/C14 contracts, not here'],
)
OBJ, OTHER = z3.IntVal(1), z3.IntVal(2)
K = z3.Int('k!any')


class Ent(object):
    """stands for an entity instance in error messages"""
    def __init__(self, n): self.n = n
    def __repr__(self): return 'E[%s]' % self.n


class AttrBag(object):
    def __init__(self, name): self.name = name
    def __repr__(self): return 'E.' + self.name


def _inv(M0, old_term, arity=1):
    """INV: obj occurs exactly under `old` (a tuple of terms, or None when obj is not indexed)"""
    ks = [z3.Int('kk%d' % j) for j in range(arity)]
    sel = z3.Select(M0, *ks)
    if old_term is None:
        return [z3.ForAll(ks, sel != OBJ)]
    old = old_term if isinstance(old_term, tuple) else (old_term,)
    return [z3.Select(M0, *old) == OBJ, z3.ForAll(ks, z3.Implies(sel == OBJ, z3.And(*[k == o for k, o in zip(ks, old)])))]


# ------------------------------------------------------------------ update_simple_index / db_update_simple_index
def _si_configs(tier):
    return [dict(fn=f, old=o, new=n) for f in ('update_simple_index', 'db_update_simple_index')
            for o in ('val', 'None', 'NOT_LOADED') for n in ('val', 'None')]


def _si_case(cfg, values):
    I = Inputs(values)
    M0 = z3.Array('M0', z3.IntSort(), z3.IntSort())
    old = I.int('old') if cfg['old'] == 'val' else None
    new = I.int('new') if cfg['new'] == 'val' else None
    pre = list(I.pre) + _inv(M0, term(old) if cfg['old'] == 'val' else None)
    obj, other = Ent(1), Ent(2)

    def call():
        st = cur().state
        d = SymDict(M0, 1, ObjUniverse([obj, other]), 'M')
        attr = AttrBag('u')
        cache = types.SimpleNamespace(indexes={attr: d})
        undo = []
        st.update(d=d, undo=undo, obj=obj)
        ov = {'val': old, 'None': None, 'NOT_LOADED': core.NOT_LOADED}[cfg['old']]
        if cfg['fn'] == 'update_simple_index':
            return core.SessionCache.update_simple_index(cache, obj, attr, ov, new, undo)
        return core.SessionCache.db_update_simple_index(cache, obj, attr, ov, new)
    inputs = dict(I.terms); inputs['M0'] = M0
    # ghost observations of the arbitrary initial map, so that a counter-model names a concrete map
    inputs['k'] = K; inputs['M0_at_k'] = z3.Select(M0, K)
    if new is not None: inputs['M0_at_new'] = z3.Select(M0, term(new))
    return Case(call, inputs, pre)


def _si_replay(cfg, values, doc):
    """Native replay on a real dict built from the counter-model: {old: obj} (INV) plus the model's content at new and at k."""
    obj, other = Ent(1), Ent(2)
    code = {0: None, 1: obj, 2: other}
    old = values.get('old'); new = values.get('new'); k = values.get('k')
    d = {}
    if k is not None and code.get(values.get('M0_at_k')) is other: d[k] = other
    if new is not None and code.get(values.get('M0_at_new')) is other: d[new] = other
    if cfg['old'] == 'val': d[old] = obj
    before = dict(d)
    attr = AttrBag('u'); cache = types.SimpleNamespace(indexes={attr: d}); undo = []
    ov = {'val': old, 'None': None, 'NOT_LOADED': core.NOT_LOADED}[cfg['old']]
    try:
        if cfg['fn'] == 'update_simple_index': core.SessionCache.update_simple_index(cache, obj, attr, ov, new, undo)
        else: core.SessionCache.db_update_simple_index(cache, obj, attr, ov, new)
        raised = None
    except Exception as e:
        raised = type(e).__name__
    want = dict(before)
    conflict = new is not None and before.get(new) is other and not (cfg['old'] == 'val' and old == new)
    if not conflict and not (cfg['old'] == 'val' and cfg['new'] == 'val' and old == new):
        if cfg['old'] == 'val': want.pop(old, None)
        if new is not None: want[new] = obj
    ok = (d == want) and ((raised is not None) == conflict)
    if cfg['fn'] == 'update_simple_index' and not conflict:
        changed = not (cfg['old'] == 'val' and cfg['new'] == 'val' and old == new) and not (cfg['old'] == 'None' and new is None)
        exp_undo = [(d, old if cfg['old'] == 'val' else None, new)] if changed else []
        ok = ok and len(undo) == len(exp_undo) and all(u[1:] == e[1:] for u, e in zip(undo, exp_undo))
    if cfg['fn'] == 'update_simple_index' and conflict: ok = ok and undo == []          # a refused change leaves nothing to undo
    return {'reproduced': not ok, 'initial_map': repr(before), 'final_map': repr(d), 'expected_map': repr(want), 'raised': raised, 'undo': repr([u[1:] for u in undo])}


def _si_view(cfg, i, path):
    d = path.state['d']; M0 = i['M0']
    M = d.arr
    old = i.get('old'); new = i.get('new')
    occupied = (z3.Select(M0, new) == OTHER) if new is not None else False
    unchanged = z3.Select(M, K) == z3.Select(M0, K)
    same_key = L.Eq(old, new) if (old is not None and new is not None) else (old is None and new is None and cfg['old'] != 'NOT_LOADED')
    if path.outcome == 'exc':
        # raises exactly on an occupied key, and then nothing at all changed
        return L.And(occupied, L.Not(same_key), unchanged, len(path.state['undo']) == 0)
    want = z3.Select(M0, K)
    if old is not None: want = z3.If(K == old, ABSENT, want)
    if new is not None: want = z3.If(K == new, OBJ, want)
    return L.And(L.Not(L.And(occupied, L.Not(same_key))), L.ite(same_key, unchanged, z3.Select(M, K) == want))


def _si_inv_reestablished(cfg, i, path):
    if path.outcome != 'ret': return None
    M = path.state['d'].arr
    new = i.get('new')
    if new is None:
        return z3.Select(M, K) != OBJ
    return L.And(z3.Select(M, new) == OBJ, z3.Implies(z3.Select(M, K) == OBJ, K == new))


def _si_undo_record(cfg, i, path):
    if cfg['fn'] != 'update_simple_index' or path.outcome != 'ret': return None
    undo = path.state['undo']; d = path.state['d']
    old = i.get('old'); new = i.get('new')
    same_key = L.Eq(old, new) if (old is not None and new is not None) else (old is None and new is None and cfg['old'] != 'NOT_LOADED')
    if len(undo) == 0:
        return same_key
    if len(undo) != 1: return False
    ci, o, n = undo[0]
    ok = ci is d and ((o is None) if old is None else same(o, old)) and ((n is None) if new is None else same(n, new))
    return L.And(L.Not(same_key), bool(ok))


def _si_exc_type(cfg, i, path):
    if path.outcome != 'exc': return None
    return isinstance(path.value, core.CacheIndexError if cfg['fn'] == 'update_simple_index' else core.TransactionIntegrityError)


# ------------------------------------------------------------------ composite indexes (arity bounded)
def _ci_configs(tier):
    out = []
    for f in ('update_composite_index', 'db_update_composite_index'):
        for ar in (2, 3):
            for o in ('vals', 'has_None'):
                for n in ('vals', 'has_None'):
                    out.append(dict(fn=f, arity=ar, old=o, new=n))
    return out


def _ci_case(cfg, values):
    I = Inputs(values)
    ar = cfg['arity']
    M0 = z3.Array('M0', *([z3.IntSort()] * ar + [z3.IntSort()]))
    olds = tuple(I.int('old%d' % j) for j in range(ar))
    news = tuple(I.int('new%d' % j) for j in range(ar))
    old_t = tuple(term(x) for x in olds); new_t = tuple(term(x) for x in news)
    if cfg['old'] == 'has_None': olds = (None,) + olds[1:]
    if cfg['new'] == 'has_None': news = news[:-1] + (None,)
    pre = list(I.pre) + _inv(M0, old_t if cfg['old'] == 'vals' else None, ar)
    obj, other = Ent(1), Ent(2)

    def call():
        st = cur().state
        d = SymDict(M0, ar, ObjUniverse([obj, other]), 'M')
        attrs = tuple(AttrBag('a%d' % j) for j in range(ar))
        cache = types.SimpleNamespace(indexes={attrs: d})
        undo = []
        st.update(d=d, undo=undo)
        if cfg['fn'] == 'update_composite_index':
            return core.SessionCache.update_composite_index(cache, obj, attrs, olds, news, undo)
        return core.SessionCache.db_update_composite_index(cache, obj, attrs, olds, news)
    inputs = dict(I.terms); inputs['M0'] = M0; inputs['_old'] = old_t; inputs['_new'] = new_t
    return Case(call, inputs, pre)


def _ci_view(cfg, i, path):
    ar = cfg['arity']
    Ks = [z3.Int('k!any%d' % j) for j in range(ar)]
    M = path.state['d'].arr; M0 = i['M0']
    old = i['_old'] if cfg['old'] == 'vals' else None
    new = i['_new'] if cfg['new'] == 'vals' else None
    keq = lambda t: z3.And(*[k == x for k, x in zip(Ks, t)])
    unchanged = z3.Select(M, *Ks) == z3.Select(M0, *Ks)
    occupied = (z3.Select(M0, *new) == OTHER) if new is not None else False
    if old is not None and new is not None: same_key = z3.And(*[a == b for a, b in zip(old, new)])
    else: same_key = old is None and new is None
    if path.outcome == 'exc':
        return L.And(occupied, L.Not(same_key), unchanged, len(path.state['undo']) == 0)
    want = z3.Select(M0, *Ks)
    if old is not None: want = z3.If(keq(old), ABSENT, want)
    if new is not None: want = z3.If(keq(new), OBJ, want)
    return L.And(L.Not(L.And(occupied, L.Not(same_key))), L.ite(same_key, unchanged, z3.Select(M, *Ks) == want))


def _ci_undo(cfg, i, path):
    """the undo list is part of the function's result: a change of the index leaves exactly one entry (index, old key or None, new key or None) - callers restore from it"""
    if cfg['fn'] != 'update_composite_index' or path.outcome != 'ret': return None
    undo = path.state['undo']
    old = i['_old'] if cfg['old'] == 'vals' else None
    new = i['_new'] if cfg['new'] == 'vals' else None
    if old is None and new is None: return len(undo) == 0
    if old is not None and new is not None:
        same_key = z3.And(*[a == b for a, b in zip(old, new)])
        if len(undo) == 0: return same_key                      # (nothing recorded only when nothing changed)
    if len(undo) != 1 or undo[0][0] is not path.state['d']: return False
    def eq(entry, key):
        if key is None: return entry is None
        if entry is None or len(entry) != len(key): return False
        return z3.And(*[term(e) == k for e, k in zip(entry, key)])
    return L.And(eq(undo[0][1], old), eq(undo[0][2], new))


# ------------------------------------------------------------------ EntityMeta._get_from_identity_map_ (real entities, real session cache)
_M = None


def model():
    global _M
    if _M is None:
        db = orm.Database('sqlite', ':memory:')

        class A(db.Entity):
            id = orm.PrimaryKey(int)
            x = orm.Optional(int)

        class B(A):
            y = orm.Optional(int)
        db.generate_mapping(create_tables=True)
        _M = types.SimpleNamespace(db=db, A=A, B=B)
    return _M


def _im_configs(tier):
    return [dict(entity=e, status=s) for e in ('A', 'B') for s in ('loaded', 'created')]


def _im_case(cfg, values):
    I = Inputs(values)
    pk = I.int('pk')
    M0 = z3.Array('M0', z3.IntSort(), z3.IntSort())
    M = model()

    def setup(run):
        core.local.db2cache.clear()

    def teardown(run):
        core.local.db2cache.clear(); core.local.db_context_counter = 0; core.local.db_session = None

    def call():
        st = cur().state
        core.local.db_context_counter = 1
        cache = M.db._get_cache()
        # two registered objects the index may hold: an A and a B (same root), both untouched (no read / write bits)
        a = object.__new__(M.A); b = object.__new__(M.B)
        for o in (a, b):
            o._rbits_ = o._wbits_ = 0; o._pkval_ = 0; o._status_ = 'loaded'; o._vals_ = {}; o._dbvals_ = {}; o._session_cache_ = cache
        U = ObjUniverse([a, b]); U.open = True
        d = SymDict(M0, 1, U, 'M')
        cache.indexes[M.A._pk_attrs_] = d
        entity = getattr(M, cfg['entity'])
        st.update(d=d, a=a, b=b, cache=cache, U=U, n0=2)
        undo = [] if cfg['status'] == 'created' else None
        return entity._get_from_identity_map_(pk, cfg['status'], undo_funcs=undo)
    inputs = dict(I.terms); inputs['M0'] = M0
    return Case(call, inputs, list(I.pre), setup, teardown)


def _im_spec(cfg, i, path):
    st = path.state; d = st['d']; M0 = i['M0']; pk = i['pk']
    M = d.arr; U = st['U']
    cur0 = z3.Select(M0, pk)
    unchanged_elsewhere = z3.Implies(K != pk, z3.Select(M, K) == z3.Select(M0, K))
    if path.outcome == 'exc':
        # creation over an occupied key is refused; nothing changes
        allowed = cfg['status'] == 'created' and isinstance(path.value, core.CacheIndexError)
        return L.And(bool(allowed), cur0 != ABSENT, z3.Select(M, K) == z3.Select(M0, K))
    r = path.value
    if isinstance(r, SRef):
        # an object already registered under pk is returned itself (never a second object), the map is untouched
        real = r.resolved
        entity = getattr(model(), cfg['entity'])
        cls_ok = real is not None and (isinstance(real, entity) or issubclass(entity, type(real)))
        return L.And(cfg['status'] == 'loaded', cur0 == r.e, cur0 != ABSENT, z3.Select(M, K) == z3.Select(M0, K), bool(cls_ok))
    code = U.code_of(r)
    if code is None or r is st['a'] or r is st['b']: return False
    # a new object: registered at exactly pk, with the requested class and status
    ok = type(r) is getattr(model(), cfg['entity']) and r._status_ == cfg['status'] and same(r._pkval_, pk) and r in st['cache'].objects
    return L.And(cur0 == ABSENT, z3.Select(M, pk) == code, unchanged_elsewhere, bool(ok))


def _im_refinement(cfg, i, path):
    """class refinement only towards a subclass, and only of an untouched object; never a downgrade"""
    st = path.state
    a, b = st['a'], st['b']
    if type(b) is not model().B: return False                       # a B never changes class
    if type(a) is model().B:
        return path.outcome == 'ret' and cfg['entity'] == 'B' and isinstance(path.value, SRef) and path.value.resolved is a
    return type(a) is model().A


CONTRACTS = [
    Contract('simple_index', ['pony.orm.core:SessionCache.update_simple_index', 'pony.orm.core:SessionCache.db_update_simple_index'], _si_configs, _si_case,
             [('whole_view_new_added_old_removed_rest_unchanged', _si_view), ('invariant_reestablished_for_new_value', _si_inv_reestablished),
              ('undo_record_exact', _si_undo_record), ('conflict_exception_type', _si_exc_type)],
             allowed_exc=(core.CacheIndexError, core.TransactionIntegrityError), replay=_si_replay),
    Contract('composite_index', ['pony.orm.core:SessionCache.update_composite_index', 'pony.orm.core:SessionCache.db_update_composite_index'], _ci_configs, _ci_case,
             [('whole_view_new_added_old_removed_rest_unchanged', _ci_view), ('undo_record_exact', _ci_undo)], level='bounded', bound='key arity 2 and 3',
             allowed_exc=(core.CacheIndexError, core.TransactionIntegrityError), replay=False),
    Contract('_get_from_identity_map_', 'pony.orm.core:EntityMeta._get_from_identity_map_', _im_configs, _im_case,
             [('returns_registered_object_or_registers_at_exactly_pk', _im_spec), ('class_refinement_only_to_subclass', _im_refinement)],
             allowed_exc=(core.CacheIndexError,), replay=False),
]

from contracts import c11_rawkeys as RKY
CONTRACTS += [Contract('raw_key_resolution', ['pony.orm.core:EntityMeta._get_by_raw_pkval_', 'pony.orm.core:EntityMeta.__getitem__', 'pony.orm.core:EntityMeta._get_from_identity_map_', 'pony.orm.core:unpickle_entity'],
                       RKY.configs, RKY.case, [('every_way_of_reaching_a_row_hands_out_the_same_object_with_its_own_key', RKY.spec)], level='bounded', bound=RKY.BOUND)]
CONTRACTS += [Contract('key_of_a_key_given_raw', ['pony.orm.core:EntityMeta._get_by_raw_pkval_', 'pony.orm.core:Attribute.validate', 'pony.orm.core:EntityMeta._normalize_args_'],
                       RKY.kk_configs, RKY.kk_case, [('one_object_per_row_whatever_the_spelling_of_the_raw_key', RKY.spec)], level='bounded', bound=RKY.BOUND_KK)]


from contracts import c13 as _c13
# a refused / failed modification must leave the session as it was - identity map, key indexes, save queue and statuses included (contracted under C13 and shared here:
# a refused cascading delete that loses an index entry yields a second object for one key (C11) and a delete that cannot be retried (C15))
CONTRACTS += [c for c in _c13.CONTRACTS if c.id == 'handlers_with_fault_injection']
