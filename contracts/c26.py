"""C26 Generated schemas are well formed and match the entity model (DESIGN 4-C26).

PROOF (symbolic strings, lengths in z3): normalize_name of every provider returns a string of length min(len(name), max_name_len); every
get_default_*_name function returns a string of length <= max_name_len for ARBITRARY entity / attribute / column names (lower() / upper() assumed length preserving).
PROOF (finite): Table / DBIndex / ForeignKey / Constraint constructors register a name only if it is unused and raise DBSchemaError otherwise, leaving the registry
unchanged (so registered names are pairwise distinct).
BOUNDED: a family of entity models (attribute kinds and options, composite keys and indexes, relationships of every shape incl. composite foreign keys and
self references, inheritance, custom names, long names, qualified table names) is mapped on real SQLite: create_tables succeeds, the catalog
(PRAGMA table_info / index_list / foreign_key_list) matches hand-written expectations and the entity model, check_tables passes; and for PostgreSQL, MySQL and
Oracle the DDL is generated from the real schema objects: every name is within max_name_len, schema-level names are pairwise distinct, column names distinct per table
- or the declaration is rejected when the mapping is generated."""
import types, re, z3
from vf.verify import Contract, Case
from vf.inputs import Inputs, term
from vf.explore import cur
from vf.proxy import SymStr
from vf import logic as L
from contracts import stubs
stubs.install_driver_stubs()
from pony import orm
from pony.orm import core, dbschema, dbapiprovider as dp
from pony.orm.dbproviders import postgres as pg, mysql, oracle, sqlite as sq
import datetime, decimal

META = dict(
    level='proof',
    explanation='name length bounds proved for arbitrary strings (symbolic lengths); name registry uniqueness decided on the real constructors; catalog introspection on SQLite and '
                'DDL name checks for the server dialects on an enumerated family of models (bounded)',
    trusted_base=['str.lower() / str.upper() preserve length (true for the ASCII identifiers pony generates; assumed for arbitrary input)',
                  'provider objects for PostgreSQL / MySQL / Oracle are constructed without a connection (object.__new__), so server-side checks are not exercised'],
    assumptions=['catalog comparison on SQLite only; for the other dialects only the generated DDL text is examined', 'the model family is finite (bounded)'],
)
PROVIDERS = {'generic': dp.DBAPIProvider, 'postgres': pg.PGProvider, 'mysql': mysql.MySQLProvider, 'oracle': oracle.OraProvider, 'sqlite': sq.SQLiteProvider}


def _prov(name):
    p = object.__new__(PROVIDERS[name])
    return p


class Bag(object):
    def __init__(self, **kw): self.__dict__.update(kw)


def _sym(values, name):
    """a symbolic string input with a ghost length (replayed as 'x' * length)"""
    if values is None: return SymStr.sym(name), z3.Int('len!' + name)
    n = int(values['len_' + name]); return 'x' * n, n


# ------------------------------------------------------------------ normalize_name
def _nn_case(cfg, values):
    I = Inputs(values)
    s, n = _sym(values, 'name')
    I.terms['len_name'] = n
    if values is None: I.require(n >= 0)
    p = _prov(cfg['provider'])
    return Case(lambda: p.normalize_name(s), I.terms, I.pre)


def _len(v):
    if isinstance(v, str): return len(v)
    return term(v.vf_len())


def _nn_spec(cfg, i, path):
    if path.outcome != 'ret': return False
    mx = PROVIDERS[cfg['provider']].max_name_len
    n = i['len_name']
    return L.Eq(_len(path.value), L.ite(n <= mx, n, mx))


# ------------------------------------------------------------------ get_default_* names
def _dn_configs(tier):
    out = []
    for p in PROVIDERS:
        out += [dict(provider=p, fn='entity_table_name'), dict(provider=p, fn='m2m_table_name', symmetric=False), dict(provider=p, fn='m2m_table_name', symmetric=True),
                dict(provider=p, fn='column_names', pk_columns=0), dict(provider=p, fn='column_names', pk_columns=1), dict(provider=p, fn='column_names', pk_columns=2),
                dict(provider=p, fn='m2m_column_names', pk_columns=1), dict(provider=p, fn='m2m_column_names', pk_columns=2),
                dict(provider=p, fn='index_name', kind='pk'), dict(provider=p, fn='index_name', kind='unique'), dict(provider=p, fn='index_name', kind='m2m'),
                dict(provider=p, fn='index_name', kind='plain'), dict(provider=p, fn='fk_name')]
    return out


def _dn_case(cfg, values):
    I = Inputs(values)
    S = {}
    for nm in ('e1', 'e2', 'a1', 'a2', 'c1', 'c2', 't1', 't2'):
        S[nm], n = _sym(values, nm)
        I.terms['len_' + nm] = n
        if values is None: I.require(n >= 1)
    p = _prov(cfg['provider'])

    def call():
        fn = cfg['fn']
        E1, E2 = Bag(__name__=S['e1']), Bag(__name__=S['e2'])
        if fn == 'entity_table_name': return [p.get_default_entity_table_name(E1)]
        if fn == 'm2m_table_name':
            a = Bag(entity=E1, name=S['a1'], symmetric=cfg['symmetric']); r = a if cfg['symmetric'] else Bag(entity=E2, name=S['a2'])
            return [p.get_default_m2m_table_name(a, r)]
        if fn == 'column_names':
            a = Bag(name=S['a1'])
            cols = None if cfg['pk_columns'] == 0 else [S['c1'], S['c2']][:cfg['pk_columns']]
            return list(p.get_default_column_names(a, cols))
        if fn == 'm2m_column_names':
            E1._get_pk_columns_ = lambda: [S['c1'], S['c2']][:cfg['pk_columns']]
            return list(p.get_default_m2m_column_names(E1))
        if fn == 'index_name':
            k = cfg['kind']
            return [p.get_default_index_name(S['t1'], [S['c1'], S['c2']], is_pk=k == 'pk', is_unique=k == 'unique', m2m=k == 'm2m')]
        return [p.get_default_fk_name(S['t1'], S['t2'], [S['c1'], S['c2']])]
    return Case(call, I.terms, I.pre)


def _dn_spec(cfg, i, path):
    if path.outcome != 'ret': return False
    mx = PROVIDERS[cfg['provider']].max_name_len
    return L.And(*[_len(v) <= mx for v in path.value]) if path.value else False


# ------------------------------------------------------------------ name registry
def _rg_configs(tier):
    return [dict(kind=k, taken_by=t) for k in ('table', 'index', 'foreign_key', 'default_index', 'default_foreign_key') for t in ('nothing', 'table', 'index')]


def _rg_case(cfg, values):
    def call():
        st = cur().state
        p = _prov('postgres')
        S = pg.PGSchema
        schema = S(p)
        T, C = S.table_class, S.column_class
        t0 = T('t0', schema); c0 = C('c0', t0, 'INTEGER', None, False)
        pt = T('parent', schema); pc = C('id', pt, 'INTEGER', None, True)
        k = cfg['kind']
        name = {'default_index': p.get_default_index_name('t0', ['c0']), 'default_foreign_key': p.get_default_fk_name('t0', 'parent', ['c0'])}.get(k, 'the_name')
        if cfg['taken_by'] == 'table': T(name, schema)
        elif cfg['taken_by'] == 'index':
            t1 = T('t1', schema); c1 = C('c', t1, 'INTEGER', None, False)
            S.index_class(name, t1, (c1,))
        st['before'] = dict(schema.names); st['schema'] = schema; st['name'] = name
        if k == 'table': T(name, schema)
        elif k == 'index': S.index_class(name, t0, (c0,))
        elif k == 'default_index': t0.add_index(None, (c0,))
        elif k == 'default_foreign_key': t0.add_foreign_key(None, (c0,), pt, (pc,))
        else: S.fk_class(name, t0, (c0,), pt, (pc,), None, None)
        return 'registered'
    return Case(call, {}, [])


def _rg_spec(cfg, i, path):
    st = path.state; names = st['schema'].names
    if cfg['taken_by'] == 'nothing':
        extra = set(names) - set(st['before']) - {st['name']}                                # (a foreign key also registers the index of its columns, under a new name)
        return path.outcome == 'ret' and st['name'] in names and set(st['before']) <= set(names) and len(extra) <= 1
    return path.outcome == 'exc' and isinstance(path.value, (core.DBSchemaError, AssertionError)) and names == st['before']


# ------------------------------------------------------------------ model family
LONG = 'a_very_long_attribute_name_that_exceeds_the_limit_of_every_database_identifier_we_know_'     # 87 chars
E27 = 'EntityNameOf27Characters___'; assert len(E27) == 27
E31 = 'EntityNameOf31Characters_______'; assert len(E31) == 31


def build(model, db):
    """returns hand-written SQLite expectations: {table: {column: (notnull, pk_position)}} and extra facts"""
    Req, Opt, PK, Set = orm.Required, orm.Optional, orm.PrimaryKey, orm.Set
    if model == 'attributes':
        class A(db.Entity):
            rs = Req(str); os_ = Opt(str); osn = Opt(str, nullable=True); ri = Req(int); oi = Opt(int)
            u = Req(str, unique=True); ix = Opt(int, index=True); f = Opt(float); b = Req(bool); d = Opt(datetime.date); dt = Opt(datetime.datetime)
            dec = Opt(decimal.Decimal); by = Opt(bytes); k1 = Req(int); k2 = Req(str); i1 = Opt(int); i2 = Opt(int)
            orm.composite_key(k1, k2); orm.composite_index(i1, i2)
        return dict(tables={'A': dict(id=(1, 1), rs=(1, 0), os_=(1, 0), osn=(0, 0), ri=(1, 0), oi=(0, 0), u=(1, 0), ix=(0, 0), f=(0, 0), b=(1, 0), d=(0, 0), dt=(0, 0),
                                      dec=(0, 0), by=(0, 0), k1=(1, 0), k2=(1, 0), i1=(0, 0), i2=(0, 0))},
                    unique={'A': [('u',), ('k1', 'k2')]}, indexes={'A': [('ix',), ('i1', 'i2')]}, fks={})
    if model == 'relationships':
        class P(db.Entity):
            name = Req(str); grp = Req('G'); ogrp = Opt('G', reverse='omembers'); passport = Opt('Pass'); tags = Set('T'); boss = Opt('P', reverse='staff'); staff = Set('P', reverse='boss')
        class G(db.Entity):
            members = Set(P, reverse='grp'); omembers = Set(P, reverse='ogrp')
        class Pass(db.Entity):
            person = Req(P)
        class T(db.Entity):
            a = Req(int); b = Req(str); PK(a, b)
            ps = Set(P); items = Set('Item')
        class Item(db.Entity):
            t = Req(T)
        return dict(tables={'P': dict(id=(1, 1), name=(1, 0), grp=(1, 0), ogrp=(0, 0), boss=(0, 0)), 'G': dict(id=(1, 1)), 'Pass': dict(id=(1, 1), person=(1, 0)),
                            'T': dict(a=(1, 1), b=(1, 2)), 'Item': dict(id=(1, 1), t_a=(1, 0), t_b=(1, 0)), 'P_T': dict(p=(1, 1), t_a=(1, 2), t_b=(1, 3))},
                    unique={}, indexes={'P': [('grp',), ('ogrp',), ('boss',)], 'Pass': [('person',)], 'Item': [('t_a', 't_b')]},
                    fks={'P': [(('grp',), 'G'), (('ogrp',), 'G'), (('boss',), 'P')], 'Pass': [(('person',), 'P')], 'Item': [(('t_a', 't_b'), 'T')], 'P_T': [(('p',), 'P'), (('t_a', 't_b'), 'T')]})
    if model == 'inheritance':
        class Base(db.Entity):
            name = Req(str)
        class Sub1(Base):
            x = Req(int); y = Opt(str); others = Set('Other')
            target = Req('Target', reverse='subs')                 # a composite reference declared in a SUBCLASS: both columns must be nullable
            otarget = Opt('Target', reverse='osubs')
        class Sub2(Sub1):
            z = Req(float)
        class Other(db.Entity):
            ref = Req(Sub1)
            t = Req('Target', reverse='others')                    # the same in a root entity: NOT NULL
            ot = Opt('Target', reverse='oothers')
        class Target(db.Entity):
            a = Req(int); b = Req(str); PK(a, b)
            subs = Set(Sub1, reverse='target'); osubs = Set(Sub1, reverse='otarget'); others = Set(Other, reverse='t'); oothers = Set(Other, reverse='ot')
        return dict(tables={'Base': dict(id=(1, 1), classtype=(1, 0), name=(1, 0), x=(0, 0), y=(0, 0), z=(0, 0), target_a=(0, 0), target_b=(0, 0), otarget_a=(0, 0), otarget_b=(0, 0)),
                            'Other': dict(id=(1, 1), ref=(1, 0), t_a=(1, 0), t_b=(1, 0), ot_a=(0, 0), ot_b=(0, 0)), 'Target': dict(a=(1, 1), b=(1, 2))},
                    unique={}, indexes={'Other': [('ref',), ('t_a', 't_b'), ('ot_a', 'ot_b')], 'Base': [('target_a', 'target_b'), ('otarget_a', 'otarget_b')]},
                    fks={'Other': [(('ref',), 'Base'), (('t_a', 't_b'), 'Target'), (('ot_a', 'ot_b'), 'Target')],
                         'Base': [(('target_a', 'target_b'), 'Target'), (('otarget_a', 'otarget_b'), 'Target')]})
    if model == 'custom_names':
        class C(db.Entity):
            _table_ = 'custom_table'
            code = PK(str, column='CODE')
            val = Opt(int, column='Val', index='my_index')
            owner = Opt('D', column='owner_id', fk_name='my_fk')
            ds = Set('D', table='link_table', column='d_ref', reverse='cs')            # column of a Set names the column that refers to the OTHER entity
        class D(db.Entity):
            owned = Set(C, reverse='owner'); cs = Set(C, column='c_ref', reverse='ds')
        return dict(tables={'custom_table': dict(CODE=(1, 1), Val=(0, 0), owner_id=(0, 0)), 'D': dict(id=(1, 1)), 'link_table': dict(c_ref=(1, 0), d_ref=(1, 0))},
                    unique={}, indexes={'custom_table': [('Val',), ('owner_id',)]}, fks={'custom_table': [(('owner_id',), 'D')], 'link_table': [(('c_ref',), 'custom_table'), (('d_ref',), 'D')]},
                    names=['my_index'], loose_pk=['link_table'])
    if model == 'long_names':
        ns = {LONG + 'one': Opt(int, index=True), LONG + 'two': Opt(int, index=True), 'ref': Opt(E31)}
        L1 = type(db.Entity)(E27, (db.Entity,), ns)
        L2 = type(db.Entity)(E31, (db.Entity,), {'backrefs': Set(E27), 'x': Opt(int, unique=True)})
        return None
    if model == 'long_names_distinct':
        ns = {'one_' + LONG: Opt(int, index=True), 'two_' + LONG: Opt(int, index=True), 'ref': Opt(E31)}
        L1 = type(db.Entity)(E27, (db.Entity,), ns)
        L2 = type(db.Entity)(E31, (db.Entity,), {'backrefs': Set(E27), 'x': Opt(int, unique=True)})
        return None
    if model == 'qualified':
        class Q1(db.Entity):
            _table_ = ('sch', 'q1')
            x = Opt(int)
            q2 = Opt('Q2')
        class Q2(db.Entity):
            _table_ = ('sch', 'q2')
            q1s = Set(Q1)
        return None
    if model == 'explicit_pk_no_sequences':
        class N1(db.Entity):
            _table_ = ('sch', 'n1')
            code = PK(str)
            n2 = Opt(E31)
        N2 = type(db.Entity)(E31, (db.Entity,), {'code': PK(int, auto=False), 'n1s': Set('N1')})
        return None
    if model == 'unique_key_parts':
        # a component of a composite primary key that is ALSO unique on its own, and that takes part in another composite key
        class Grp(db.Entity):
            students = Set('Stu')
        class Stu(db.Entity):
            grp = Req(Grp); serial = Req(int, unique=True); PK(grp, serial)
            code = Req(str); orm.composite_key(serial, code)
            nick = Opt(str, unique=True)
        class Lone(db.Entity):
            code = PK(str)
            alias = Req(str, unique=True)
        class Doc(db.Entity):                             # a unique attribute of a base entity ...
            number = Req(str, unique=True)
            ref = Req(str, unique=True)
        class Inv(Doc):                                   # ... covered again by indexes declared in a subclass (created AFTER the single-column unique index)
            year = Opt(int)
            orm.composite_index(year, 'number'); orm.composite_key(year, 'ref')
        return dict(tables={'Grp': dict(id=(1, 1)), 'Stu': dict(grp=(1, 1), serial=(1, 2), code=(1, 0), nick=(0, 0)), 'Lone': dict(code=(1, 1), alias=(1, 0)),
                            'Doc': dict(id=(1, 1), classtype=(1, 0), number=(1, 0), ref=(1, 0), year=(0, 0))},
                    unique={'Stu': [('serial',), ('serial', 'code'), ('nick',)], 'Lone': [('alias',)], 'Doc': [('number',), ('ref',), ('year', 'ref')]},
                    indexes={'Doc': [('year', 'number')]}, fks={'Stu': [(('grp',), 'Grp')]})
    if model == 'on_delete_actions':
        # every kind of reference, declared in a root entity and in a SUBCLASS (where the column is nullable whatever the declaration says)
        class Owner(db.Entity):
            kept = Set('Thing', reverse='keeper', cascade_delete=False); owned = Set('Thing', reverse='owner'); opt = Set('Thing', reverse='maybe')
            badge = Opt('Thing', reverse='badge_of'); s_kept = Set('SubThing', reverse='s_keeper', cascade_delete=False); s_owned = Set('SubThing', reverse='s_owner')
            s_opt = Set('SubThing', reverse='s_maybe'); s_badge = Opt('SubThing', reverse='s_badge_of'); s_casc = Opt('SubThing', reverse='s_casc_of', cascade_delete=True)
        class Thing(db.Entity):
            keeper = Req(Owner, reverse='kept'); owner = Req(Owner, reverse='owned'); maybe = Opt(Owner, reverse='opt'); badge_of = Req(Owner, reverse='badge')
        class SubThing(Thing):
            s_keeper = Req(Owner, reverse='s_kept'); s_owner = Req(Owner, reverse='s_owned'); s_maybe = Opt(Owner, reverse='s_opt'); s_badge_of = Req(Owner, reverse='s_badge')
            s_casc_of = Req(Owner, reverse='s_casc')
        return None
    if model == 'reference_cycles':
        # foreign keys in both directions between two tables (one of them composite), in both alphabetical orders: whichever table is created first, the key that
        # points at the later one can only be added afterwards
        class Ca(db.Entity):
            a = Req(int); b = Req(str); PK(a, b)
            fav = Opt('Cb', reverse='fav_of'); items = Set('Cb', reverse='owner')
        class Cb(db.Entity):
            fav_of = Set(Ca, reverse='fav'); owner = Req(Ca, reverse='items')
        class Da(db.Entity):
            fav_of = Set('Db', reverse='fav'); owner = Req('Db', reverse='items')
        class Db(db.Entity):
            a = Req(int); b = Req(str); PK(a, b)
            fav = Opt(Da, reverse='fav_of'); items = Set(Da, reverse='owner')
        class Loop(db.Entity):
            a = Req(int); b = Req(str); PK(a, b)
            nxt = Opt('Loop', reverse='prev'); prev = Set('Loop', reverse='nxt')              # a composite self reference
        return None
    if model == 'key_sql_types':
        class Account(db.Entity):
            id = PK(int, sql_type='BIGINT'); tags = Set('Tag'); owner = Opt('Person')
        class Tag(db.Entity):
            code = PK(str, sql_type='CHAR(12)'); accounts = Set(Account)
        class Course(db.Entity):
            dept = Req(str, sql_type='VARCHAR(8)'); no = Req(int, sql_type='SMALLINT'); PK(dept, no); students = Set('Person', table='enrolment', reverse='courses'); fans = Set('Person', reverse='best')
        class Person(db.Entity):
            ssn = PK(str, sql_type='CHAR(11)'); friends = Set('Person', reverse='friends'); courses = Set(Course, reverse='students'); accounts = Set(Account); best = Opt(Course, reverse='fans')
        return None
    if model == 'long_entity_names':
        L1 = type(db.Entity)(E27, (db.Entity,), {'x': Opt(int), 'ref': Opt(E31)})
        L2 = type(db.Entity)(E31, (db.Entity,), {'backrefs': Set(E27)})
        return None
    raise KeyError(model)


SQLITE_MODELS = ['attributes', 'relationships', 'inheritance', 'custom_names', 'long_names_distinct', 'long_entity_names', 'unique_key_parts', 'on_delete_actions', 'key_sql_types']
DDL_MODELS = ['attributes', 'relationships', 'inheritance', 'custom_names', 'long_names', 'long_names_distinct', 'qualified', 'explicit_pk_no_sequences', 'long_entity_names', 'reference_cycles', 'unique_key_parts']
MAY_REJECT = ('long_names', 'long_names_distinct')          # names that collide after truncation to the dialect limit: refusing the mapping is the stated behaviour


def _sl_case(cfg, values):
    def setup(run):
        core.local.db2cache.clear(); core.local.db_context_counter = 0; core.local.db_session = None

    def call():
        st = cur().state
        import tempfile, os
        d = tempfile.mkdtemp(prefix='vf26_'); fn = os.path.join(d, 'db.sqlite')
        try:
            db = orm.Database('sqlite', fn, create_db=True)
            st['expect'] = build(cfg['model'], db)
            db.generate_mapping(create_tables=True)
            db.disconnect()
            import sqlite3
            con = sqlite3.connect(fn)
            q = lambda s: con.execute(s).fetchall()
            tabs = [r[0] for r in q("select name from sqlite_master where type='table' and name not like 'sqlite_%'")]
            cat = {}
            for t in tabs:
                cols = {r[1]: (r[3], r[5]) for r in q('PRAGMA table_info("%s")' % t)}
                st.setdefault('types', {})[t] = {r[1]: r[2].upper() for r in q('PRAGMA table_info("%s")' % t)}
                idx = []
                for r in q('PRAGMA index_list("%s")' % t):
                    idx.append((r[1], bool(r[2]), tuple(c[2] for c in q('PRAGMA index_info("%s")' % r[1])), r[3] if len(r) > 3 else ''))
                fks = {}
                for r in q('PRAGMA foreign_key_list("%s")' % t):
                    fks.setdefault(r[0], [r[2], [], []]); fks[r[0]][1].append(r[3]); fks[r[0]][2].append(r[4])
                    st.setdefault('fk_actions', {})[(t, r[3])] = r[6]
                cat[t] = dict(cols=cols, idx=idx, fks=sorted((tuple(v[1]), v[0], tuple(v[2])) for v in fks.values()))
            st['cat'] = cat
            st['all_names'] = [r[0] for r in q("select name from sqlite_master where name not like 'sqlite_%'")]
            # the entity model as pony sees it
            # what a DELETE of the referenced row does, as the declarations say: cascade_delete on the collection side -> CASCADE; an Optional reference -> SET NULL;
            # a Required reference -> the delete is refused (no action), also when its column is nullable only because it is declared in a subclass
            want = {}
            for e in db.entities.values():
                for attr in e._new_attrs_:
                    if attr.is_collection or not attr.reverse or not attr.columns: continue
                    t = e._root_._table_ if isinstance(e._root_._table_, str) else e._root_._table_[-1]
                    act = 'CASCADE' if attr.reverse.cascade_delete else 'SET NULL' if isinstance(attr, orm.Optional) else 'NO ACTION'
                    for c in attr.columns: want[(t, c)] = act
            st['on_delete_expected'] = want
            st['on_delete_found'] = dict(st.get('fk_actions', {}))
            st['model'] = {}
            for e in db.entities.values():
                if e._root_ is not e: continue
                cols = []
                for a in e._attrs_with_columns_ if not e._subclasses_ else [a for a in e._attrs_ if a.columns] + [a for s in e._subclasses_ for a in s._new_attrs_ if a.columns]:
                    for c in a.columns:
                        if c not in cols: cols.append(c)
                st['model'][e._table_] = cols
            con.close()
            # table checks pass on the created schema: a second Database object with the same declarations
            db2 = orm.Database('sqlite', fn)
            build(cfg['model'], db2)
            db2.generate_mapping(check_tables=True)
            db2.disconnect()
            return 'ok'
        finally:
            import shutil; shutil.rmtree(d, ignore_errors=True)
    return Case(call, {}, [], setup, lambda run: (core.local.db2cache.clear(), setattr(core.local, 'db_context_counter', 0), setattr(core.local, 'db_session', None)))


def _sl_spec(cfg, i, path):
    if path.outcome != 'ret': return False
    st = path.state; cat = st['cat']; ex = st['expect']
    names = st['all_names']
    if len(names) != len(set(n.lower() for n in names)): return False                        # distinct names
    for t, cols in st['model'].items():                                                        # one column per mapped attribute column
        if t not in cat or sorted(cat[t]['cols']) != sorted(cols): return False
    for key, act in st['on_delete_expected'].items():                                          # the ON DELETE action of every foreign key follows the declaration
        if st['on_delete_found'].get(key) != act: return False
    for t in cat:                                                                              # a foreign key column has the declared type of the key column it refers to (link tables included)
        for cols, parent, pcols in cat[t]['fks']:
            for c, pc in zip(cols, pcols):
                if st['types'][t].get(c) != st['types'].get(parent, {}).get(pc): return False
    if ex is None: return True
    if set(ex['tables']) != set(cat): return False
    for t, cols in ex['tables'].items():
        got = cat[t]['cols']
        if set(got) != set(cols): return False
        for c, (notnull, pk) in cols.items():
            if t in ex.get('loose_pk', ()): pk = got[c][1]
            if (bool(got[c][0]) or bool(got[c][1])) != bool(notnull) or got[c][1] != pk: return False
    for t, uniq in ex['unique'].items():
        for cols in uniq:
            if not any(u and c == cols for _, u, c, _ in cat[t]['idx']): return False
    for t, idxs in ex['indexes'].items():
        for cols in idxs:
            if not any(c == cols for _, u, c, _ in cat[t]['idx']): return False
    for t in cat:
        want = sorted((cols, parent) for cols, parent in ex['fks'].get(t, []))
        got = sorted((f[0], f[1]) for f in cat[t]['fks'])
        if want != got: return False
    for n in ex.get('names', ()):
        if n not in names: return False
    return True


def _ddl_configs(tier):
    return [dict(provider=p, model=m) for p in ('postgres', 'mysql', 'oracle') for m in DDL_MODELS]


def _ddl_case(cfg, values):
    def call():
        st = cur().state
        db = orm.Database()
        p = _prov(cfg['provider'])
        p.server_version = {'postgres': (9, 6), 'mysql': (5, 7, 0), 'oracle': (11,)}[cfg['provider']]
        p.default_schema_name = 'main_schema'
        db.provider = p; db.provider_name = cfg['provider']
        build(cfg['model'], db)
        try:
            db.generate_mapping(check_tables=False, create_tables=False)
        except (core.DBSchemaError, core.MappingError, core.ERDiagramError, TypeError, NotImplementedError) as e:
            st['rejected'] = '%s: %s' % (type(e).__name__, e)
            return 'rejected'
        schema = db.schema
        objs = []
        created = set()
        for t in schema.order_tables_to_create():
            for o in t.get_objects_to_create(created):
                objs.append(o)
        st['objs'] = [(type(o).__name__, o.name, getattr(getattr(o, 'table', None), 'name', None)) for o in objs]
        # order and completeness: what is emitted, in emission order, against what the ENTITY MODEL declares (not against schema.tables[*].foreign_keys)
        seq = []
        for o in objs:
            k = type(o).__name__
            if 'ForeignKey' in k: seq.append(('fk', _base(o.child_table.name), tuple(c.name for c in o.child_columns), _base(o.parent_table.name)))
            elif 'Index' in k: seq.append(('index', _base(o.table.name), tuple(c.name for c in o.columns)))
            elif 'Table' in k: seq.append(('table', _base(o.name)))
            else: seq.append(('other', k))
        st['seq'] = seq
        want_fk = []; want_tables = set()
        for e in db.entities.values():
            want_tables.add(_base(e._table_))
            for a in e._new_attrs_:
                if a.is_collection:
                    if a.reverse.is_collection and (a.symmetric or a.entity.__name__ <= a.reverse.entity.__name__):
                        want_tables.add(_base(a.table))
                        # (Set.columns name the columns that refer to the OTHER entity)
                        want_fk.append((_base(a.table), tuple(a.reverse.columns if not a.symmetric else a.columns), _base(a.entity._table_)))
                        want_fk.append((_base(a.table), tuple(a.columns if not a.symmetric else a.reverse_columns), _base(a.reverse.entity._table_)))
                elif a.reverse and a.columns:
                    want_fk.append((_base(e._table_), tuple(a.columns), _base(a.reverse.entity._table_)))
        st['want_fk'] = sorted(want_fk); st['want_tables'] = sorted(want_tables)
        st['columns'] = {t.name: [c.name for c in t.column_list] for t in schema.tables.values()}
        st['ddl'] = schema.generate_create_script()
        st['max'] = p.max_name_len
        return 'generated'
    return Case(call, {}, [], lambda run: (core.local.db2cache.clear(), setattr(core.local, 'db_context_counter', 0)), lambda run: None)


def _base(n): return n if isinstance(n, str) else n[-1]


def _ddl_lengths(cfg, i, path):
    if path.outcome != 'ret': return False
    st = path.state
    if path.value == 'rejected': return cfg['model'] in MAY_REJECT and st['rejected'].startswith('DBSchemaError')      # only declarations that cannot be mapped may be refused
    mx = st['max']
    for kind, name, tname in st['objs']:
        if name is not None and len(_base(name)) > mx: return False
    for t, cols in st['columns'].items():
        if any(len(c) > mx for c in cols): return False
    return True


def _ddl_distinct(cfg, i, path):
    if path.outcome != 'ret': return False
    st = path.state
    if path.value == 'rejected': return cfg['model'] in MAY_REJECT and st['rejected'].startswith('DBSchemaError')
    fold = (lambda s: s.upper()) if cfg['provider'] == 'oracle' else (lambda s: s.lower())
    # tables, indexes, sequences share the schema namespace; MySQL index / constraint names are per table
    seen = {}
    for kind, name, tname in st['objs']:
        if name is None: continue
        per_table = cfg['provider'] == 'mysql' and kind in ('MySQLIndex', 'MySQLForeignKey')
        full = name if not isinstance(name, str) else (name,)
        key = (fold(_base(tname)) if per_table and tname else None, tuple(fold(x) for x in full), 'trigger' if 'Trigger' in kind else 'constraint' if 'ForeignKey' in kind else 'object')
        if key in seen: return False
        seen[key] = kind
    for t, cols in st['columns'].items():
        if len(cols) != len(set(fold(c) for c in cols)): return False
    return True


def _ddl_complete(cfg, i, path):
    """every table of the model is created once, every declared foreign key is emitted exactly once and only after both of its tables, every index after its table, and
    the create script contains a statement for each of them"""
    if path.outcome != 'ret': return False
    st = path.state
    if path.value == 'rejected': return None
    seq = st['seq']
    tables = [x[1] for x in seq if x[0] == 'table']
    if sorted(tables) != st['want_tables']: return False
    fks = [x[1:] for x in seq if x[0] == 'fk']
    if sorted(fks) != st['want_fk']: return False
    pos = {t: k for k, t in enumerate(x[1] if x[0] == 'table' else None for x in seq) if t is not None}
    for k, x in enumerate(seq):
        if x[0] == 'fk' and not (pos[x[1]] < k and pos[x[3]] < k): return False
        if x[0] == 'index' and not pos[x[1]] < k: return False
    ddl = ' '.join(st['ddl'].split()).upper()
    return ddl.count('CREATE TABLE') == len(tables) and ddl.count('FOREIGN KEY') == len(fks)


CONTRACTS = [
    Contract('normalize_name', ['pony.orm.dbapiprovider:DBAPIProvider.normalize_name', 'pony.orm.dbproviders.postgres:PGProvider.normalize_name',
                                'pony.orm.dbproviders.mysql:MySQLProvider.normalize_name', 'pony.orm.dbproviders.oracle:OraProvider.normalize_name'],
             [dict(provider=p) for p in PROVIDERS], _nn_case, [('length_is_min_of_length_and_limit', _nn_spec)]),
    Contract('default_names', ['pony.orm.dbapiprovider:DBAPIProvider.get_default_entity_table_name', 'pony.orm.dbapiprovider:DBAPIProvider.get_default_m2m_table_name',
                               'pony.orm.dbapiprovider:DBAPIProvider.get_default_column_names', 'pony.orm.dbapiprovider:DBAPIProvider.get_default_m2m_column_names',
                               'pony.orm.dbapiprovider:DBAPIProvider.get_default_index_name', 'pony.orm.dbapiprovider:DBAPIProvider.get_default_fk_name'],
             _dn_configs, _dn_case, [('within_the_dialect_length_limit', _dn_spec)]),
    Contract('name_registry', ['pony.orm.dbschema:Table.__init__', 'pony.orm.dbschema:Constraint.__init__', 'pony.orm.dbschema:DBIndex.__init__', 'pony.orm.dbschema:ForeignKey.__init__'],
             _rg_configs, _rg_case, [('used_name_refused_registry_unchanged', _rg_spec)], allowed_exc=(core.DBSchemaError, AssertionError)),
    Contract('sqlite_catalog', ['pony.orm.core:Database.generate_mapping', 'pony.orm.dbschema:Table.get_create_command', 'pony.orm.dbschema:Column.get_sql',
                                'pony.orm.dbschema:DBSchema.order_tables_to_create', 'pony.orm.dbschema:DBSchema.check_tables', 'pony.orm.core:Attribute.get_columns',
                                'pony.orm.core:Set.get_m2m_columns'],
             [dict(model=m) for m in SQLITE_MODELS], _sl_case, [('catalog_matches_the_entity_model_and_check_tables_passes', _sl_spec)], level='bounded',
             bound='5 models (attribute kinds, relationships incl. composite foreign keys, inheritance, custom names, long names) on SQLite'),
    Contract('server_dialect_ddl', ['pony.orm.core:Database.generate_mapping', 'pony.orm.dbschema:DBSchema.generate_create_script',
                                    'pony.orm.dbproviders.oracle:OraSequence.__init__', 'pony.orm.dbproviders.oracle:OraTrigger.__init__'],
             _ddl_configs, _ddl_case, [('every_name_within_the_length_limit', _ddl_lengths), ('names_pairwise_distinct', _ddl_distinct), ('every_table_and_declared_foreign_key_created_once_in_a_valid_order', _ddl_complete)], level='bounded',
             bound='10 models (incl. self references, reference cycles, composite and inherited foreign keys, many-to-many) x PostgreSQL / MySQL / Oracle; objects to create and DDL text only'),
]
