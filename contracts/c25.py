"""C25 String indexing and slicing translate to Python semantics on every dialect (DESIGN 4-C25, Appendix A1)."""
import itertools, z3
from vf.verify import Contract, Case
from vf.inputs import Inputs, term, same
from vf import pyspec, sqlsem, logic as L
from vf.explore import cur
from contracts import harness as H
from pony.orm import sqltranslation as st, sqlbuilding as sb
from pony.orm.dbproviders import sqlite as sq

META = dict(
    level='proof',
    explanation='for every string length n and all integer bounds, substr_D(sqleval(index), sqleval(len)) is the index window of '
                'Python\'s s[i:j] / s[i]; dialect substr semantics are assumed contracts (manual citations in vf/sqlsem.py)',
    trusted_base=['pyspec.py_slice / py_index (cross-checked against CPython at start-up)',
                  'sqlsem.substr: SQLite clause validated against the real sqlite3 engine at start-up; PostgreSQL, MySQL and Oracle '
                  'clauses from the manuals (assumed, not executable here)',
                  'sqlsem.sqlint/sqlbool: SQL three-valued logic, greatest() NULL behaviour per dialect'],
    assumptions=['expression (column) bounds are quantified over non-NULL integers only',
                 'Oracle does not distinguish NULL from the empty string'],
)

DIALECTS = ['PostgreSQL', 'MySQL', 'Oracle']
KINDS = ['none', 'const', 'expr']
EXPR = ['COLUMN', 't', 's']


def startup(rep, tier):
    rep.extra['pyspec_selfcheck_cases'] = pyspec.selfcheck(6 if tier == 'quick' else 9)
    rep.extra['sqlite_substr_spec_validated_cases'] = sqlsem.selfcheck_sqlite(5 if tier == 'quick' else 7)


class FakeBuilder(object):
    """Stands for the SQLBuilder instance: STRING_SLICE only reads .dialect and calls builder(ast) once, at the end."""
    def __init__(self, dialect): self.dialect = dialect
    def __call__(self, ast): return ast


def _bound(I, kind, name):
    """-> (ast passed to the real function, python-level value (term) or None, env entry)"""
    if kind == 'none':
        return None, None
    v = I.int(name)
    if kind == 'const':
        return ['VALUE', v], term(v)
    return ['COLUMN', 't', name], term(v)


def _env(I, n):
    env = {'__len__': n}
    for k in ('i', 'j'):
        if k in I.terms:
            env[('COLUMN', 't', k)] = (False, I.terms[k])
    return env


# ------------------------------------------------------------------ SQLBuilder.STRING_SLICE
def _ss_configs(tier):
    return [dict(dialect=d, start=a, stop=b) for d in DIALECTS for a in KINDS for b in KINDS]


def _ss_case(cfg, values):
    I = Inputs(values)
    start_ast, i = _bound(I, cfg['start'], 'i')
    stop_ast, j = _bound(I, cfg['stop'], 'j')
    n = I.ghost_int('n'); I.require(n >= 0)
    return Case(lambda: sb.SQLBuilder.STRING_SLICE(FakeBuilder(cfg['dialect']), EXPR, start_ast, stop_ast), I.terms, I.pre)


def _eval_substr(dialect, ast, inputs):
    """(error, pos_is_null, len_is_null, a, b) of a SUBSTR ast under the dialect's semantics."""
    assert ast[0] == 'SUBSTR' and ast[1] == EXPR, ast
    n = inputs['n']
    env = {'__len__': n}
    for k in ('i', 'j'):
        if k in inputs: env[('COLUMN', 't', k)] = (False, inputs[k])
    pn, pv = sqlsem.sqlint(ast[2], env, dialect)
    if len(ast) < 4 or ast[3] is None:
        ln_null, ln = False, None
    else:
        ln_null, ln = sqlsem.sqlint(ast[3], env, dialect)
    err, a, b = sqlsem.substr(dialect, n, pv, ln)
    return err, pn, ln_null, a, b


def _ss_no_error(cfg, i, path):
    if path.outcome != 'ret': return None
    err, pn, lnn, a, b = _eval_substr(cfg['dialect'], path.value, i)
    return L.Not(err)


def _ss_not_null(cfg, i, path):
    if path.outcome != 'ret': return None
    err, pn, lnn, a, b = _eval_substr(cfg['dialect'], path.value, i)
    return L.And(L.Not(pn), L.Not(lnn))


def _ss_equals_python(cfg, i, path):
    if path.outcome != 'ret': return None
    err, pn, lnn, a, b = _eval_substr(cfg['dialect'], path.value, i)
    want = pyspec.py_slice(i['n'], i.get('i'), i.get('j'))
    return L.Implies(L.And(L.Not(err), L.Not(pn), L.Not(lnn)), pyspec.same_window(want, (a, b)))


# ------------------------------------------------------------------ SQLiteBuilder.STRING_SLICE + py_string_slice
class Recorder(object):
    """A sequence that records the subscript it receives (stands for the stored str)."""
    def __getitem__(self, k):
        cur().state['subscript'] = k
        return 'RESULT'


def _sl_configs(tier):
    return [dict(start=a, stop=b) for a in ('none', 'int') for b in ('none', 'int')]


def _sl_case(cfg, values):
    I = Inputs(values)
    i = I.int('i') if cfg['start'] == 'int' else None
    j = I.int('j') if cfg['stop'] == 'int' else None

    def call():
        # 1. the text template of the real SQLiteBuilder.STRING_SLICE: py_string_slice(<expr>, <start>, <stop>)
        tmpl = sq.SQLiteBuilder.STRING_SLICE(lambda ast: ('B', ast), EXPR,
                                             None if i is None else ['VALUE', i], None if j is None else ['VALUE', j])
        # 2. the registered SQL function, run on a recording sequence with the same bounds
        rec = Recorder()
        r = sq.py_string_slice(rec, i, j)
        return tmpl, r
    return Case(call, I.terms, I.pre)


def _sl_template(cfg, i, path):
    if path.outcome != 'ret': return None
    tmpl, r = path.value
    parts = [p for p in tmpl if not isinstance(p, str)]
    texts = [p for p in tmpl if isinstance(p, str)]
    ok = texts == ['py_string_slice(', ', ', ', ', ')'] and len(parts) == 3 and parts[0] == ('B', EXPR)
    for p, k in zip(parts[1:], ('start', 'stop')):
        ok = ok and p[0] == 'B' and p[1][0] == 'VALUE'
        v = p[1][1]
        if cfg[k] == 'none': ok = ok and v is None
        else: ok = ok and same(v, i['i' if k == 'start' else 'j'])
    return bool(ok)


def _sl_delegates(cfg, i, path):
    if path.outcome != 'ret': return None
    k = path.state.get('subscript')
    if not isinstance(k, slice) or k.step is not None: return False
    def same_(x, name, kind):
        if kind == 'none': return x is None
        return same(x, i[name])
    return bool(path.value[1] == 'RESULT' and same_(k.start, 'i', cfg['start']) and same_(k.stop, 'j', cfg['stop']))


# ------------------------------------------------------------------ StringMixin.__getitem__ (real monads)
ALL_DIALECTS = ['SQLite'] + DIALECTS
MKINDS = ['none', 'const', 'param', 'expr']


def _gi_configs(tier):
    out = []
    for d in ALL_DIALECTS:
        for a in MKINDS:
            for b in MKINDS:
                out.append(dict(op='slice', dialect=d, start=a, stop=b))
        for a in MKINDS[1:]:
            out.append(dict(op='index', dialect=d, start=a, stop='-'))
    return out


def _gi_case(cfg, values):
    I = Inputs(values)
    n = I.ghost_int('n'); I.require(n >= 0)
    vals = {}
    for nm, kind in (('i', cfg['start']), ('j', cfg['stop'])):
        if kind in ('const', 'param', 'expr'):
            vals[nm] = I.int(nm)
    M = H.model()

    def setup(run):
        H.push_translator(M, cfg['dialect'])
        run.state['tr'] = M.tr

    def teardown(run):
        H.pop_translator(M)

    def mk(nm, kind):
        if kind == 'none' or kind == '-': return None
        if kind == 'const': return st.ConstMonad.new(vals[nm])
        if kind == 'param':
            key = 'k' + nm
            M.tr.vars[key] = vals[nm]
            return st.ParamMonad.new(int, (key, None, None))
        return M.tr.namespace['p'].getattr(nm)      # NumericAttrMonad on the Required(int) attribute i / j

    def call():
        s = M.tr.namespace['p'].getattr('name')
        if cfg['op'] == 'slice':
            r = s[slice(mk('i', cfg['start']), mk('j', cfg['stop']), None)]
        else:
            r = s[mk('i', cfg['start'])]
        sql = r.getsql()[0]
        cur().state['fixed'] = dict(M.tr.fixed_param_values)
        if sql[0] == 'STRING_SLICE' and cfg['dialect'] != 'SQLite':
            # composition with the dialect's builder method (contracted separately above; here executed, so that the
            # composed SQL is what the database receives)
            sql = sb.SQLBuilder.STRING_SLICE(FakeBuilder(cfg['dialect']), sql[1], sql[2], sql[3])
        return sql
    return Case(call, I.terms, I.pre, setup, teardown)


NAMECOL = ['COLUMN', 'p', 'name']


def _gi_window(cfg, i, sql):
    """-> (error, null, a, b) window selected by the generated SQL from the stored string of length n."""
    n = i['n']
    d = cfg['dialect']
    env = {'__len__': n}
    for k in ('i', 'j'):
        if k in i:
            env[('COLUMN', 'p', k)] = (False, i[k])
            env[('PARAM', ('k' + k, None, None))] = (False, i[k])
    if sql == NAMECOL:
        return False, False, 0, n
    if sql[0] == 'STRING_SLICE':       # SQLite: py_string_slice(expr, start, stop) == Python slicing (contract above)
        assert sql[1] == NAMECOL
        def b(x):
            if x is None: return None
            nn, v = sqlsem.sqlint(x, env, d)
            assert nn is False
            return v
        a, e = pyspec.py_slice(n, b(sql[2]), b(sql[3]))
        return False, False, a, e
    assert sql[0] == 'SUBSTR' and sql[1] == NAMECOL, sql
    pn, pv = sqlsem.sqlint(sql[2], env, d)
    if len(sql) < 4 or sql[3] is None: lnn, ln = False, None
    else: lnn, ln = sqlsem.sqlint(sql[3], env, d)
    err, a, e = sqlsem.substr(d, n, pv, ln)
    return err, L.Or(pn, lnn), a, e


def _gi_equals_python(cfg, i, path):
    if path.outcome != 'ret': return None
    err, null, a, b = _gi_window(cfg, i, path.value)
    n = i['n']
    if cfg['op'] == 'slice':
        want = pyspec.py_slice(n, i.get('i'), i.get('j'))
        return L.And(L.Not(err), L.Not(null), pyspec.same_window(want, (a, b)))
    ok, p = pyspec.py_index(n, i['i'])
    # in range: exactly that character; out of range Python raises IndexError, a query cannot: '' / NULL accepted
    return L.And(L.Not(err), L.ite(ok, L.And(L.Eq(a, p), L.Eq(b, p + 1)), L.Or(null, a >= b)))


def _gi_pinned(cfg, i, path):
    """A parameter whose value was baked into the SQL must be pinned in fixed_param_values with exactly that value
    (otherwise the cached translation would be reused for another value: C05)."""
    if path.outcome != 'ret': return None
    fixed = path.state.get('fixed', {})
    conds = []
    for nm, kind in (('i', cfg['start']), ('j', cfg['stop'])):
        if kind == 'param':
            if ('k' + nm) not in fixed: return False
            conds.append(L.Eq(term(fixed['k' + nm]), i[nm]))
    return L.And(*conds) if conds else None


CONTRACTS = [
    Contract('SQLBuilder.STRING_SLICE', 'pony.orm.sqlbuilding:SQLBuilder.STRING_SLICE', _ss_configs, _ss_case,
             [('no_sql_error', _ss_no_error), ('bounds_not_null', _ss_not_null), ('slice_equals_python', _ss_equals_python)],
             doc='generic / PostgreSQL branch of STRING_SLICE: the SUBSTR it builds selects the window of s[i:j]'),
    Contract('SQLiteBuilder.STRING_SLICE', ['pony.orm.dbproviders.sqlite:SQLiteBuilder.STRING_SLICE',
                                            'pony.orm.dbproviders.sqlite:py_string_slice'], _sl_configs, _sl_case,
             [('template_passes_bounds_in_order', _sl_template), ('delegates_to_python_slicing', _sl_delegates)],
             doc='SQLite: the SQL calls py_string_slice(expr, start, stop) with omitted -> NULL, and the registered function is s[start:stop]'),
    Contract('StringMixin.__getitem__', 'pony.orm.sqltranslation:StringMixin.__getitem__', _gi_configs, _gi_case,
             [('result_equals_python', _gi_equals_python), ('baked_parameters_are_pinned', _gi_pinned)],
             allowed_exc=(), doc='s[i], s[i:j] on real monads of a real translator, composed with the dialect builder'),
]
