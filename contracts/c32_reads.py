"""C32 (bounded part): reads of a finished-session object that would NEED the database - a collection, a lazy attribute or a one-to-one partner that was never touched while the
session was open - raise a session-is-over error, send no statement and leave the snapshot as it was; also when ANOTHER db_session is open on the same thread (the statement
must not travel through that session, and nothing of it may leak into the old object)."""
import types, copy
from vf.verify import Case
from vf.explore import cur
from vf.effects import Patch, note
from pony import orm
from pony.orm import core

BOUND = '3 ways the first session ended x strict or not x 16 reads that need the database x outside any session / inside a new session on the same thread'
_M = None


def model():
    global _M
    if _M is not None: return _M
    db = orm.Database('sqlite', ':memory:')

    class Group(db.Entity):
        name = orm.Required(str)
        students = orm.Set('Student')
        tags = orm.Set('Tag')
        motto = orm.Optional(str, lazy=True)

    class Student(db.Entity):
        name = orm.Required(str)
        group = orm.Required(Group)
        passport = orm.Optional('Passport')              # one-to-one, the column is on the other side

    class Passport(db.Entity):
        code = orm.Required(str)
        student = orm.Required(Student)

    class Tag(db.Entity):
        label = orm.Required(str)
        groups = orm.Set(Group)
    db.generate_mapping(create_tables=True)
    with orm.db_session:
        g = Group(name='g', motto='m', tags=[Tag(label='t')]); s1 = Student(name='a', group=g); Student(name='b', group=g); Passport(code='x', student=s1)
        Group(name='empty')
    _M = types.SimpleNamespace(db=db, Group=Group, Student=Student, Passport=Passport, Tag=Tag)
    return _M


READS = {
    'collection.is_empty()': lambda g, s: g.students.is_empty(), 'collection.count()': lambda g, s: g.students.count(), 'len(collection)': lambda g, s: len(g.students),
    'iterate collection': lambda g, s: list(g.students), 'bool(collection)': lambda g, s: bool(g.students), 'collection.copy()': lambda g, s: g.students.copy(),
    'item in collection (many-to-many)': lambda g, s: M_tag() in g.tags, 'many-to-many is_empty()': lambda g, s: g.tags.is_empty(), 'many-to-many count()': lambda g, s: g.tags.count(),
    'iterate many-to-many': lambda g, s: list(g.tags), 'lazy attribute': lambda g, s: g.motto, 'one-to-one partner without a column': lambda g, s: s.passport,
    'to_dict(with_collections)': lambda g, s: g.to_dict(with_collections=True), 'to_dict(with_lazy)': lambda g, s: g.to_dict(with_lazy=True), 'collection.load()': lambda g, s: g.students.load(),
    'is_empty() then count()': lambda g, s: (g.students.is_empty(), g.students.count()),
}
_TAG = {}
def M_tag(): return _TAG['t']


def configs(tier):
    return [dict(ending=e, strict=st, read=r, where=w) for e in ('commit', 'rollback', 'error') for st in (False, True) for r in READS for w in ('outside any session', 'inside a new session')]


class _Body(Exception): pass


def _reset():
    try: orm.rollback()
    except Exception: pass
    core.local.db2cache.clear(); core.local.db_context_counter = 0; core.local.db_session = None


def _snap(o):
    vals = o._vals_
    if vals is not None: vals = {a.name: (sorted(map(repr, v)), v.is_fully_loaded, v.count) if isinstance(v, core.SetData) else repr(v) for a, v in vals.items()}
    return o._status_, o._rbits_, o._wbits_, vals


def case(cfg, values):
    def call():
        M = model(); st = cur().state
        _reset()
        try:
            with orm.db_session(strict=cfg['strict']):
                g = M.Group.get(name='g'); s = M.Student.get(name='a'); _TAG['t'] = M.Tag.get(label='t')          # loaded; their collections / lazy attribute / partner are NOT touched
                if cfg['ending'] == 'rollback': orm.rollback()
                elif cfg['ending'] == 'error': raise _Body()
        except _Body: pass
        before = (_snap(g), _snap(s))
        p = Patch()
        real_exec = core.Database._exec_sql
        p.set(core.Database, '_exec_sql', lambda self, *a, **k: (note('statement', a[0][:50]), real_exec(self, *a, **k))[1])
        try:
            if cfg['where'] == 'inside a new session':
                with orm.db_session:
                    M.Group.get(name='empty')                       # the new session is really in use
                    del cur().ghost[:]
                    try: out = ('returned', READS[cfg['read']](g, s))
                    except (core.DatabaseSessionIsOver, core.TransactionError) as e: out = ('refused', type(e).__name__)
                    st['statements'] = [x for x in cur().ghost if x[0] == 'statement']
            else:
                try: out = ('returned', READS[cfg['read']](g, s))
                except (core.DatabaseSessionIsOver, core.TransactionError) as e: out = ('refused', type(e).__name__)
                st['statements'] = [x for x in cur().ghost if x[0] == 'statement']
        finally:
            p.restore()
        st['same_snapshot'] = (_snap(g), _snap(s)) == before
        _reset()
        return out[0], repr(out[1])[:80]
    return Case(call, {}, [], lambda r: _reset(), lambda r: _reset())


def spec(cfg, i, path):
    if path.outcome != 'ret': return False
    verdict, detail = path.value
    st = path.state
    # the value is not in the snapshot: the read is refused, nothing is sent, nothing is changed
    return verdict == 'refused' and not st['statements'] and st['same_snapshot']
