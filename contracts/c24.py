"""C24 Query methods agree with list semantics of the full ordered result (DESIGN 4-C24)."""
import itertools, z3
from vf.verify import Contract, Case
from vf.inputs import Inputs, term
from vf import pyspec, logic as L
from pony.orm import sqltranslation as st

META = dict(
    level='proof',
    explanation='window arithmetic of limit/offset composition proved for all list lengths and all non-negative bounds',
    trusted_base=['pyspec.window (cross-checked against CPython list slicing at start-up)'],
    assumptions=['aggregates, random(), bulk delete exactness and the SQL engines LIMIT/OFFSET implementation are not covered'],
)


def startup(rep, tier):
    rep.extra['pyspec_selfcheck_cases'] = pyspec.selfcheck(6 if tier == 'quick' else 9)


# ------------------------------------------------------------------ combine_limit_and_offset
def _clo_configs(tier):
    return [dict(zip(('limit', 'offset', 'limit2', 'offset2'), m)) for m in itertools.product(['none', 'int'], repeat=4)]


def _clo_case(cfg, values):
    I = Inputs(values)
    args = []
    for nm in ('limit', 'offset', 'limit2', 'offset2'):
        if cfg[nm] == 'none':
            args.append(None)
        else:
            x = I.int(nm); args.append(x); I.require(term(x) >= 0)
    n = I.ghost_int('n'); I.require(n >= 0)
    return Case(lambda: st.combine_limit_and_offset(*args), I.terms, I.pre)


def _clo_windows_compose(cfg, i, path):
    if path.outcome != 'ret': return None
    g = lambda k: i.get(k)
    n = i['n']
    a1, b1 = pyspec.window(n, g('limit'), g('offset'))
    a2, b2 = pyspec.window(b1 - a1, g('limit2'), g('offset2'))
    want = (a1 + a2, a1 + b2)
    rl, ro = path.value
    got = pyspec.window(n, None if rl is None else term(rl), None if ro is None else term(ro))
    return pyspec.same_window(want, got)


def _clo_result_shape(cfg, i, path):
    if path.outcome != 'ret': return None
    rl, ro = path.value
    return L.And(True if rl is None else term(rl) >= 0, True if ro is None else term(ro) >= 0)


CONTRACTS = [
    Contract('combine_limit_and_offset', 'pony.orm.sqltranslation:combine_limit_and_offset', _clo_configs, _clo_case,
             [('windows_compose', _clo_windows_compose), ('result_nonnegative', _clo_result_shape)],
             doc='R[o:][:l][o2:][:l2] == R[O:][:L] for every list length n and all non-negative bounds'),
]
