"""C24 Query methods agree with list semantics of the full ordered result (DESIGN 4-C24)."""
import itertools, z3
from vf.verify import Contract, Case
from vf.inputs import Inputs, term, same
from vf import pyspec, logic as L
from pony.orm import sqltranslation as st

META = dict(
    level='proof',
    explanation='window arithmetic of limit/offset composition proved for all list lengths and all non-negative bounds',
    trusted_base=['pyspec.window (cross-checked against CPython list slicing at start-up)'],
    assumptions=['aggregates, random(), bulk delete exactness and the SQL engines LIMIT/OFFSET implementation are not covered'],
)


def startup(rep, tier):
    rep.extra['pyspec_selfcheck_cases'] = pyspec.selfcheck(6 if tier == 'quick' else 9)


# ------------------------------------------------------------------ combine_limit_and_offset
def _clo_configs(tier):
    return [dict(zip(('limit', 'offset', 'limit2', 'offset2'), m)) for m in itertools.product(['none', 'int'], repeat=4)]


def _clo_case(cfg, values):
    I = Inputs(values)
    args = []
    for nm in ('limit', 'offset', 'limit2', 'offset2'):
        if cfg[nm] == 'none':
            args.append(None)
        else:
            x = I.int(nm); args.append(x); I.require(term(x) >= 0)
    n = I.ghost_int('n'); I.require(n >= 0)
    return Case(lambda: st.combine_limit_and_offset(*args), I.terms, I.pre)


def _clo_windows_compose(cfg, i, path):
    if path.outcome != 'ret': return None
    g = lambda k: i.get(k)
    n = i['n']
    a1, b1 = pyspec.window(n, g('limit'), g('offset'))
    a2, b2 = pyspec.window(b1 - a1, g('limit2'), g('offset2'))
    want = (a1 + a2, a1 + b2)
    rl, ro = path.value
    got = pyspec.window(n, None if rl is None else term(rl), None if ro is None else term(ro))
    return pyspec.same_window(want, got)


def _clo_result_shape(cfg, i, path):
    if path.outcome != 'ret': return None
    rl, ro = path.value
    return L.And(True if rl is None else term(rl) >= 0, True if ro is None else term(ro) >= 0)


# ------------------------------------------------------------------ Query.__getitem__ / limit / page / fetch
from pony.orm import core
from vf.explore import cur
from vf.proxy import SymStr
from contracts import harness as H


class FakeQuery(object):
    """Stands for the Query: these methods only call query._fetch(limit, offset, lazy=...), which is recorded."""
    def _fetch(self, limit=None, offset=None, lazy=False):
        cur().state['fetch'] = (limit, offset, lazy)
        return 'QueryResult'


def _gi_configs(tier):
    return [dict(start=a, stop=b) for a in ('none', 'int') for b in ('none', 'int')]


def _gi_case(cfg, values):
    I = Inputs(values)
    a = I.int('start') if cfg['start'] == 'int' else None
    b = I.int('stop') if cfg['stop'] == 'int' else None
    if b is not None: I.require(term(b) >= 0)          # the property quantifies over non-negative bounds; a negative start must raise
    n = I.ghost_int('n'); I.require(n >= 0)
    return Case(lambda: core.Query.__getitem__(FakeQuery(), slice(a, b)), I.terms, I.pre)


def _gi_window(cfg, i, path):
    a = i.get('start')
    if path.outcome == 'exc':
        return L.And(isinstance(path.value, TypeError), a is not None and a < 0)
    if a is not None and not isinstance(a < 0, bool) or (a is not None and isinstance(a < 0, bool) and a < 0):
        neg = a < 0
    else:
        neg = False
    limit, offset, lazy = path.state['fetch']
    want = pyspec.py_slice(i['n'], a, i.get('stop'))
    got = pyspec.window(i['n'], None if limit is None else term(limit), None if offset is None else term(offset))
    return L.And(L.Not(neg), pyspec.same_window(want, got),
                 True if limit is None else term(limit) >= 0, True if offset is None else term(offset) >= 0)


def _page_case(cfg, values):
    I = Inputs(values)
    pn = I.int('pagenum'); ps = I.int('pagesize'); I.require(term(pn) >= 1); I.require(term(ps) >= 0)
    n = I.ghost_int('n'); I.require(n >= 0)
    return Case(lambda: core.Query.page(FakeQuery(), pn, ps), I.terms, I.pre)


def _page_window(cfg, i, path):
    if path.outcome != 'ret': return False
    limit, offset, lazy = path.state['fetch']
    n = i['n']; pn = i['pagenum']; ps = i['pagesize']
    lo = (pn - 1) * ps
    want = (L.Min(lo, n), L.Min(lo + ps, n))
    got = pyspec.window(n, term(limit), term(offset))
    return pyspec.same_window(want, got)


def _limit_case(cfg, values):
    I = Inputs(values)
    l = I.int('limit') if cfg['limit'] == 'int' else None
    o = I.int('offset') if cfg['offset'] == 'int' else None
    m = getattr(core.Query, cfg['method'])
    return Case(lambda: m(FakeQuery(), l, o), I.terms, I.pre)


def _limit_passthrough(cfg, i, path):
    if path.outcome != 'ret': return False
    limit, offset, lazy = path.state['fetch']
    ok = lambda got, name: (got is None) if name not in i else same(got, i[name])
    return bool(ok(limit, 'limit') and ok(offset, 'offset') and lazy == (cfg['method'] == 'limit'))


# ------------------------------------------------------------------ construct_sql_ast: LIMIT section on a real translator, per dialect
def _lim_configs(tier):
    out = []
    for d in ('SQLite', 'PostgreSQL', 'MySQL'):
        for m in itertools.product(['none', 'int'], repeat=4):
            out.append(dict(dialect=d, tlimit=m[0], toffset=m[1], limit=m[2], offset=m[3]))
    return out


UNBOUNDED = {'SQLite': -1, 'MySQL': 18446744073709551615}


def _lim_case(cfg, values):
    I = Inputs(values)
    v = {}
    for nm in ('tlimit', 'toffset', 'limit', 'offset'):
        if cfg[nm] == 'int':
            v[nm] = I.int(nm); I.require(term(v[nm]) >= 0)
        else: v[nm] = None
    n = I.ghost_int('n'); I.require(n >= 0); I.require(n < 2 ** 64)
    M = H.model()

    def setup(run): H.push_translator(M, cfg['dialect'])
    def teardown(run): H.pop_translator(M)

    def call():
        tr = M.tr
        tr.limit = v['tlimit']; tr.offset = v['toffset']
        sql_ast, attr_offsets = tr.construct_sql_ast(v['limit'], v['offset'])
        sec = [x for x in sql_ast if isinstance(x, list) and x and x[0] == 'LIMIT']
        return sec
    return Case(call, I.terms, I.pre, setup, teardown)


def _lim_semantics(cfg, i, path):
    """LIMIT l [OFFSET o] returns rows R[o:][:l]; on SQLite -1 and on MySQL 2**64-1 mean "no limit" (n < 2**64);
    on PostgreSQL LIMIT NULL means no limit."""
    if path.outcome != 'ret': return False
    n = i['n']
    a1, b1 = pyspec.window(n, i.get('tlimit'), i.get('toffset'))
    a2, b2 = pyspec.window(b1 - a1, i.get('limit'), i.get('offset'))
    want = (a1 + a2, a1 + b2)
    sec = path.value
    if not sec:
        got = (0, n)
    else:
        if len(sec) != 1: return False
        sec = sec[0]
        l = sec[1]; o = sec[2] if len(sec) > 2 else None
        if l is None:
            if cfg['dialect'] != 'PostgreSQL': return False          # 'LIMIT null' is only valid on PostgreSQL
            lt = None
        else:
            lt = term(l)
            if isinstance(lt, int) and lt == UNBOUNDED.get(cfg['dialect'], object()): lt = None
        got = pyspec.window(n, lt, None if o is None else term(o))
    return pyspec.same_window(want, got)


# ------------------------------------------------------------------ SQLBuilder.LIMIT text
def _lt_configs(tier):
    return [dict(limit=a, offset=b) for a in ('none', 'int') for b in ('none', 'int')]


def _lt_case(cfg, values):
    from pony.orm import sqlbuilding as sb
    I = Inputs(values)
    l = I.int('limit') if cfg['limit'] == 'int' else None
    o = I.int('offset') if cfg['offset'] == 'int' else None
    if l is not None: I.require(term(l) >= -1)
    if o is not None: I.require(term(o) >= 0)
    B = type('B', (), dict(indent=0, indent_spaces='    '))      # stands for the builder: LIMIT (via @indentable) reads only .indent
    return Case(lambda: sb.SQLBuilder.LIMIT(B(), l, o), I.terms, I.pre)


def _lt_text(cfg, i, path):
    if path.outcome != 'ret': return False
    r = path.value
    pieces = list(r.pieces) if isinstance(r, SymStr) else [('lit', r)]
    def lit(p, t): return p[0] == 'lit' and p[1] == t
    def num(p, name): return p[0] == 'int' and same(p[1], i[name]) and p[2] == ''
    k = 0
    if 'limit' in i:
        if not (lit(pieces[0], 'LIMIT ') and num(pieces[1], 'limit')): return False
        k = 2
    else:
        if not (pieces[0][0] == 'lit' and pieces[0][1].startswith('LIMIT null')): return False
        pieces = [('lit', pieces[0][1][len('LIMIT null'):])] + pieces[1:]
        k = 0
    rest = pieces[k:]
    if 'offset' in i:
        with_off = len(rest) == 3 and lit(rest[0], ' OFFSET ') and num(rest[1], 'offset') and lit(rest[2], '\n')
        without = len(rest) == 1 and lit(rest[0], '\n')
        # OFFSET may be omitted exactly when it is 0
        return L.ite(L.Eq(i['offset'], 0), without, with_off)
    return len(rest) == 1 and lit(rest[0], '\n')


# ------------------------------------------------------------------ DISTINCT must not depend on ordering (non-interference)
def _dist_configs(tier):
    return [dict(auto_distinct=a, explicit=e) for a in (True, False) for e in ('None', 'True', 'False')]


def _dist_case(cfg, values):
    M = H.model()

    def setup(run): H.push_translator(M, 'SQLite')
    def teardown(run): H.pop_translator(M)

    def call():
        tr = M.tr
        tr.distinct = cfg['auto_distinct']
        explicit = {'None': None, 'True': True, 'False': False}[cfg['explicit']]
        out = []
        for order in ([], [['COLUMN', 'p', 'id']]):
            tr.order = order
            ast_, _ = tr.construct_sql_ast(None, None, explicit)
            sel = [x for x in ast_ if isinstance(x, list) and x and x[0] in ('ALL', 'DISTINCT')][0][0]
            out.append(sel)
        return out
    return Case(call, {}, [], setup, teardown)


def _dist_spec(cfg, i, path):
    if path.outcome != 'ret': return False
    unordered, ordered = path.value
    want = {'None': cfg['auto_distinct'], 'True': True, 'False': False}[cfg['explicit']]
    return unordered == ('DISTINCT' if want else 'ALL') and ordered == unordered


from contracts import c24_chains as CH
from contracts import c24_counts as CN

CONTRACTS = [
    Contract('combine_limit_and_offset', 'pony.orm.sqltranslation:combine_limit_and_offset', _clo_configs, _clo_case,
             [('windows_compose', _clo_windows_compose), ('result_nonnegative', _clo_result_shape)],
             doc='R[o:][:l][o2:][:l2] == R[O:][:L] for every list length n and all non-negative bounds'),
    Contract('Query.__getitem__', 'pony.orm.core:Query.__getitem__', _gi_configs, _gi_case, [('requests_the_python_slice_window', _gi_window)],
             allowed_exc=(TypeError,), doc='q[a:b] requests exactly R[a:b] (limit/offset) for all a, b >= 0 or omitted; negative start raises'),
    Contract('Query.page', 'pony.orm.core:Query.page', [dict()], _page_case, [('requests_the_page_window', _page_window)],
             doc='page(k, size) requests R[(k-1)*size : k*size] for all k >= 1, size >= 0'),
    Contract('Query.limit_fetch', ['pony.orm.core:Query.limit', 'pony.orm.core:Query.fetch'],
             [dict(method=m, limit=a, offset=b) for m in ('limit', 'fetch') for a in ('none', 'int') for b in ('none', 'int')], _limit_case,
             [('passes_bounds_through', _limit_passthrough)]),
    Contract('construct_sql_ast.LIMIT', 'pony.orm.sqltranslation:SQLTranslator.construct_sql_ast', _lim_configs, _lim_case,
             [('limit_section_denotes_composed_window', _lim_semantics)],
             doc='real translator, provider.dialect overridden; translator.limit/offset (from a limited subquery) composed with the requested window',
             assumptions=['LIMIT l OFFSET o selects R[o:][:l]; SQLite LIMIT -1, MySQL LIMIT 2**64-1 and PostgreSQL LIMIT NULL mean no limit (result shorter than 2**64 rows)']),
    Contract('SQLBuilder.LIMIT', 'pony.orm.sqlbuilding:SQLBuilder.LIMIT', _lt_configs, _lt_case, [('text_is_limit_offset_in_order', _lt_text)],
             doc='LIMIT <limit> [OFFSET <offset>] with the numbers in that order; OFFSET omitted iff 0'),
    Contract('construct_sql_ast.DISTINCT', 'pony.orm.sqltranslation:SQLTranslator.construct_sql_ast', _dist_configs, _dist_case,
             [('select_mode_independent_of_ordering', _dist_spec)],
             doc='ordering a query must only permute its result: the DISTINCT/ALL decision must not read translator.order'),
    Contract('method_chains_vs_list', ['pony.orm.core:Query.__getitem__', 'pony.orm.core:Query.limit', 'pony.orm.core:Query.page', 'pony.orm.core:Query.first', 'pony.orm.core:Query.get',
                                       'pony.orm.core:Query.exists', 'pony.orm.core:Query.count', 'pony.orm.core:Query._aggregate', 'pony.orm.core:Query.random', 'pony.orm.core:Query.delete',
                                       'pony.orm.core:Query.filter', 'pony.orm.core:Query.order_by', 'pony.orm.core:QueryResult'],
             CH.configs, CH.case, [('chain_equals_the_python_operation_on_the_full_result', CH.spec)], level='bounded', bound=CH.BOUND),
    Contract('count_exists_len_vs_list', ['pony.orm.core:Query.count', 'pony.orm.core:Query.exists', 'pony.orm.core:Query.__len__', 'pony.orm.core:Query.distinct', 'pony.orm.core:Query.without_distinct',
                                          'pony.orm.core:Query._aggregate', 'pony.orm.sqltranslation:SQLTranslator.construct_sql_ast'],
             CN.configs, CN.case, [('count_exists_and_len_agree_with_the_list_of_rows', CN.spec)], level='bounded', bound=CN.BOUND),
]
