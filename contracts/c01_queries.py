"""C01 (bounded part): whole declarative queries against Python evaluation of the SAME expression, on real in-memory SQLite.

A row condition is given as source text: `eval('lambda s: ' + text)` goes to pony (`Entity.select(lam)`, which decompiles and translates it), and the SAME text is evaluated
on every loaded object by a small reference interpreter of Python expressions that implements the rule of the property for missing values: a comparison or arithmetic
with None is UNKNOWN / None (SQL three-valued logic), a None VALUE in a truth test is false, `is None` is two-valued, and a row is selected iff the condition is TRUE.
Where no value is missing the interpreter IS Python evaluation (cross-checked on every run against the real lambda). A row on which Python raises for another reason
(index out of range, division by zero) is not compared. Queries that are not a per-row condition (subqueries, aggregates, projections, ordering, queries over queries) come with a hand-written Python
equivalent over the loaded objects."""
import types
from vf.verify import Case
from vf.explore import cur
from pony import orm
from pony.orm import core

BOUND = "one model (Student / Group / Course, nullable attributes and relationships, 10 students, 5 groups); ~115 row conditions evaluated by a reference interpreter with the property's rule for missing values, ~35 whole queries with hand-written Python equivalents, ~215 generated conditions with an aggregate over a collection (sum / min / max / avg / count, attribute path and generator form, with and without the JOIN() hint)"
_M = None


def model():
    global _M
    if _M is None:
        db = orm.Database('sqlite', ':memory:')

        class Group(db.Entity):
            name = orm.Required(str)
            level = orm.Optional(int)
            students = orm.Set('Student')

        class Student(db.Entity):
            name = orm.Required(str)
            age = orm.Optional(int)
            gpa = orm.Optional(float)
            nick = orm.Optional(str, nullable=True)
            note = orm.Optional(str)
            flag = orm.Optional(bool)
            a = orm.Required(int)
            b = orm.Required(int)
            group = orm.Optional(Group)
            courses = orm.Set('Course')

        class Course(db.Entity):
            title = orm.Required(str)
            credits = orm.Required(int)
            students = orm.Set(Student)
        db.generate_mapping(create_tables=True)
        with orm.db_session:
            g1 = Group(name='g1', level=1); g2 = Group(name='g2', level=None); g3 = Group(name='g3 unused', level=3); g4 = Group(name='G4', level=0); g5 = Group(name='g5%', level=2)
            c1 = Course(title='math', credits=5); c2 = Course(title='art', credits=0); c3 = Course(title='none', credits=3)
            rows = [('alice', 20, 3.5, 'al', 'x', True, 1, 1, g1, [c1, c2]), ('bob', 18, 2.0, None, '', False, 1, 5, g1, [c1]), ('carol', None, None, '', 'note', None, 2, 0, g2, []),
                    ('dave', 21, 4.0, 'D', 'a_b', True, 2, 3, None, [c2]), ('eve', 0, 0.0, 'e%', '50%', False, 2, 9, g2, [c1, c2]), ('frank', 19, 3.5, None, 'x', None, 3, 3, None, []),
                    ('Grace', 20, 1.5, 'gr', ' pad ', True, 0, 0, g4, [c1]), ('heidi', -1, -2.5, 'h', 'x', False, 3, 0, g1, [c2]), ('ivan', 35, 3.0, 'iv', 'X', True, 5, 5, g5, [c1, c2]),
                    ('judy', 18, None, 'ju', '', None, 2, 3, g4, [])]
            for name, age, gpa, nick, note, flag, a, b, g, cs in rows:
                Student(name=name, age=age, gpa=gpa, nick=nick, note=note, flag=flag, a=a, b=b, group=g, courses=cs)
        _M = types.SimpleNamespace(db=db, Group=Group, Student=Student, Course=Course)
    return _M


ENV = dict(x18=18, lst=[18, 20], sfx='e', nn=None)
CONDS = [
    's.age', 'not s.age', 's.gpa', 'not s.gpa', 's.nick', 'not s.nick', 's.note', 'not s.note', 's.flag', 'not s.flag', 's.group', 'not s.group',
    's.age == None', 's.age != None', 'None == s.age', 'None != s.age', 'None is s.age', 'None is not s.group', 'nn == s.age', 'nn != s.nick', 's.age == nn', 's.group != nn', 'nn is s.flag',
    'None == s.group', 'not (None == s.age)', 'None != s.gpa and s.a > 1', 's.nick == None or s.a == 0',
    's.age is None', 's.age is not None', 's.group is None', 's.flag is None', 's.flag == True', 's.flag == False', 's.flag != True',
    's.age == 20', 's.age != 20', 's.age > 18', 's.age >= x18', '18 <= s.age < 21', 's.age + 1 > 20', 's.age * 2 == 40', 's.age - s.b < 17', '-s.age < -19',
    's.age // 3 == 6', 's.age // 3 == -1', 's.age % 3 == 2', 's.b % 3 == 2', 's.b // 2 == 1', 's.age ** 2 > 400', 's.gpa / 2 > 1.5', 'abs(s.age - 20) < 2', 's.a + s.b == 6', 's.a * s.b == 0',
    's.gpa == 3.5', 's.gpa < 0', 's.age > 18 or s.flag', 's.age > 18 and s.flag', 'not (s.age > 18 and s.flag)', 'not (s.a > 1 and s.flag)', 'not (s.flag or s.a > 1)',
    'not (s.a > 1 or s.b > 4)', '(s.a > 1) == (s.b > 2)', 's.a > 1 and not s.b > 2 or s.a == 0', 'not (s.age and s.nick)', 'not (s.note or s.age)', 'not (not s.flag and s.a > 1)',
    's.age in (18, 20)', 's.age not in (18, 20)', 's.age in lst', 's.a in (s.b, 2)', 's.a not in (s.b, 2)', "s.nick in ('al', 'D')", "s.nick not in ('al', 'D')",
    's.a in (s.age, 2)', 's.a not in (s.age, 1)',
    '(s.a, s.b) <= (2, 3)', '(s.a, s.b) > (2, 3)', '(s.a, s.b) == (2, 3)', '(s.a, s.b) != (2, 3)', '(s.a, s.b) >= (s.b, s.a)', '(s.a, s.b, s.id) < (2, 3, 5)',
    "s.name.startswith('a')", 's.name.endswith(sfx)', "'a' in s.name", "'a' not in s.name", "s.nick.startswith('e%')", "'%' in s.note", "'_' in s.note", "'a_' in s.note",
    "s.name.upper() == 'GRACE'", "s.name.lower() == 'grace'", "s.note.strip() == 'pad'", 'len(s.name) == 3', 'len(s.note) == 0', "s.name[0] == 'a'", "s.name[-1] == 'e'",
    "s.name[1:3] == 'li'", "s.name[:2] == 'al'", "s.name[-2:] == 've'", "s.name + s.note == 'bob'", "s.name < 'c'", 's.name == s.nick', "s.nick == 'al'", "s.nick != 'al'",
    "s.note == ''", "s.note != ''", 'max(s.a, s.b) == 5', 'min(s.a, s.b) == 0',
    "s.group.name == 'g1'", 's.group.level == 1', 's.group.level is None', "s.group.name.startswith('g')", 'not s.group.level', 's.group.level',
    'int(s.gpa) == 3', 'float(s.age) == 20.0', "str(s.age) == '20'", 's.age == s.a * 10', '(s.age > 18) == s.flag',
]
T, F, U = 'T', 'F', 'U'


class Skip(Exception):
    """Python itself gives the expression no value on this row (IndexError, ZeroDivisionError, ...)"""


def _tv(x):
    """truth value of a sub-result used in a truth test: a missing VALUE is false; UNKNOWN stays unknown"""
    kind, v = x
    if kind == 'tv': return v
    return T if v else F


def ref_eval(node, env):
    """-> ('val', python value or None) | ('tv', T / F / U)"""
    import ast
    ev = lambda n: ref_eval(n, env)
    if isinstance(node, ast.Constant): return 'val', node.value
    if isinstance(node, ast.Name): return 'val', env[node.id]
    if isinstance(node, ast.Tuple) or isinstance(node, ast.List): return 'val', tuple(_val(ev(e)) for e in node.elts)
    if isinstance(node, ast.Attribute):
        k, o = ev(node.value)
        if o is None: raise Skip()                                     # Python: None has no attributes; the expression has no value on this row
        return 'val', getattr(o, node.attr)
    if isinstance(node, ast.UnaryOp):
        if isinstance(node.op, ast.Not):
            t = _tv(ev(node.operand)); return 'tv', {T: F, F: T, U: U}[t]
        v = _val(ev(node.operand))
        if v is None: return 'val', None
        return 'val', (-v if isinstance(node.op, ast.USub) else +v if isinstance(node.op, ast.UAdd) else ~v)
    if isinstance(node, ast.BoolOp):
        parts = [ev(v) for v in node.values]
        if all(k == 'val' for k, v in parts):                            # value-level and / or: Python's own
            r = parts[0][1]
            for k, v in parts[1:]:
                r = (r and v) if isinstance(node.op, ast.And) else (r or v)
            return 'val', r
        ts = [_tv(x) for x in parts]
        if isinstance(node.op, ast.And): return 'tv', (F if F in ts else U if U in ts else T)
        return 'tv', (T if T in ts else U if U in ts else F)
    if isinstance(node, ast.BinOp):
        a, b = _val(ev(node.left)), _val(ev(node.right))
        if a is None or b is None: return 'val', None
        import operator as O
        f = {ast.Add: O.add, ast.Sub: O.sub, ast.Mult: O.mul, ast.Div: O.truediv, ast.FloorDiv: O.floordiv, ast.Mod: O.mod, ast.Pow: O.pow}[type(node.op)]
        try: return 'val', f(a, b)
        except (ZeroDivisionError, OverflowError): raise Skip()
    if isinstance(node, ast.Compare):
        left = ev(node.left); res = T; prev_node = node.left
        for op, rn in zip(node.ops, node.comparators):
            right = ev(rn)
            a, b = _val(left), _val(right)
            # a comparison with the None CONSTANT (written out, or an outer value that is None) is a None test: two-valued, whichever side it stands on
            none_test = isinstance(op, (ast.Eq, ast.NotEq)) and any(isinstance(n, ast.Constant) and n.value is None or isinstance(n, ast.Name) and n.id != 's' and env.get(n.id, 0) is None
                                                                    for n in (prev_node, rn))
            if isinstance(op, (ast.Is, ast.IsNot)) or none_test:
                r = T if ((a is b) == isinstance(op, (ast.Is, ast.Eq))) else F
            elif isinstance(op, (ast.In, ast.NotIn)):
                if isinstance(b, str) or isinstance(a, str) and isinstance(b, str): r = U if a is None or b is None else (T if a in b else F)
                elif a is None: r = U
                else:
                    items = list(b)
                    r = T if any(x is not None and x == a for x in items) else (U if any(x is None for x in items) else F)
                if isinstance(op, ast.NotIn): r = {T: F, F: T, U: U}[r]
            else:
                if isinstance(a, tuple) and isinstance(b, tuple):
                    if any(x is None for x in a + b): r = U
                    else: r = T if _cmp(op, a, b) else F
                elif a is None or b is None: r = U
                else:
                    try: r = T if _cmp(op, a, b) else F
                    except TypeError: raise Skip()
            res = F if F in (res, r) else U if U in (res, r) else T
            left = right; prev_node = rn
        return 'tv', res
    if isinstance(node, ast.Call):
        args = [_val(ev(a)) for a in node.args]
        if isinstance(node.func, ast.Attribute):
            o = _val(ev(node.func.value))
            if o is None or any(a is None for a in args): return 'val', None
            return 'val', getattr(o, node.func.attr)(*args)
        fn = {'len': len, 'abs': abs, 'max': max, 'min': min, 'int': int, 'float': float, 'str': str, 'round': round}[node.func.id]
        if any(a is None for a in args): return 'val', None
        return 'val', fn(*args)
    if isinstance(node, ast.Subscript):
        o = _val(ev(node.value))
        if o is None: return 'val', None
        if isinstance(node.slice, ast.Slice):
            g = lambda n: None if n is None else _val(ev(n))
            return 'val', o[g(node.slice.lower):g(node.slice.upper)]
        try: return 'val', o[_val(ev(node.slice))]
        except IndexError: raise Skip()
    if isinstance(node, ast.IfExp):
        return ev(node.body) if _tv(ev(node.test)) == T else ev(node.orelse)
    raise NotImplementedError(type(node).__name__)


def _val(x):
    kind, v = x
    if kind == 'val': return v
    return {T: True, F: False, U: None}[v]


def _cmp(op, a, b):
    import ast, operator as O
    return {ast.Eq: O.eq, ast.NotEq: O.ne, ast.Lt: O.lt, ast.LtE: O.le, ast.Gt: O.gt, ast.GtE: O.ge}[type(op)](a, b)


def selected(text, obj):
    """does the reference semantics select this row? (raises Skip where Python gives no value)"""
    import ast
    tree = ast.parse(text, mode='eval').body
    env = dict(ENV); env['s'] = obj
    return _tv(ref_eval(tree, env)) == T


def has_missing(text, obj):
    """does the row touch a missing value in this expression? (then Python evaluation and the reference may differ by design)"""
    import ast
    tree = ast.parse(text, mode='eval').body
    for n in ast.walk(tree):
        if isinstance(n, ast.Attribute):
            try:
                env = dict(ENV); env['s'] = obj
                if _val(ref_eval(n, env)) is None: return True
            except Exception: return True
    return False


def conditions():
    return [(t, eval('lambda s: ' + t, dict(ENV))) for t in CONDS]


def whole_queries(M):
    """(name, pony query thunk -> list, python equivalent over loaded objects -> list); results are compared as sorted lists / multisets where stated"""
    S, G, C = M.Student, M.Group, M.Course
    allS = lambda: list(S.select().order_by(S.id)); allG = lambda: list(G.select().order_by(G.id)); allC = lambda: list(C.select().order_by(C.id))
    names = lambda objs: sorted(o.name for o in objs)
    sel = orm.select
    return [
        ('group not in student groups', lambda: names(sel(g for g in G if g not in (s.group for s in S))), lambda: names(g for g in allG() if g not in [s.group for s in allS()])),
        ('group in student groups', lambda: names(sel(g for g in G if g in (s.group for s in S))), lambda: names(g for g in allG() if g in [s.group for s in allS()])),
        ('group not in select()', lambda: names(sel(g for g in G if g not in sel(s.group for s in S if s.age > 18))), lambda: names(g for g in allG() if g not in [s.group for s in allS() if s.age is not None and s.age > 18])),
        ('age not in ages of a-students', lambda: names(sel(s for s in S if s.age not in (x.age for x in S if x.a == 1))), lambda: names(s for s in allS() if s.age is not None and s.age not in [x.age for x in allS() if x.a == 1])),
        ('age in ages of a-students', lambda: names(sel(s for s in S if s.age in (x.age for x in S if x.a == 1))), lambda: names(s for s in allS() if s.age in [x.age for x in allS() if x.a == 1])),
        ('level not in (s.a ...)', lambda: names(sel(g for g in G if g.level not in (s.a for s in S))), lambda: names(g for g in allG() if g.level is not None and g.level not in [s.a for s in allS()])),
        ('count(students) > 1', lambda: names(sel(g for g in G if orm.count(g.students) > 1)), lambda: names(g for g in allG() if len(g.students) > 1)),
        ('len(students) == 0', lambda: names(sel(g for g in G if len(g.students) == 0)), lambda: names(g for g in allG() if len(g.students) == 0)),
        ('not students', lambda: names(sel(g for g in G if not g.students)), lambda: names(g for g in allG() if not g.students)),
        ('truthy students', lambda: names(sel(g for g in G if g.students)), lambda: names(g for g in allG() if g.students)),
        ('exists older student', lambda: names(sel(g for g in G if orm.exists(s for s in g.students if s.age > 19))), lambda: names(g for g in allG() if any(s.age is not None and s.age > 19 for s in g.students))),
        ('not exists older student', lambda: names(sel(g for g in G if not orm.exists(s for s in g.students if s.age > 19))), lambda: names(g for g in allG() if not any(s.age is not None and s.age > 19 for s in g.students))),
        ('sum(ages) > 30', lambda: names(sel(g for g in G if orm.sum(s.age for s in g.students) > 30)), lambda: names(g for g in allG() if sum(s.age for s in g.students if s.age is not None) > 30)),
        ('sum(ages) == 0 (empty or zero)', lambda: names(sel(g for g in G if orm.sum(s.age for s in g.students) == 0)), lambda: names(g for g in allG() if sum(s.age for s in g.students if s.age is not None) == 0)),
        ('max(ages) == 20', lambda: names(sel(g for g in G if orm.max(s.age for s in g.students) == 20)), lambda: names(g for g in allG() if [s.age for s in g.students if s.age is not None] and max(s.age for s in g.students if s.age is not None) == 20)),
        ('student in group of level 1', lambda: names(sel(s for s in S if s.group in (g for g in G if g.level == 1))), lambda: names(s for s in allS() if s.group in [g for g in allG() if g.level == 1])),
        ('student takes math', lambda: names(sel(s for s in S for c in s.courses if c.title == 'math')), lambda: names(s for s in allS() for c in s.courses if c.title == 'math')),
        ('math in course titles', lambda: names(sel(s for s in S if 'math' in s.courses.title)), lambda: names(s for s in allS() if 'math' in [c.title for c in s.courses])),
        ('no courses', lambda: names(sel(s for s in S if not s.courses)), lambda: names(s for s in allS() if not s.courses)),
        ('sum(credits) >= 5', lambda: names(sel(s for s in S if orm.sum(s.courses.credits) >= 5)), lambda: names(s for s in allS() if sum(c.credits for c in s.courses) >= 5)),
        ('count(courses) == 2', lambda: names(sel(s for s in S if orm.count(s.courses) == 2)), lambda: names(s for s in allS() if len(s.courses) == 2)),
        ('two for clauses', lambda: sorted(sel((s.name, t.name) for s in S for t in S if s.a == t.b and s.id < t.id)), lambda: sorted((s.name, t.name) for s in allS() for t in allS() if s.a == t.b and s.id < t.id)),
        ('join through group', lambda: sorted(sel((s.name, g.name) for s in S for g in G if s.group == g and g.level > 0)), lambda: sorted((s.name, g.name) for s in allS() for g in allG() if s.group == g and g.level is not None and g.level > 0)),
        ('projection (name, age)', lambda: sorted(sel((s.name, s.age) for s in S), key=repr), lambda: sorted(((s.name, s.age) for s in allS()), key=repr)),
        ('projection age + 1 (distinct)', lambda: sorted(sel(s.age + 1 for s in S if s.age is not None)), lambda: sorted(set(s.age + 1 for s in allS() if s.age is not None))),
        ('projection group.name', lambda: sorted(sel((s.name, s.group.name) for s in S if s.group is not None)), lambda: sorted((s.name, s.group.name) for s in allS() if s.group is not None)),
        ('count()', lambda: [sel(s for s in S if s.a == 2).count()], lambda: [len([s for s in allS() if s.a == 2])]),
        ('sum(age)', lambda: [orm.sum(s.age for s in S)], lambda: [sum(s.age for s in allS() if s.age is not None)]),
        ('min / max age', lambda: [orm.min(s.age for s in S), orm.max(s.age for s in S)], lambda: [min(s.age for s in allS() if s.age is not None), max(s.age for s in allS() if s.age is not None)]),
        ('avg(gpa)', lambda: [round(orm.avg(s.gpa for s in S), 9)], lambda: [round(sum(s.gpa for s in allS() if s.gpa is not None) / len([s for s in allS() if s.gpa is not None]), 9)]),
        ('count(distinct a)', lambda: [orm.count(s.a for s in S)], lambda: [len(set(s.a for s in allS()))]),
        ('order_by a desc, name [:3]', lambda: [s.name for s in sel(s for s in S).order_by(orm.desc(S.a), S.name)[:3]], lambda: [s.name for s in sorted(allS(), key=lambda s: (-s.a, s.name))[:3]]),
        ('order_by b, id [2:5]', lambda: [s.name for s in sel(s for s in S).order_by(S.b, S.id)[2:5]], lambda: [s.name for s in sorted(allS(), key=lambda s: (s.b, s.id))[2:5]]),
        ('first()', lambda: [sel(s for s in S if s.a == 2).order_by(S.id).first().name], lambda: [[s for s in allS() if s.a == 2][0].name]),
        ('filter over a limited query', lambda: [s.name for s in sel(s for s in sel(s for s in S).order_by(S.id).limit(3) if s.b > 2)], lambda: [s.name for s in allS()[:3] if s.b > 2]),
        ('group by: (g.name, count)', lambda: sorted(sel((g.name, orm.count(g.students)) for g in G)), lambda: sorted((g.name, len(g.students)) for g in allG())),
        ('group by: (a, sum(b))', lambda: sorted(sel((s.a, orm.sum(s.b)) for s in S)), lambda: sorted((a, sum(s.b for s in allS() if s.a == a)) for a in set(s.a for s in allS()))),
    ]


def aggregate_queries(M):
    """aggregates over a collection inside a condition, written as attribute path and as generator, with and without the JOIN() hint, compared with Python's own sum / min / max / avg / len
    on the loaded objects (missing values skipped; min / max / avg of nothing is None and selects nothing; sum of nothing is 0)"""
    import operator as O
    S, G = M.Student, M.Group
    allS = lambda: list(S.select().order_by(S.id)); allG = lambda: list(G.select().order_by(G.id))
    names = lambda objs: sorted(o.name for o in objs)
    paths = {'g.students.age': (G, allG, lambda g: [x.age for x in g.students]), 'g.students.b': (G, allG, lambda g: [x.b for x in g.students]),
             'g.students.gpa': (G, allG, lambda g: [x.gpa for x in g.students]), 's.courses.credits': (S, allS, lambda s: [c.credits for c in s.courses])}
    aggs = {'sum': lambda v: sum(v), 'min': lambda v: min(v) if v else None, 'max': lambda v: max(v) if v else None, 'avg': lambda v: sum(v) / len(v) if v else None}
    comps = {'== 0': (O.eq, 0), '> 20': (O.gt, 20), '< 5': (O.lt, 5), '!= 5': (O.ne, 5), '>= 3.5': (O.ge, 3.5)}
    out = []
    def add(text, E, objs, pyval, var):
        for hint in ('', 'JOIN'):
            cond = 'orm.JOIN(%s)' % text if hint else text
            q = eval('lambda E: orm.select(%s for %s in E if %s)' % (var, var, cond), {'orm': orm})
            out.append(('%s%s' % ('JOIN hint: ' if hint else '', text), (lambda q=q, E=E: names(q(E))), (lambda objs=objs, pyval=pyval: names(o for o in objs() if pyval(o)))))
    for ptext, (E, objs, getter) in paths.items():
        var = ptext[0]; coll, attr = ptext.split('.')[1:]
        for aname, afn in aggs.items():
            for ctext, (cop, k) in comps.items():
                def pyval(o, getter=getter, afn=afn, cop=cop, k=k):
                    v = afn([x for x in getter(o) if x is not None])
                    return v is not None and cop(v, k)
                add('orm.%s(%s) %s' % (aname, ptext, ctext), E, objs, pyval, var)
                if aname in ('sum', 'max') and ctext in ('== 0', '> 20'):
                    add('orm.%s(x.%s for x in %s.%s) %s' % (aname, attr, var, coll, ctext), E, objs, pyval, var)
    for ctext, (cop, k) in {'== 0': (O.eq, 0), '> 1': (O.gt, 1), '!= 2': (O.ne, 2), '< 2': (O.lt, 2)}.items():
        add('orm.count(g.students) %s' % ctext, G, allG, (lambda o, cop=cop, k=k: cop(len(o.students), k)), 'g')
        add('len(g.students) %s' % ctext, G, allG, (lambda o, cop=cop, k=k: cop(len(o.students), k)), 'g')
        add('orm.count(s.courses) %s' % ctext, S, allS, (lambda o, cop=cop, k=k: cop(len(o.courses), k)), 's')
    return out


def configs(tier):
    return ([dict(kind='condition', q=n) for n in CONDS] + [dict(kind='query', q=n) for n, f, g in whole_queries(model())]
            + [dict(kind='aggregate', q=n) for n, f, g in aggregate_queries(model())])


DC = ('<python raises>',)


def case(cfg, values):
    M = model()

    def setup(run):
        core.local.db2cache.clear(); core.local.db_context_counter = 0; core.local.db_session = None

    def teardown(run):
        try: orm.rollback()
        except Exception: pass
        core.local.db2cache.clear(); core.local.db_context_counter = 0; core.local.db_session = None

    def call():
        st = cur().state
        with orm.db_session:
            if cfg['kind'] == 'condition':
                text = cfg['q']
                lam = dict(conditions())[text]
                objs = list(M.Student.select().order_by(M.Student.id))
                for o in objs: o.group and o.group.name
                try:
                    got = set(o.name for o in M.Student.select(lam))
                except (core.TranslationError, NotImplementedError, TypeError, core.ExprEvalError) as e:
                    st['compared'] = 1; st['rejected'] = '%s: %s' % (type(e).__name__, e)      # "a query pony cannot translate raises an error": allowed
                    return []
                diffs = []; compared = 0
                for o in objs:
                    try: w = selected(text, o)
                    except Skip: continue
                    if not has_missing(text, o):
                        # no missing value involved: the reference interpreter must BE Python evaluation
                        try: pyv = bool(lam(o))
                        except Exception: continue
                        if pyv != w: diffs.append((o.name, 'reference interpreter disagrees with Python', pyv, w))
                    compared += 1
                    if w != (o.name in got): diffs.append((o.name, 'selected' if o.name in got else 'not selected', 'reference: %r' % (w,)))
                st['compared'] = compared
                return diffs
            name, q, py = [x for x in (aggregate_queries(M) if cfg['kind'] == 'aggregate' else whole_queries(M)) if x[0] == cfg['q']][0]
            want = py()
            try: got = q()
            except (core.TranslationError, NotImplementedError) as e:
                if cfg['kind'] != 'aggregate': raise
                st['compared'] = 1; st['rejected'] = '%s: %s' % (type(e).__name__, e)          # "a query pony cannot translate raises an error": allowed
                return []
            st['compared'] = 1
            got = [tuple(x) if isinstance(x, (tuple, list)) else x for x in got]; want = [tuple(x) if isinstance(x, (tuple, list)) else x for x in want]
            return [] if got == want else [('query: %r' % (got,), 'python: %r' % (want,))]
    return Case(call, {}, [], setup, teardown)


def spec(cfg, i, path):
    return path.outcome == 'ret' and path.value == [] and path.state['compared'] > 0
