"""C10 (bounded part): a value written in the session is what every later read in the session sees, also when the object's row is (re)loaded from the database in between.

An object can be known to the session by its key only (reached through a reference), partly (some columns fetched) or completely. A program assigns attributes of such an
object WITHOUT reading them first, then performs an operation that may fetch the object's row - some of them with automatic flushing switched off (Entity.set() loading a
not yet loaded relationship, collection operations) - and then reads. Reference: a plain dict of the row with the assignments applied in program order. In the session every
attribute read, get() / select() / exists() by the new and by the old value, to_dict() and raw SQL must agree with the dict; after commit a new session must, too."""
import itertools, types
from vf.verify import Case
from pony import orm
from pony.orm import core

BOUND = 'one Group object known by key only / partly / completely; 7 blind assignments x 14 row-loading operations x 3 ways of knowing the object; reads in the session and after commit'
_M = None


def model():
    global _M
    if _M is None:
        db = orm.Database('sqlite', ':memory:')

        class Dept(db.Entity):
            id = orm.PrimaryKey(int)
            name = orm.Required(str)
            groups = orm.Set('Group')

        class Group(db.Entity):
            id = orm.PrimaryKey(int, auto=True)
            title = orm.Required(str)
            room = orm.Optional(str)
            level = orm.Optional(int)
            dept = orm.Optional(Dept)
            students = orm.Set('Student')

        class Student(db.Entity):
            id = orm.PrimaryKey(int)
            name = orm.Required(str)
            group = orm.Required(Group)
        db.generate_mapping(create_tables=True)
        _M = types.SimpleNamespace(db=db, Dept=Dept, Group=Group, Student=Student)
        _M.NewGroup = lambda **kw: Group(**kw)                  # (the key of Group is an AUTO integer: a new group has no key until its INSERT)
    return _M


def _reset():
    try: orm.rollback()
    except Exception: pass
    core.local.db2cache.clear(); core.local.db_context_counter = 0; core.local.db_session = None


def _data(M):
    _reset()
    with orm.db_session:
        for t in ('Student', 'Group', 'Dept'): M.db.execute('delete from "%s"' % t)
        M.db.execute("insert into Dept(id, name) values (1, 'd1'), (2, 'd2')")
        M.db.execute("insert into \"Group\"(id, title, room, level, dept) values (1, 'old title', 'r1', 1, 1), (2, 'other', 'r2', 2, 2)")
        M.db.execute("insert into Student(id, name, \"group\") values (1, 's1', 1), (2, 's2', 1), (3, 's3', 2)")


KNOWN = {
    'by key only (through a reference)': lambda M: M.Student[1].group,
    'partly (one column fetched by raw SQL)': lambda M: M.Group.get_by_sql('select id, level from "Group" where id = 1'),
    'completely': lambda M: M.Group[1],
}
WRITES = {
    'title': dict(title='new title'), 'room': dict(room='r9'), 'level': dict(level=7), 'dept': dict(dept=2), 'title and room': dict(title='new title', room='r9'),
    'room to empty': dict(room=''), 'dept to None': dict(dept=None),
}
LOADERS = {
    'nothing': lambda M, g: None,
    'set(dept=d2)': lambda M, g: g.set(dept=M.d2),
    'set(level=5, dept=d1)': lambda M, g: g.set(level=5, dept=M.d1),
    'set(room=r5)': lambda M, g: g.set(room='r5'),
    'load()': lambda M, g: g.load(),
    'read another attribute': lambda M, g: (g.level, g.room, g.title),
    'to_dict()': lambda M, g: g.to_dict(),
    'select all groups': lambda M, g: list(M.Group.select()),
    'get by key': lambda M, g: M.Group.get(id=1),
    'collection of the department': lambda M, g: list(M.d1.groups),
    'students.add': lambda M, g: g.students.add(M.s3),
    'len(students)': lambda M, g: len(g.students),
    'another reference to it': lambda M, g: M.s2.group.level,
    'dept.groups.add(g)': lambda M, g: M.d2.groups.add(g),
}
LOADER_WRITES = {'set(dept=d2)': dict(dept=2), 'set(level=5, dept=d1)': dict(level=5, dept=1), 'set(room=r5)': dict(room='r5'), 'dept.groups.add(g)': dict(dept=2)}


def configs(tier):
    return [dict(known=k, write=w, loader=l) for k in KNOWN for w in WRITES for l in LOADERS]


def _row(con):
    return dict(zip(('title', 'room', 'level', 'dept'), con.execute('select title, room, level, dept from "Group" where id = 1').fetchone()))


def case(cfg, values):
    def call():
        M = model(); _data(M); bad = []
        ref = dict(title='old title', room='r1', level=1, dept=1)
        old = dict(ref)
        try:
            with orm.db_session:
                # everything the program needs besides g is in the session beforehand: looking an object up is a query, and a query flushes the pending writes
                M.d1, M.d2, M.s2, M.s3 = M.Dept[1], M.Dept[2], M.Student[2], M.Student[3]
                g = KNOWN[cfg['known']](M)
                for k, v in WRITES[cfg['write']].items():
                    setattr(g, k, {1: M.d1, 2: M.d2}[v] if k == 'dept' and v is not None else v); ref[k] = v
                LOADERS[cfg['loader']](M, g)
                ref.update(LOADER_WRITES.get(cfg['loader'], {}))
                # reads in the session
                got = dict(title=g.title, room=g.room, level=g.level, dept=None if g.dept is None else g.dept.id)
                if got != ref: bad.append(('attribute reads in the session', got, 'written: %r' % ref))
                d = g.to_dict()
                if {k: d[k] for k in ref} != ref: bad.append(('to_dict() in the session', {k: d[k] for k in ref}, 'written: %r' % ref))
                for k in ('title', 'room', 'level'):
                    if ref[k] != old[k]:
                        if M.Group.get(**{'id': 1, k: ref[k]}) is not g: bad.append(('get(id=1, %s=<new value>) does not find the object' % k,))
                        if M.Group.exists(**{'id': 1, k: old[k]}): bad.append(('exists(id=1, %s=<old value>) is true' % k,))
                        if g not in M.Group.select(lambda x: getattr(x, k) == ref[k])[:]: bad.append(('select by the new %s does not return the object' % k,))
                raw = M.db.select('select title, room, level, dept from "Group" where id = 1')[0]
                if dict(zip(('title', 'room', 'level', 'dept'), raw)) != ref: bad.append(('raw SQL in the session', tuple(raw), 'written: %r' % ref))
                got = dict(title=g.title, room=g.room, level=g.level, dept=None if g.dept is None else g.dept.id)
                if got != ref: bad.append(('attribute reads after the queries', got, 'written: %r' % ref))
        except Exception as e:
            bad.append(('raises %s: %s' % (type(e).__name__, str(e)[:100]),))
        finally:
            _reset()
        if not bad:
            row = _row(M.db.provider.pool.con)
            if row != ref: bad.append(('committed row', row, 'written: %r' % ref))
            with orm.db_session:
                g = M.Group[1]
                got = dict(title=g.title, room=g.room, level=g.level, dept=None if g.dept is None else g.dept.id)
                if got != ref: bad.append(('a new session reads', got, 'written: %r' % ref))
                members = sorted(s.id for s in g.students); want = [1, 2, 3] if cfg['loader'] == 'students.add' else [1, 2]
                if members != want: bad.append(('students of the group', members, want))
            _reset()
        return bad[:4]
    return Case(call, {}, [], lambda r: _reset(), lambda r: _reset())


def spec(cfg, i, path):
    return path.outcome == 'ret' and path.value == []


# ------------------------------------------------------------------ objects created in the session (no key yet) as PARAMETERS of queries and lookups
BOUND_NEW = 'a new group with a new student and a loaded student moved into it; 13 ways of asking for "the students of this group" with the new object as a parameter; before anything was flushed'
ASK = {
    'generator ==': lambda M, g: orm.select(s for s in M.Student if s.group == g)[:],
    'generator in list': lambda M, g: orm.select(s for s in M.Student if s.group in [g])[:],
    'generator in tuple with a loaded group': lambda M, g: orm.select(s for s in M.Student if s.group in (g, M.g2) and s.group != M.g2)[:],
    'lambda filter': lambda M, g: M.Student.select().filter(lambda s: s.group == g)[:],
    'Entity.select(lambda)': lambda M, g: M.Student.select(lambda s: s.group == g)[:],
    'select(group=...)': lambda M, g: M.Student.select(group=g)[:],
    'get(name, group)': lambda M, g: [x for x in [M.Student.get(name='new student', group=g)] if x is not None] + [x for x in [M.Student.get(name='s3', group=g)] if x is not None],
    'exists(group=...)': lambda M, g: ['exists'] if M.Student.exists(group=g) else [],
    'count': lambda M, g: ['count %d' % orm.count(s for s in M.Student if s.group == g)],
    'member of its collection': lambda M, g: orm.select(s for s in M.Student if s in g.students)[:],
    'attribute of the new object': lambda M, g: orm.select(s for s in M.Student if s.group.title == g.title)[:],
    'not equal': lambda M, g: orm.select(s for s in M.Student if s.group != g)[:],
    'the new object through a query over groups': lambda M, g: [s for x in orm.select(x for x in M.Group if x == g) for s in x.students],
}


def new_configs(tier):
    return [dict(ask=a, flushed=f) for a in ASK for f in (False, True)]


def new_case(cfg, values):
    def call():
        M = model(); _data(M); bad = []
        try:
            with orm.db_session:
                M.g2 = M.Group[2]; s3 = M.Student[3]; others = [M.Student[1], M.Student[2]]
                g = M.NewGroup(title='brand new')
                s_new = M.Student(id=50, name='new student', group=g); s3.group = g
                if cfg['flushed']: orm.flush()
                got = ASK[cfg['ask']](M, g)
                names = sorted(x if isinstance(x, str) else x.name for x in got)
                if cfg['ask'] == 'exists(group=...)': want = ['exists']
                elif cfg['ask'] == 'count': want = ['count 2']
                elif cfg['ask'] == 'not equal': want = ['s1', 's2']
                else: want = ['new student', 's3']
                if names != want: bad.append(('asked through %s' % cfg['ask'], 'answer: %r' % names, 'the session made: %r' % want))
                orm.rollback()
        except Exception as e:
            bad.append(('raises %s: %s' % (type(e).__name__, str(e)[:100]),))
        finally:
            _reset()
        return bad[:3]
    return Case(call, {}, [], lambda r: _reset(), lambda r: _reset())
