"""C20 Optimistic concurrency control prevents lost updates (DESIGN 4-C20): per-call contracts; interleavings of sessions are outside the technique.

Entity._construct_optimistic_criteria_ and Entity._save_updated_ on a real loaded object of a real model: for EVERY subset of attributes read and written
(in either order) the UPDATE's WHERE clause tests exactly the attributes the session read before writing them (excluding volatile attributes and attributes
excluded from optimistic checks), against the value it read (IS NULL for None); criteria are used iff the session is optimistic and the object is not locked
for update; zero affected rows => OptimisticCheckError; the statement is executed with start_transaction=True."""
import itertools, types
from vf.verify import Contract, Case
from vf.explore import cur, choose
from vf.effects import Patch, note
from pony import orm
from pony.orm import core

from contracts import c20_e2e as E2E

META = dict(
    level='other',
    explanation='BOUNDED stand-in: real functions on a real loaded object; every subset of the model\'s 5 column attributes read / written in both orders, dbval None or a value, '
                'optimistic / non-optimistic session, object locked or not, rowcount 0 / 1',
    trusted_base=['Database._exec_sql replaced by a recording stub returning a cursor with a chosen rowcount', 'the database evaluates the WHERE clause atomically (assumed)'],
    assumptions=['schedules of two or three sessions are NOT covered', 'one entity with int, optimistic=False int, volatile int, float (never optimistic) and nullable attributes'],
)
_M = None
ATTRS = ['a', 'b_noopt', 'vol', 'f', 'nul']


def model():
    global _M
    if _M is None:
        db = orm.Database('sqlite', ':memory:')

        class O(db.Entity):
            a = orm.Optional(int)
            b_noopt = orm.Optional(int, optimistic=False)
            vol = orm.Optional(int, volatile=True)
            f = orm.Optional(float)
            nul = orm.Optional(int)
            w = orm.Optional(int)
        db.generate_mapping(create_tables=True)
        with orm.db_session:
            O(a=1, b_noopt=2, vol=3, f=1.5, nul=None, w=0)
        _M = types.SimpleNamespace(db=db, O=O)
    return _M


def _reset():
    core.local.db2cache.clear(); core.local.db_context_counter = 0; core.local.db_session = None


def _cr_configs(tier):
    out = []
    for reads in itertools.product((False, True), repeat=len(ATTRS)):
        for wfirst in ((), ('a',), ('nul',), ('a', 'f')):
            for wafter in ((), ('a',), ('a', 'nul')):
                out.append(dict(read=tuple(a for a, r in zip(ATTRS, reads) if r), written_first=wfirst, written_after=wafter))
    return out


def _cr_case(cfg, values):
    M = model()

    def setup(run): _reset()
    def teardown(run):
        try: orm.rollback()
        except Exception: pass
        _reset()

    def call():
        core.local.db_context_counter = 1
        o = M.O[1]
        o._rbits_ = 0
        for a in cfg['written_first']: setattr(o, a, 9)
        for a in cfg['read']: getattr(o, a)
        for a in cfg['written_after']: setattr(o, a, 8)        # overwriting AFTER reading: the value that was read is still what must be unchanged
        o.w = 5                                      # something to update
        ops, cols, convs, vals = o._construct_optimistic_criteria_()
        return list(ops), list(cols), list(vals)
    return Case(call, {}, [], setup, teardown)


def _cr_spec(cfg, i, path):
    if path.outcome != 'ret': return False
    ops, cols, vals = path.value
    want = [a for a in ATTRS if a in cfg['read'] and a not in cfg['written_first'] and a not in ('b_noopt', 'vol', 'f')]
    dbv = {'a': 1, 'nul': None}
    got = dict(zip(cols, zip(ops, vals)))
    if sorted(cols) != sorted(want) or len(cols) != len(set(cols)): return False
    for a in want:
        op, v = got[a]
        if dbv[a] is None:
            if op != 'IS_NULL': return False
        elif op != 'EQ' or v != dbv[a]: return False
    return True


class Cursor(object):
    def __init__(self, rc): self.rowcount = rc


def _su_configs(tier):
    return [dict(optimistic=o, for_update=f, read_a=r) for o in (True, False) for f in (False, True) for r in (False, True)]


def _su_case(cfg, values):
    M = model()

    def setup(run):
        _reset()
        run.state['patch'] = Patch()

    def teardown(run):
        run.state['patch'].restore()
        try: orm.rollback()
        except Exception: pass
        _reset()

    def call():
        st = cur().state
        s = core.DBSessionContextManager(optimistic=cfg['optimistic'])
        s._enter()
        o = M.O[1]
        cache = o._session_cache_
        o._rbits_ = 0
        if cfg['read_a']: o.a
        o.w = 7
        if cfg['for_update']: cache.for_update.add(o)
        rec = st['rec'] = []

        def _exec_sql(db, sql, arguments=None, returning_id=False, start_transaction=False):
            rc = choose(2, 'rowcount')
            rec.append((sql, arguments, start_transaction, rc))
            return Cursor(rc)
        st['patch'].set(core.Database, '_exec_sql', _exec_sql)
        st['patch'].set(core.Entity, 'find_updated_attributes', lambda obj: 'object was updated outside of current transaction (message construction stubbed)')
        try:
            o._save_updated_()
            return o._status_
        finally:
            core.local.db_session = None; core.local.db_context_counter = 1
    return Case(call, {}, [], setup, teardown)


def _su_spec(cfg, i, path):
    rec = path.state['rec']
    if len(rec) != 1: return False
    sql, args, start_transaction, rc = rec[0]
    if not start_transaction: return False                                   # writes always run inside the session's transaction (C17)
    use_criteria = cfg['optimistic'] and not cfg['for_update']
    has_a_check = '"a" = ?' in sql.split('WHERE')[1]
    if has_a_check != (use_criteria and cfg['read_a']): return False
    if '"w" = ?' not in sql.split('WHERE')[0] or '"id" = ?' not in sql.split('WHERE')[1]: return False
    if rc == 0 and cfg['optimistic']:
        return path.outcome == 'exc' and isinstance(path.value, core.OptimisticCheckError)
    return path.outcome == 'ret' and path.value == 'updated'


# ------------------------------------------------------------------ after a mid-session commit nothing stays exempt from the optimistic check
def _mc_configs(tier):
    return [dict(how=h, attr_read=r) for h in ('created', 'get_for_update', 'select_for_update', 'plain') for r in (True, False)]


def _mc_case(cfg, values):
    M = model()

    def setup(run): _reset()
    def teardown(run):
        try: orm.rollback()
        except Exception: pass
        _reset()

    def call():
        O = M.O
        try:
            with orm.db_session:
                if cfg['how'] == 'created': o = O(a=1, w=0); orm.flush()
                elif cfg['how'] == 'get_for_update': o = O.get_for_update(id=1)
                elif cfg['how'] == 'select_for_update': o = O.select(lambda x: x.id == 1).for_update()[:][0]
                else: o = O[1]
                if cfg['attr_read']: seen = o.a
                orm.commit()                                             # the transaction (and every lock of it) ends here; the session goes on
                M.db.execute('update O set a = 100 where id = %d' % o.id)    # somebody else's committed change, as the database now holds it
                o.a = 5                                                  # a write based on what this session saw before
                orm.commit()
            outcome = 'written'
        except core.OptimisticCheckError:
            outcome = 'refused'
        finally:
            with orm.db_session:
                M.db.execute('update O set a = 1 where id = 1'); M.db.execute('delete from O where id > 1')
        return outcome
    return Case(call, {}, [], setup, teardown)


def _mc_spec(cfg, i, path):
    if path.outcome != 'ret': return False
    # the value was read (or written at creation) before the foreign change: the stale write must be refused, whatever locked the object earlier
    if cfg['attr_read'] or cfg['how'] == 'created': return path.value == 'refused'
    return path.value in ('written', 'refused')


CONTRACTS = [
    Contract('_construct_optimistic_criteria_', ['pony.orm.core:Entity._construct_optimistic_criteria_', 'pony.orm.core:Attribute.__get__', 'pony.orm.core:Attribute.__set__'],
             _cr_configs, _cr_case, [('criteria_are_exactly_the_attributes_read_before_written', _cr_spec)], level='bounded',
             bound='one entity with 5 column attributes; every subset read, 4 write-before-read and 3 write-after-read variants'),
    Contract('_save_updated_', 'pony.orm.core:Entity._save_updated_', _su_configs, _su_case,
             [('criteria_iff_optimistic_and_not_locked_zero_rows_raises_runs_in_transaction', _su_spec)], level='bounded',
             bound='optimistic x for_update x read x rowcount', allowed_exc=(core.OptimisticCheckError,)),
    Contract('stale_write_after_mid_session_commit', ['pony.orm.core:SessionCache.commit', 'pony.orm.core:Entity._save_updated_', 'pony.orm.core:Entity._construct_optimistic_criteria_'],
             _mc_configs, _mc_case, [('locks_of_a_finished_transaction_do_not_exempt_from_the_check', _mc_spec)], level='bounded',
             bound='object created / locked by get_for_update / select().for_update() / plainly read in the first transaction of a session; one foreign change after the commit'),
    Contract('lost_update_detected', ['pony.orm.core:EntityMeta._set_rbits', 'pony.orm.core:Attribute.__get__', 'pony.orm.core:Entity.to_dict', 'pony.orm.core:Entity._construct_optimistic_criteria_',
                                      'pony.orm.core:Entity._save_updated_', 'pony.orm.core:EntityMeta._find_in_cache_', 'pony.orm.core:EntityMeta._fetch_objects'], E2E.configs, E2E.case,
             [('a_foreign_change_of_a_read_attribute_is_detected_when_the_object_is_written', E2E.spec)], level='bounded', bound=E2E.BOUND),
    Contract('multi_column_attributes_in_the_check', ['pony.orm.core:Entity._construct_optimistic_criteria_', 'pony.orm.core:populate_criteria_list', 'pony.orm.core:Entity._save_updated_',
                                                      'pony.orm.core:Attribute.get_raw_values'], E2E.mc_configs, E2E.mc_case,
             [('conflict_exactly_when_a_column_of_a_read_attribute_was_changed', E2E.mc_spec)], level='bounded', bound=E2E.BOUND_MC),
]


def _share_row_refresh():
    # a row fetched again while a read-modify-write of one of its attributes is pending (flushing disabled: collection loads, hooks) must report the foreign change:
    # replacing the remembered database value silently makes the optimistic check of the later UPDATE pass, and the other transaction's write is lost (contract of C21)
    from contracts import c21
    CONTRACTS.extend(c for c in c21.CONTRACTS if c.id == 'Entity._db_set_')
_share_row_refresh()
