"""Functions and generator objects for contracts/c04_frames.py, written in a module of their own: their global names (G1 = 4 here, 2 in c04_frames) mean what they mean HERE,
whatever the module and the frame that hands them to a query method."""
G1 = 4
__all__ = ['make_global_lambda', 'make_closure_lambda', 'make_global_generator', 'make_closure_generator', 'make_builtin_lambda', 'helper_plus', 'make_global_order', 'make_closure_order',
           'make_builtin_order']
def make_global_lambda(): return lambda x: x.p == G1
def make_closure_lambda(a): return lambda x: x.p == a
def make_global_generator(X): return (x for x in X if x.p == G1)
def make_closure_generator(X, a): return (x for x in X if x.p == a + G1)
def make_builtin_lambda(): return lambda x: x.p == len('abc')
def helper_plus(x): return x.p + G1                          # a function inlined into queries: it reads ITS global
def make_global_order(): return lambda x: (x.p == G1, x.id)
def make_closure_order(a): return lambda x: (x.p == a, x.id)
def make_builtin_order(): return lambda x: (x.p == len('abc'), x.id)

