"""C20 (bounded part): a change committed by somebody else to an attribute the session has READ is detected when the session writes the object - however the attribute was read.

Model with single-table inheritance incl. a diamond (Vehicle <- Boat, Car <- Amphibian(Boat, Car)): the bit that stands for an attribute differs between the classes of one
hierarchy. For every attribute (declared on the root, on one branch, on the other branch, on the diamond class), every object class that has it, and every way of reading it
(attribute access, to_dict, a query condition over the root / over the declaring class / over the other branch, get() by the value, a query projection, order_by): the value is
read, another connection's committed change of that column is simulated (raw UPDATE, as the database would show it afterwards), the session writes ANOTHER attribute and flushes:
it must fail with OptimisticCheckError / UnrepeatableReadError, and the foreign value must still be in the row. A control run without the foreign change must succeed."""
import types
from vf.verify import Case
from pony import orm
from pony.orm import core

BOUND = '4 classes of one diamond hierarchy x 5 attributes x 9 ways of reading x with / without a foreign change'
_M = None


def model():
    global _M
    if _M is None:
        db = orm.Database('sqlite', ':memory:')

        class Vehicle(db.Entity):
            id = orm.PrimaryKey(int)
            label = orm.Optional(str)
            wheels = orm.Optional(int)
            note = orm.Optional(str)                 # the attribute the session writes

        class Boat(Vehicle):
            draft = orm.Optional(int)

        class Car(Vehicle):
            doors = orm.Optional(int)

        class Amphibian(Boat, Car):
            mode = orm.Optional(int)
        db.generate_mapping(create_tables=True)
        _M = types.SimpleNamespace(db=db, Vehicle=Vehicle, Boat=Boat, Car=Car, Amphibian=Amphibian)
    return _M


CLASSES = {'Vehicle': ('label', 'wheels'), 'Boat': ('label', 'wheels', 'draft'), 'Car': ('label', 'wheels', 'doors'), 'Amphibian': ('label', 'wheels', 'draft', 'doors', 'mode')}
DECLARED = {'label': 'Vehicle', 'wheels': 'Vehicle', 'draft': 'Boat', 'doors': 'Car', 'mode': 'Amphibian', 'note': 'Vehicle'}
VALUES = dict(label='L', wheels=4, draft=2, doors=3, mode=1)
FOREIGN = dict(label='other', wheels=6, draft=9, doors=5, mode=7)
WAYS = ('attribute access', 'to_dict', 'condition over the root entity', 'condition over the declaring entity', 'condition over the class of the object', 'get() by the value',
        'query projection', 'condition over another branch', 'attribute access after a query loaded the object')


def configs(tier):
    return [dict(cls=c, attr=a, way=w, foreign=f) for c, attrs in CLASSES.items() for a in attrs for w in WAYS for f in (True, False)]


def _reset():
    try: orm.rollback()
    except Exception: pass
    core.local.db2cache.clear(); core.local.db_context_counter = 0; core.local.db_session = None


def case(cfg, values):
    def call():
        M = model(); cls = getattr(M, cfg['cls']); attr = cfg['attr']; way = cfg['way']
        decl = getattr(M, DECLARED[attr])
        _reset()
        with orm.db_session:
            M.db.execute('delete from Vehicle')
            cls(id=1, note='n', **{a: VALUES[a] for a in CLASSES[cfg['cls']]})
        v = VALUES[attr]
        try:
            with orm.db_session:
                if way == 'attribute access': o = cls[1]; seen = getattr(o, attr)
                elif way == 'to_dict': o = cls[1]; seen = o.to_dict()[attr]
                elif way == 'condition over the root entity':
                    if decl is not M.Vehicle: return 'not applicable'                      # the root entity does not have the attribute: Python would raise on other objects
                    o = orm.select(x for x in M.Vehicle if getattr(x, attr) == v and x.id == 1).first(); seen = v
                elif way == 'condition over the declaring entity': o = orm.select(x for x in decl if getattr(x, attr) == v and x.id == 1).first(); seen = v
                elif way == 'condition over the class of the object': o = orm.select(x for x in cls if getattr(x, attr) == v and x.id == 1).first(); seen = v
                elif way == 'get() by the value': o = cls.get(**{'id': 1, attr: v}); seen = v
                elif way == 'query projection': seen = orm.select(getattr(x, attr) for x in cls if x.id == 1).first(); o = cls[1]
                elif way == 'condition over another branch':
                    # an Amphibian reached through the branch that does NOT declare the attribute is asked about an attribute of the root
                    if cfg['cls'] != 'Amphibian' or decl is not M.Vehicle: return 'not applicable'
                    o = orm.select(x for x in M.Car if getattr(x, attr) == v and x.id == 1).first(); seen = v
                else: list(orm.select(x for x in M.Vehicle)); o = cls[1]; seen = getattr(o, attr)
                if o is None or seen != v: return 'the read itself went wrong: %r %r' % (o, seen)
                if way == 'query projection': return 'not applicable'                       # a projected value is not attached to the object: nothing to protect
                if cfg['foreign']: M.db.execute('update Vehicle set %s = $x where id = 1' % attr, {'x': FOREIGN[attr]})
                o.note = 'written by the session'
                orm.flush()
                outcome = 'flushed'
        except (core.OptimisticCheckError, core.UnrepeatableReadError) as e:
            outcome = 'conflict detected'
        finally:
            _reset()
        return outcome
    return Case(call, {}, [], lambda r: _reset(), lambda r: _reset())


def spec(cfg, i, path):
    if path.outcome != 'ret': return False
    if path.value == 'not applicable': return None
    return path.value == ('conflict detected' if cfg['foreign'] else 'flushed')


# ------------------------------------------------------------------ attributes that occupy several columns (references to composite keys)
BOUND_MC = 'one entity with 5 readable attributes, two of them references to 2- and 3-column keys; every subset of them read (32) x 8 columns changed by somebody else (or none) x values present / missing'
_MC = None


def model_mc():
    global _MC
    if _MC is None:
        db = orm.Database('sqlite', ':memory:')

        class Account(db.Entity):
            bank = orm.Required(str)
            number = orm.Required(int)
            orm.PrimaryKey(bank, number)
            wallets = orm.Set('Wallet')

        class Region(db.Entity):
            a = orm.Required(int)
            b = orm.Required(int)
            c = orm.Required(int)
            orm.PrimaryKey(a, b, c)
            wallets = orm.Set('Wallet')

        class Wallet(db.Entity):
            id = orm.PrimaryKey(int)
            first = orm.Optional(int)
            account = orm.Optional(Account)
            mid = orm.Optional(str, nullable=True)
            region = orm.Optional(Region)
            balance = orm.Optional(int)
            note = orm.Optional(str)                 # the attribute the session writes
        db.generate_mapping(create_tables=True)
        with orm.db_session:
            for bank in ('x', 'y'):
                for number in (1, 2): Account(bank=bank, number=number)
            for a in (1, 2):
                for b in (1, 2):
                    for c in (1, 2): Region(a=a, b=b, c=c)
        _MC = types.SimpleNamespace(db=db, Account=Account, Region=Region, Wallet=Wallet)
    return _MC


MC_ATTRS = ('first', 'account', 'mid', 'region', 'balance')
MC_COLUMNS = {'first': 'first', 'account_bank': 'account', 'account_number': 'account', 'mid': 'mid', 'region_a': 'region', 'region_b': 'region', 'region_c': 'region', 'balance': 'balance'}
MC_FOREIGN = {'first': 9, 'account_bank': 'y', 'account_number': 2, 'mid': 'other', 'region_a': 2, 'region_b': 2, 'region_c': 2, 'balance': 0}


def mc_configs(tier):
    import itertools
    subsets = [s for k in range(6) for s in itertools.combinations(MC_ATTRS, k)]
    return [dict(read='+'.join(s) or '-', changed=ch, missing=m, op=op) for s in subsets for ch in ('nothing',) + tuple(MC_COLUMNS) for m in (False, True) for op in ('update',)]          # (a DELETE carries no optimistic criteria in pony, and the property speaks of updates)


def mc_case(cfg, values):
    def call():
        M = model_mc(); W = M.Wallet
        read = [] if cfg['read'] == '-' else cfg['read'].split('+')
        _reset()
        with orm.db_session:
            M.db.execute('delete from Wallet')
            if cfg['missing']: M.db.execute("insert into Wallet(id, note) values (1, 'n')")
            else: M.db.execute("insert into Wallet(id, first, account_bank, account_number, mid, region_a, region_b, region_c, balance, note) values (1, 1, 'x', 1, 'm', 1, 1, 1, 100, 'n')")
        ch = cfg['changed']
        try:
            with orm.db_session:
                o = W[1]
                for a in read: getattr(o, a)
                if ch != 'nothing':
                    if cfg['missing'] and MC_COLUMNS[ch] in ('account', 'region'):          # a missing reference becomes a complete one (all its columns)
                        cols = [c for c, a in MC_COLUMNS.items() if a == MC_COLUMNS[ch]]
                        M.db.execute('update Wallet set %s where id = 1' % ', '.join('%s = %r' % (c, MC_FOREIGN[c]) for c in cols))
                    else: M.db.execute('update Wallet set %s = %r where id = 1' % (ch, MC_FOREIGN[ch]))
                if cfg['op'] == 'update': o.note = 'written by the session'
                else: o.delete()
                orm.flush()
                outcome = 'flushed'
        except (core.OptimisticCheckError, core.UnrepeatableReadError):
            outcome = 'conflict detected'
        finally:
            _reset()
        return outcome
    return Case(call, {}, [], lambda r: _reset(), lambda r: _reset())


def mc_spec(cfg, i, path):
    """a foreign change of any column of an attribute the session has read is a conflict; of an attribute it has not read, it is not"""
    if path.outcome != 'ret': return False
    read = [] if cfg['read'] == '-' else cfg['read'].split('+')
    conflict = cfg['changed'] != 'nothing' and MC_COLUMNS[cfg['changed']] in read
    return path.value == ('conflict detected' if conflict else 'flushed')
