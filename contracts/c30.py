"""C30 Raw SQL parameter substitution is faithful (DESIGN 4-C30). Cache clause (proof, shared with C05) + layout (BOUNDED)."""
import itertools, re
from vf.verify import Contract, Case
from vf.explore import cur
from vf.proxy import SymStr, char_in_sym
import z3
NO_DOLLAR = [z3.Not(char_in_sym('sql', '$'))]      # precondition of the symbolic contracts: the statement text contains no '$'
from vf.effects import Patch
from pony.orm import core, ormtypes
from contracts import c30_e2e as E2E

META = dict(
    level='proof',
    explanation='cache clause: adapt_sql / parse_raw_sql run on a SYMBOLIC statement text (any string without "$"; it may contain % and anything else) with '
                'the module cache replaced by a recording dict: the key stored equals the key looked up, exactly one key is written, a hit returns the '
                'stored value untouched — hence warm == cold for every statement. Layout of $-expressions is checked on assembled statements (bounded).',
    trusted_base=['RecordingDict stands for the module-level dict (get / __setitem__ recorded)',
                  'symbolic text: "$" absent (fork on str.index raising ValueError); texts containing "$" are covered by the bounded layout contract'],
    assumptions=['layout: statements assembled from <= 3 (quick) / 4 (thorough) segments out of 9 segment kinds, all five paramstyles (BOUNDED)',
                 'evaluation of $expr in the caller\'s frame and raw_sql() fragments inside queries: only the BOUNDED end-to-end family (c30_e2e)'],
)
STYLES = ['qmark', 'format', 'numeric', 'named', 'pyformat']


class RecordingDict(dict):
    def __init__(self, hit=None):
        dict.__init__(self); self.gets = []; self.sets = []; self.hit = hit
    def get(self, k, d=None):
        self.gets.append(k)
        return self.hit if self.hit is not None else d
    def __setitem__(self, k, v):
        self.sets.append((k, v))


def _same_text(a, b):
    if isinstance(a, SymStr) and isinstance(b, SymStr): return a.pieces == b.pieces
    return type(a) is type(b) and a == b


# ------------------------------------------------------------------ adapt_sql: cache clause
def _ad_case(cfg, values):
    sql = SymStr.sym('sql') if values is None else values.get('sql', "select 'a%b'")

    def setup(run):
        p = Patch(); run.state['patch'] = p
        rd = RecordingDict('CACHED' if cfg['hit'] else None); run.state['rd'] = rd
        p.set(core, 'adapted_sql_cache', rd)

    def teardown(run): run.state['patch'].restore()
    return Case(lambda: core.adapt_sql(sql, cfg['style']), {}, NO_DOLLAR, setup, teardown)


def _ad_key(cfg, i, path):
    rd = path.state['rd']
    if len(rd.gets) != 1: return False
    gk = rd.gets[0]
    if cfg['hit']:
        return path.outcome == 'ret' and path.value == 'CACHED' and rd.sets == []
    if path.outcome != 'ret': return None
    if len(rd.sets) != 1: return False
    sk, sv = rd.sets[0]
    return (isinstance(gk, tuple) and isinstance(sk, tuple) and len(gk) == len(sk) == 2 and _same_text(gk[0], sk[0])
            and gk[1] == sk[1] == cfg['style'] and sv is path.value)


def _ad_result_dollar_free(cfg, i, path):
    """no $-expression: the statement is passed through unchanged (the driver is called without arguments, so no %-pass happens)"""
    if cfg['hit'] or path.outcome != 'ret': return None
    adapted, code = path.value
    inp = path.state['rd'].gets[0][0]
    return _same_text(adapted, inp) and eval(code) is None


def _ad_replay(cfg, values, doc):
    """native witness: a statement containing % under a format-like style"""
    rd = RecordingDict()
    real = core.adapted_sql_cache
    core.adapted_sql_cache = rd
    try:
        out = []
        for sql in ("select 'a%b'", "select 1", "x % y"):
            rd.gets[:] = []; rd.sets[:] = []
            core.adapt_sql(sql, cfg['style'])
            if rd.sets and rd.gets[0] != rd.sets[0][0]:
                out.append((sql, rd.gets[0], rd.sets[0][0]))
    finally:
        core.adapted_sql_cache = real
    # and the observable consequence on the real module cache
    core.adapted_sql_cache.clear()
    cold = core.adapt_sql("select 'a%%b'", cfg['style'])[0]
    core.adapted_sql_cache.clear()
    core.adapt_sql("select 'a%b'", cfg['style'])
    warm = core.adapt_sql("select 'a%%b'", cfg['style'])[0]
    core.adapted_sql_cache.clear()
    return {'reproduced': bool(out) or cold != warm, 'keys_differ': out[:2], 'cold': cold, 'warm_after_other_statement': warm}


# ------------------------------------------------------------------ parse_raw_sql: cache clause
def _pr_case(cfg, values):
    sql = SymStr.sym('sql') if values is None else values.get('sql', 'a%b')

    def setup(run):
        p = Patch(); run.state['patch'] = p
        rd = RecordingDict(('CACHED',) if cfg['hit'] else None); run.state['rd'] = rd
        p.set(ormtypes, 'raw_sql_cache', rd)

    def teardown(run): run.state['patch'].restore()
    return Case(lambda: ormtypes.parse_raw_sql(sql), {}, NO_DOLLAR, setup, teardown)


def _pr_key(cfg, i, path):
    rd = path.state['rd']
    if len(rd.gets) != 1: return False
    if cfg['hit']: return path.outcome == 'ret' and path.value == ('CACHED',) and rd.sets == []
    if path.outcome != 'ret': return None
    if len(rd.sets) != 1: return False
    sk, sv = rd.sets[0]
    items, codes = path.value
    return _same_text(rd.gets[0], sk) and sv is path.value and len(items) == 1 and _same_text(items[0], sk) and codes == ()


# ------------------------------------------------------------------ layout (bounded): assembled statements
SEGMENTS = {
    'text': ("select x from t where a ", None),
    'pct': (" like 'a%b' ", None),
    'quote': (" 'it''s' ", None),
    'dollar': ("$$", None),
    'name': ("$x", "x"),
    'attr': ("$obj.val", "obj.val"),
    'call': ("$f(x, 1)", "f(x, 1)"),
    'sub': ("$d['k']", "d['k']"),
    'semi': ("$x;", "x"),
}
NS = dict(x='X', obj=type('O', (), {'val': 'OV'})(), f=lambda a, b: ('F', a, b), d={'k': 'DK'})


def _lay_configs(tier):
    K = 3 if tier == 'quick' else 4
    out = []
    for style in STYLES:
        for k in range(1, K + 1):
            for segs in itertools.product(SEGMENTS, repeat=k):
                out.append(dict(style=style, segs=segs))
    return out


def _lay_case(cfg, values):
    def setup(run): core.adapted_sql_cache.clear()
    def teardown(run): core.adapted_sql_cache.clear()
    sql = ' '.join(SEGMENTS[s][0] for s in cfg['segs'])
    return Case(lambda: core.adapt_sql(sql, cfg['style']), {}, [], setup, teardown)


def _lay_spec(cfg, i, path):
    if path.outcome != 'ret': return False
    adapted, code = path.value
    style = cfg['style']
    exprs = [SEGMENTS[s][1] for s in cfg['segs'] if SEGMENTS[s][1] is not None]
    parts = []
    n = 0
    for s in cfg['segs']:
        text, expr = SEGMENTS[s]
        if expr is None:
            t = '$' if s == 'dollar' else text
            if exprs and style in ('format', 'pyformat'): t = t.replace('%', '%%')    # the driver %-formats only when arguments are passed
            parts.append(t)
        else:
            n += 1
            parts.append({'qmark': '?', 'format': '%s', 'numeric': ':%d' % n, 'named': ':p%d' % n, 'pyformat': '%%(p%d)s' % n}[style])
    want_sql = ' '.join(parts)
    if adapted != want_sql: return False
    got = eval(code, dict(NS))
    want_vals = [eval(e, dict(NS)) for e in exprs]
    if not exprs: return got is None
    if style in ('qmark', 'format', 'numeric'): return got == tuple(want_vals)
    return got == {'p%d' % (j + 1): v for j, v in enumerate(want_vals)}


def _hist_case(cfg, values):
    """order independence (bounded): adapting B after A gives what adapting B alone gives"""
    def setup(run): core.adapted_sql_cache.clear()
    def teardown(run): core.adapted_sql_cache.clear()
    a = ' '.join(SEGMENTS[s][0] for s in cfg['first']); b = ' '.join(SEGMENTS[s][0] for s in cfg['second'])

    def call():
        cold = core.adapt_sql(b, cfg['style'])[0]
        core.adapted_sql_cache.clear()
        core.adapt_sql(a, cfg['style']); core.adapt_sql(a.replace('%', '%%'), cfg['style'])
        warm = core.adapt_sql(b, cfg['style'])[0]
        return cold, warm
    return Case(call, {}, [], setup, teardown)


def _hist_configs(tier):
    segs = ['text', 'pct', 'dollar', 'name']
    pairs = [((x,), (y,)) for x in segs for y in segs] + [(('pct',), ('pct', 'pct')), (('pct', 'name'), ('pct',))]
    return [dict(style=s, first=a, second=b) for s in STYLES for a, b in pairs]


CONTRACTS = [
    Contract('adapt_sql.cache', 'pony.orm.core:adapt_sql', [dict(style=s, hit=h) for s in STYLES for h in (False, True)], _ad_case,
             [('stored_under_the_key_it_is_looked_up_by', _ad_key), ('dollar_free_statement_passes_through', _ad_result_dollar_free)],
             allowed_exc=(), replay=_ad_replay, doc='for every $-free statement text (symbolic) and every paramstyle'),
    Contract('parse_raw_sql.cache', 'pony.orm.ormtypes:parse_raw_sql', [dict(hit=h) for h in (False, True)], _pr_case,
             [('stored_under_the_key_it_is_looked_up_by', _pr_key)], allowed_exc=(TypeError,), replay=False),
    Contract('adapt_sql.layout', ['pony.orm.core:adapt_sql', 'pony.utils.utils:parse_expr'], _lay_configs, _lay_case,
             [('text_placeholders_and_arguments_in_order', _lay_spec)], level='bounded',
             bound='statements of <= 3 (quick) / 4 (thorough) segments from 9 kinds (text, text with %, quoted text, $$, $name, $obj.attr, $f(..), $d[..], $name;) x 5 paramstyles'),
    Contract('adapt_sql.order_independence', 'pony.orm.core:adapt_sql', _hist_configs, _hist_case,
             [('warm_equals_cold', lambda cfg, i, path: path.outcome == 'ret' and path.value[0] == path.value[1])], level='bounded',
             bound='pairs of small statements; the unbounded statement is the cache-key contract above'),
    Contract('raw_sql.end_to_end', ['pony.orm.core:Database._exec_raw_sql', 'pony.orm.core:adapt_sql', 'pony.orm.ormtypes:raw_sql', 'pony.orm.ormtypes:parse_raw_sql', 'pony.orm.ormtypes:RawSQLType',
                                    'pony.orm.sqltranslation:RawSQLMonad', 'pony.orm.core:EntityMeta._find_by_sql_'], E2E.configs, E2E.case,
             [('expected_answer_and_independent_of_the_statement_run_before', E2E.spec)], level='bounded', bound=E2E.BOUND),
]
