"""C01 Declarative queries return what Python evaluation returns (DESIGN 4-C01) — PARTIAL: the truth-test and negation mechanisms.

Real monads of a real translator (in-memory SQLite model, provider.dialect overridden per configuration). The SQL a monad produces is evaluated with SQL
three-valued logic over a symbolic row (every column is a pair (is_null, value)); WHERE keeps a row iff the condition is TRUE.
  * truth test of a numeric / bool / string / object expression x:     row kept  <=>  x is not None and bool(x)
  * `not x`:                                                            row kept  <=>  x is None or not bool(x)      (missing values are falsy)
  * negation of a comparison / IS NULL / BETWEEN / IN:                  3VL NOT of the original condition             (missing values follow 3VL)
String slicing / indexing (C25), LIKE patterns (C06) and limit / offset (C24) are the other mechanisms named by the property; they are checked there."""
import itertools, z3
from vf.verify import Contract, Case
from vf.inputs import Inputs, term
from vf.explore import cur
from vf import logic as L
from contracts import harness as H
from pony.orm import sqltranslation as st

META = dict(
    level='proof',
    explanation='truth tests and negations of real monads proved equivalent to Python truthiness / SQL 3VL for every row value incl. NULL, for SQLite, PostgreSQL, MySQL and Oracle code paths',
    trusted_base=['SQL three-valued logic evaluator (sqleval of this file): AND / OR / NOT / comparisons / COALESCE / IS NULL / BETWEEN / IN; WHERE keeps a row iff TRUE',
                  'a string value is represented by its length (only comparisons with the empty string occur); on Oracle the empty string is NULL',
                  'monad.nullable is accurate: a non-nullable expression is never NULL (precondition)'],
    assumptions=['monad dispatch, joins, subqueries, aggregates, row decoding and hybrid methods are covered only by the BOUNDED family of whole queries compared with Python evaluation '
                 '(contracts/c01_queries.py); the translator as a whole is out of reach of per-function contracts'],
)
DIALECTS = ['SQLite', 'PostgreSQL', 'MySQL', 'Oracle']
T, F, N = 'T', 'F', 'N'


# ------------------------------------------------------------------ a small 3VL evaluator over (is_null, value) pairs
def ev(ast, env):
    """-> (is_null, value). Booleans: value is a Bool/py bool. Numbers and strings(=length): Int/py int."""
    op = ast[0]
    if op == 'VALUE':
        v = ast[1]
        if v is None: return True, 0
        if v == '': return env.get('__empty_is_null__', False), 0          # the empty string literal (NULL on Oracle)
        if isinstance(v, bool): return False, v
        return False, term(v)
    if op == 'COLUMN': return env[tuple(ast)]
    if op == 'PARAM': return env[('PARAM', ast[1])]
    if op == 'COALESCE':
        n1, v1 = ev(ast[1], env); n2, v2 = ev(ast[2], env)
        return L.And(n1, n2), L.ite(n1, v2, v1)
    if op in ('EQ', 'NE', 'LT', 'LE', 'GT', 'GE'):
        n1, v1 = ev(ast[1], env); n2, v2 = ev(ast[2], env)
        f = {'EQ': lambda a, b: L.Eq(a, b), 'NE': lambda a, b: L.Not(L.Eq(a, b)), 'LT': lambda a, b: a < b, 'LE': lambda a, b: a <= b,
             'GT': lambda a, b: a > b, 'GE': lambda a, b: a >= b}[op]
        return L.Or(n1, n2), f(v1, v2)
    if op == 'NOT':
        n, v = ev(ast[1], env); return n, L.Not(v)
    if op == 'NEG':
        n, v = ev(ast[1], env); return n, -v
    if op in ('ADD', 'SUB'):
        n1, v1 = ev(ast[1], env); n2, v2 = ev(ast[2], env)
        return L.Or(n1, n2), (v1 + v2 if op == 'ADD' else v1 - v2)
    if op == 'IS_NULL':
        n, v = ev(ast[1], env); return False, n
    if op == 'IS_NOT_NULL':
        n, v = ev(ast[1], env); return False, L.Not(n)
    if op in ('AND', 'OR'):
        parts = [ev(a, env) for a in ast[1:]]
        if op == 'AND':
            anyfalse = L.Or(*[L.And(L.Not(n), L.Not(v)) for n, v in parts]); anynull = L.Or(*[n for n, v in parts])
            return L.And(L.Not(anyfalse), anynull), L.Not(anyfalse)
        anytrue = L.Or(*[L.And(L.Not(n), v) for n, v in parts]); anynull = L.Or(*[n for n, v in parts])
        return L.And(L.Not(anytrue), anynull), anytrue
    if op in ('BETWEEN', 'NOT_BETWEEN'):
        r = ev(['AND', ['GE', ast[1], ast[2]], ['LE', ast[1], ast[3]]], env)
        return r if op == 'BETWEEN' else (r[0], L.Not(r[1]))
    if op in ('IN', 'NOT_IN'):
        r = ev(['OR'] + [['EQ', ast[1], x] for x in ast[2]] + [['EQ', ['VALUE', 0], ['VALUE', 1]]], env)
        return r if op == 'IN' else (r[0], L.Not(r[1]))
    raise NotImplementedError(op)


def keeps(ast, env):
    n, v = ev(ast, env)
    if not isinstance(v, z3.ExprRef) and not isinstance(v, bool):
        raise TypeError('a WHERE condition must be boolean, got a number')        # same sort discipline as the symbolic evaluation
    if isinstance(v, z3.ExprRef) and not z3.is_bool(v):
        raise TypeError('a WHERE condition must be boolean')
    return L.And(L.Not(n), v)


def typed(clause):
    """SQL that cannot be evaluated under the typed semantics (ill-sorted operands, missing operands, unknown operator) is not a correct translation"""
    def wrapped(cfg, i, path):
        try:
            return clause(cfg, i, path)
        except (z3.Z3Exception, IndexError, TypeError, NotImplementedError, KeyError, ValueError):
            return False
    return wrapped


def _env(I, M, dialect):
    """symbolic row of the harness entity P: every column (is_null, value)"""
    env = {}
    if dialect == 'Oracle': env['__empty_is_null__'] = True
    pre = []
    for col, kind, nullable in (('i', 'int', False), ('j', 'int', False), ('oi', 'int', True), ('flag', 'bool', False), ('oflag', 'bool', True),
                                ('name', 'str', False), ('opt', 'str', True), ('id', 'int', False)):
        n = I.ghost_bool(col + '_null'); v = I.ghost_int(col)
        if kind == 'bool': pre.append(L.Or(L.Eq(v, 0), L.Eq(v, 1)))
        if kind == 'str':
            pre.append(v >= 0)                                        # the length of the string
            if dialect == 'Oracle': pre.append(L.Or(n, v > 0))       # '' IS NULL on Oracle: a stored string is never empty-and-not-null
        if not nullable: pre.append(L.Not(n))
        val = v
        if kind == 'bool': val = L.Not(L.Eq(v, 0)) if dialect == 'PostgreSQL' else v      # PostgreSQL has a real boolean type; elsewhere 0 / 1
        env[('COLUMN', 'p', col)] = (n, val)
    return env, pre


EXPRS = {
    # name -> (builder of the monad from the translator namespace, python-level (is_none, truth) of the expression over the row)
    'int_attr_nullable': (lambda p: p.getattr('oi'), 'oi', 'int'),
    'int_attr_required': (lambda p: p.getattr('i'), 'i', 'int'),
    'bool_attr_nullable': (lambda p: p.getattr('oflag'), 'oflag', 'bool'),
    'bool_attr_required': (lambda p: p.getattr('flag'), 'flag', 'bool'),
    'int_expr_nullable': (lambda p: p.getattr('oi') + p.getattr('i'), None, 'sum'),
    'int_expr_negated': (lambda p: -p.getattr('oi'), None, 'neg'),
    'bool_expr_nullable': (lambda p: st.NumericExprMonad(bool, ['COLUMN', 'p', 'oflag'], nullable=True), 'oflag', 'bool'),
    'str_attr_nullable': (lambda p: p.getattr('opt'), 'opt', 'str'),
    'str_attr_required': (lambda p: p.getattr('name'), 'name', 'str'),
    'object': (lambda p: p, 'id', 'obj'),
}


def _py(exprname, i, dialect):
    """(is_none, truthy) of the Python value of the expression for the symbolic row"""
    b, col, kind = EXPRS[exprname]
    g = lambda c: (i[c + '_null'], i[c])
    if kind == 'sum':
        (n1, v1), (n2, v2) = g('oi'), g('i')
        return L.Or(n1, n2), L.Not(L.Eq(v1 + v2, 0))
    if kind == 'neg':
        n1, v1 = g('oi'); return n1, L.Not(L.Eq(v1, 0))
    n, v = g(col)
    if kind == 'obj': return False, True                  # the query variable itself is never None, and entity instances are truthy
    if kind == 'str': return n, v > 0
    return n, L.Not(L.Eq(v, 0))


def _tt_configs(tier):
    return [dict(dialect=d, expr=e, test=t) for d in DIALECTS for e in EXPRS for t in ('nonzero', 'negate')]


def _tt_case(cfg, values):
    I = Inputs(values)
    M = H.model()
    env, pre = _env(I, M, cfg['dialect'])
    for c in pre: I.require(c)

    def setup(run): H.push_translator(M, cfg['dialect'])
    def teardown(run): H.pop_translator(M)

    def call():
        p = M.tr.namespace['p']
        monad = EXPRS[cfg['expr']][0](p)
        if not hasattr(monad, 'aggregated'): monad.aggregated = False       # set by SQLTranslator.dispatch after every post-method
        r = getattr(monad, cfg['test'])()
        sql = r.getsql()
        cur().state['env'] = env
        return sql
    inputs = dict(I.terms)
    return Case(call, inputs, I.pre, setup, teardown)


def _tt_spec(cfg, i, path):
    if path.outcome != 'ret': return False
    sql = path.value
    if len(sql) != 1: return False
    env = path.state['env']
    kept = keeps(sql[0], env)
    is_none, truthy = _py(cfg['expr'], i, cfg['dialect'])
    py = L.And(L.Not(is_none), truthy)
    return L.Iff(kept, py if cfg['test'] == 'nonzero' else L.Not(py))


# ------------------------------------------------------------------ negation of comparisons: 3VL NOT
CMP_OPS = ['<', '<=', '>', '>=', '==', '!=', 'is', 'is not']


def _cmp_configs(tier):
    return [dict(dialect=d, op=o) for d in ('SQLite', 'PostgreSQL') for o in CMP_OPS]


def _cmp_case(cfg, values):
    I = Inputs(values)
    M = H.model()
    env, pre = _env(I, M, cfg['dialect'])
    for c in pre: I.require(c)

    def setup(run): H.push_translator(M, cfg['dialect'])
    def teardown(run): H.pop_translator(M)

    def call():
        p = M.tr.namespace['p']
        left = p.getattr('oi')
        right = st.NoneMonad() if cfg['op'] in ('is', 'is not') else p.getattr('i')
        m = st.CmpMonad(cfg['op'], left, right)
        neg = m.negate()
        cur().state['env'] = env
        return m.getsql()[0], neg.getsql()[0], type(neg).__name__, neg.negate().getsql()[0]
    return Case(call, dict(I.terms), I.pre, setup, teardown)


def _cmp_spec(cfg, i, path):
    if path.outcome != 'ret': return False
    orig, neg, kind, back = path.value
    env = path.state['env']
    (n0, v0), (n1, v1) = ev(orig, env), ev(neg, env)
    # SQL three-valued NOT: unknown stays unknown, true <-> false; and negating twice gives the original condition back
    return L.And(L.Iff(n0, n1), L.Implies(L.Not(n0), L.Iff(v1, L.Not(v0))), back == orig)


def _neg_configs(tier):
    return [dict(op=o) for o in ('IS_NULL', 'IS_NOT_NULL', 'BETWEEN', 'NOT_BETWEEN', 'IN', 'NOT_IN', 'LIKE', 'NOT_LIKE', 'EXISTS', 'NOT_EXISTS', 'EQ', 'AND', 'NOT')]


def _neg_case(cfg, values):
    I = Inputs(values)
    M = H.model()
    env, pre = _env(I, M, 'SQLite')
    for c in pre: I.require(c)

    def setup(run): H.push_translator(M, 'SQLite')
    def teardown(run): H.pop_translator(M)
    col = ['COLUMN', 'p', 'oi']; c2 = ['COLUMN', 'p', 'i']; c3 = ['COLUMN', 'p', 'j']
    sqls = {'IS_NULL': ['IS_NULL', col], 'IS_NOT_NULL': ['IS_NOT_NULL', col], 'BETWEEN': ['BETWEEN', col, c2, c3], 'NOT_BETWEEN': ['NOT_BETWEEN', col, c2, c3],
            'IN': ['IN', col, [c2, c3]], 'NOT_IN': ['NOT_IN', col, [c2, c3]], 'LIKE': ['LIKE', col, ['VALUE', 'x%']], 'NOT_LIKE': ['NOT_LIKE', col, ['VALUE', 'x%']],
            'EXISTS': ['EXISTS', ['FROM'], ['WHERE']], 'NOT_EXISTS': ['NOT_EXISTS', ['FROM'], ['WHERE']], 'EQ': ['EQ', col, c2], 'AND': ['AND', ['EQ', col, c2], ['LT', col, c3]],
            'NOT': ['NOT', ['EQ', col, c2]]}

    def call():
        m = st.BoolExprMonad(sqls[cfg['op']], nullable=True)
        neg = m.negate()
        cur().state['env'] = env
        return sqls[cfg['op']], neg.getsql()[0]
    return Case(call, dict(I.terms), I.pre, setup, teardown)


def _neg_spec(cfg, i, path):
    if path.outcome != 'ret': return False
    orig, neg = path.value
    if cfg['op'] in ('LIKE', 'NOT_LIKE', 'EXISTS', 'NOT_EXISTS'):
        # not evaluable here: the negation must be the complementary operator on the very same operands (or an explicit NOT)
        comp = {'LIKE': 'NOT_LIKE', 'NOT_LIKE': 'LIKE', 'EXISTS': 'NOT_EXISTS', 'NOT_EXISTS': 'EXISTS'}[cfg['op']]
        return neg == [comp] + orig[1:] or neg == ['NOT', orig]
    env = path.state['env']
    (n0, v0), (n1, v1) = ev(orig, env), ev(neg, env)
    return L.And(L.Iff(n0, n1), L.Implies(L.Not(n0), L.Iff(v1, L.Not(v0))))


# ------------------------------------------------------------------ tuple comparisons: lexicographic, as in Python
def _tc_configs(tier):
    return [dict(op=o, size=n, row_value_syntax=r) for o in ('<', '<=', '>', '>=', '==', '!=') for n in (2, 3) for r in (False, True)]


def _tc_case(cfg, values):
    I = Inputs(values)
    M = H.model()
    env, pre = _env(I, M, 'SQLite')
    for c in pre: I.require(c)
    consts = [I.int('c%d' % k) for k in range(cfg['size'])]

    def setup(run):
        H.push_translator(M, 'SQLite')
        M.tr.row_value_syntax = cfg['row_value_syntax']

    def teardown(run): H.pop_translator(M)

    def call():
        p = M.tr.namespace['p']
        left = st.ListMonad([p.getattr(a) for a in ('i', 'j', 'id')[:cfg['size']]])
        right = st.ListMonad([st.ConstMonad.new(c) for c in consts])
        m = st.CmpMonad(cfg['op'], left, right)
        cur().state['env'] = env
        return m.getsql()[0]
    return Case(call, dict(I.terms), I.pre, setup, teardown)


def _lex(op, xs, ys):
    """Python's comparison of two equally long tuples of integers"""
    if op == '==': return L.And(*[L.Eq(a, b) for a, b in zip(xs, ys)])
    if op == '!=': return L.Not(_lex('==', xs, ys))
    strict = {'<': lambda a, b: a < b, '<=': lambda a, b: a < b, '>': lambda a, b: a > b, '>=': lambda a, b: a > b}[op]
    last = {'<': lambda a, b: a < b, '<=': lambda a, b: a <= b, '>': lambda a, b: a > b, '>=': lambda a, b: a >= b}[op]
    if len(xs) == 1: return last(xs[0], ys[0])
    return L.Or(strict(xs[0], ys[0]), L.And(L.Eq(xs[0], ys[0]), _lex(op, xs[1:], ys[1:])))


def _tc_spec(cfg, i, path):
    if path.outcome != 'ret': return False
    sql = path.value; env = path.state['env']
    xs = [i[a] for a in ('i', 'j', 'id')[:cfg['size']]]; ys = [i['c%d' % k] for k in range(cfg['size'])]
    want = _lex(cfg['op'], xs, ys)
    if sql[0] in ('LT', 'LE', 'GT', 'GE') and sql[1][0] == 'ROW':
        # SQL row-value comparison is lexicographic by the standard: the operands must be the two tuples, in order, under the same operator
        op = {'LT': '<', 'LE': '<=', 'GT': '>', 'GE': '>='}[sql[0]]
        a = [ev(x, env)[1] for x in sql[1][1:]]; b = [ev(x, env)[1] for x in sql[2][1:]]
        return L.And(op == cfg['op'], len(a) == cfg['size'], L.Iff(_lex(op, a, b), want))
    return L.Iff(keeps(sql, env), want)


# ------------------------------------------------------------------ whole queries against Python evaluation of the same expression (bounded, real SQLite)
from contracts import c01_queries as Q
from contracts import c01_dates as D
from contracts import c01_compkeys as CK
from contracts import c01_decimals as DC

CONTRACTS = [
    Contract('truth_test_and_not', ['pony.orm.sqltranslation:NumericMixin.nonzero', 'pony.orm.sqltranslation:NumericMixin.negate', 'pony.orm.sqltranslation:StringMixin.nonzero',
                                    'pony.orm.sqltranslation:StringMixin.negate', 'pony.orm.sqltranslation:ObjectMixin.nonzero', 'pony.orm.sqltranslation:ObjectMixin.negate',
                                    'pony.orm.sqltranslation:CmpMonad.getsql'], _tt_configs, _tt_case,
             [('where_keeps_row_iff_python_truth', typed(_tt_spec))],
             doc='x / not x for nullable and required int, bool, str attributes, arithmetic expressions and the object itself, on four dialects'),
    Contract('CmpMonad.negate', ['pony.orm.sqltranslation:CmpMonad.negate', 'pony.orm.sqltranslation:CmpMonad.getsql'], _cmp_configs, _cmp_case,
             [('negated_comparison_is_3VL_not_and_involutive', typed(_cmp_spec))]),
    Contract('BoolExprMonad.negate', ['pony.orm.sqltranslation:BoolExprMonad.negate', 'pony.orm.sqltranslation:NotMonad.negate', 'pony.orm.sqltranslation:NotMonad.getsql'],
             _neg_configs, _neg_case, [('negated_condition_is_3VL_not', typed(_neg_spec))]),
    Contract('CmpMonad.tuples', 'pony.orm.sqltranslation:CmpMonad.getsql', _tc_configs, _tc_case, [('tuple_comparison_is_lexicographic', typed(_tc_spec))]),
    Contract('queries_vs_python', ['pony.orm.sqltranslation:SQLTranslator.construct_sql_ast', 'pony.orm.sqltranslation:SQLTranslator.__init__', 'pony.orm.core:Query._actual_fetch',
                                   'pony.orm.sqltranslation:AttrSetMonad', 'pony.orm.sqltranslation:QuerySetMonad', 'pony.orm.sqltranslation:CmpMonad.getsql'],
             Q.configs, Q.case, [('query_result_equals_python_evaluation', Q.spec)], level='bounded', bound=Q.BOUND),
    Contract('date_operations_vs_python', ['pony.orm.sqltranslation:DateMixin', 'pony.orm.sqltranslation:DatetimeMixin', 'pony.orm.sqltranslation:TimedeltaMixin',
                                           'pony.orm.dbproviders.sqlite:SQLiteBuilder.datetime_add', 'pony.orm.dbproviders.sqlite:SQLiteBuilder.DATE_ADD', 'pony.orm.dbproviders.sqlite:SQLiteBuilder.DATE_SUB',
                                           'pony.orm.dbproviders.sqlite:SQLiteBuilder.DATETIME_ADD', 'pony.orm.dbproviders.sqlite:SQLiteBuilder.DATETIME_SUB',
                                           'pony.orm.dbproviders.sqlite:SQLiteBuilder.DATETIME_DIFF', 'pony.orm.dbproviders.sqlite:SQLiteBuilder.DATE_DIFF'],
             D.configs, D.case, [('equals_python_evaluation_or_refused', D.spec)], level='bounded', bound=D.BOUND),
    Contract('composite_key_navigation_vs_python', ['pony.orm.sqltranslation:JoinedTableRef.make_join', 'pony.orm.sqltranslation:AttrMonad', 'pony.orm.sqltranslation:ObjectAttrMonad',
                                                    'pony.orm.sqltranslation:Subquery.join_table'],
             CK.configs, CK.case, [('equals_python_evaluation_or_refused', CK.spec)], level='bounded', bound=CK.BOUND),
    Contract('decimal_conditions_vs_python', ['pony.orm.dbproviders.sqlite:SQLiteDecimalConverter.py2sql', 'pony.orm.sqlbuilding:Param.eval', 'pony.orm.sqltranslation:NumericMixin', 'pony.orm.sqltranslation:CmpMonad.getsql'],
             DC.configs, DC.case, [('equals_python_evaluation_or_refused', DC.spec)], level='bounded', bound=DC.BOUND),
]

from contracts import c06 as _c06
CONTRACTS += [c for c in _c06.CONTRACTS if c.id == 'StringMixin._like']          # LIKE pattern escaping of in / startswith / endswith (a mechanism the property names), contracted under C06
