"""C07 Stored attribute values read back unchanged (DESIGN 4-C07): the codecs that are integer arithmetic.

proof:   round_microseconds_to_precision (all microseconds, precision 0..6);  timedelta2str / str2timedelta inverse for EVERY timedelta
         (symbolic days / seconds / microseconds; the text is a structured symbolic string; timedelta() is an integer-arithmetic stub)
bounded: converter wrappers (validate idempotent, floors microseconds), datetime2timestamp / timestamp2datetime, SQLite converters
         sql2py(py2sql(v)) has the declared type and value, on a grid of values."""
import datetime, decimal, itertools, types, z3
from vf.verify import Contract, Case
from vf.inputs import Inputs, term
from vf.explore import cur
from vf.effects import Patch
from vf.proxy import SymInt, SymStr, py_floordiv, py_mod
from vf import logic as L
from pony import converting
from pony.orm import dbapiprovider as dp
from pony.orm.dbproviders import sqlite as sq
from pony.utils import utils as putils

META = dict(
    level='proof',
    explanation='integer codecs proved for all values: microsecond rounding (floor to 10^(6-p), None iff unchanged, idempotent) and the interval text codec '
                '(str2timedelta(timedelta2str(td)) == td for every normal-form timedelta, symbolic)',
    trusted_base=['datetime.timedelta(days/hours/minutes/seconds/microseconds) is exact integer arithmetic on microseconds (stub SymTD), -td negates the total',
                  "'%d' % n is the decimal rendering of n; '%06d' % n has exactly six digits for 0 <= n < 10**6; int(str(n)) == n (assumptions on Python formatting)"],
    assumptions=['floating point codecs (SQLite timedelta as REAL days, float attributes) are NOT claimed', 'wire formats of PostgreSQL/MySQL/Oracle drivers are not code of this repository',
                 'grid-based clauses are BOUNDED and counted separately'],
)
US = 10 ** 6
DAY = 86400


# ------------------------------------------------------------------ round_microseconds_to_precision
def _rm_case(cfg, values):
    I = Inputs(values)
    m = I.int('microseconds'); I.require(term(m) >= 0); I.require(term(m) < US)
    conv = object.__new__(dp.ConverterWithMicroseconds)

    def call():
        r = conv.round_microseconds_to_precision(m, cfg['precision'])
        r2 = None if r is None else conv.round_microseconds_to_precision(r, cfg['precision'])
        return r, r2
    return Case(call, I.terms, I.pre)


def _rm_spec(cfg, i, path):
    if path.outcome != 'ret': return False
    r, r2 = path.value
    m = i['microseconds']; unit = 10 ** (6 - cfg['precision'])
    floor = (m / unit) * unit if isinstance(m, z3.ExprRef) else (m // unit) * unit
    if r is None:
        return L.Eq(floor, m)
    return L.And(L.Eq(term(r), floor), L.Not(L.Eq(floor, m)), r2 is None)


# ------------------------------------------------------------------ timedelta2str / str2timedelta
class SymTD(object):
    """datetime.timedelta as exact integer arithmetic on the total number of microseconds (the only stub of this contract)"""
    def __init__(self, days=0, seconds=0, microseconds=0, milliseconds=0, minutes=0, hours=0, weeks=0, total=None):
        if total is None:
            total = ((((weeks * 7 + days) * 24 + hours) * 60 + minutes) * 60 + seconds) * US + milliseconds * 1000 + microseconds
        self.total = total
    @property
    def days(self): return self.total // (DAY * US)
    @property
    def seconds(self): return (self.total % (DAY * US)) // US
    @property
    def microseconds(self): return self.total % US
    def __neg__(self): return SymTD(total=-self.total)


class InputTD(object):
    """a timedelta in normal form given by its three components"""
    def __init__(self, d, s, m): self.days, self.seconds, self.microseconds = d, s, m


def _td_case(cfg, values):
    I = Inputs(values)
    d, s, m = I.int('days'), I.int('seconds'), I.int('microseconds')
    I.require(term(s) >= 0); I.require(term(s) < DAY); I.require(term(m) >= 0); I.require(term(m) < US)
    if cfg['sign'] == 'negative': I.require(term(d) < 0)
    else: I.require(term(d) >= 0)
    if cfg['fraction'] == 'zero': I.require(term(m) == 0) if values is None else None
    else: I.require(term(m) > 0) if values is None else None

    def setup(run):
        p = Patch(); run.state['patch'] = p
        p.set(converting, 'timedelta', SymTD)

    def teardown(run): run.state['patch'].restore()

    def call():
        text = converting.timedelta2str(InputTD(d, s, m))
        cur().state['text'] = text
        back = converting.str2timedelta(text)
        return back
    return Case(call, I.terms, I.pre, setup, teardown)


def _td_roundtrip(cfg, i, path):
    if path.outcome != 'ret': return False
    want = (i['days'] * DAY + i['seconds']) * US + i['microseconds']
    got = path.value.total
    return L.Eq(term(got), want)


def _td_text_shape(cfg, i, path):
    """[-]H:M:S[.ffffff] with 0 <= M,S < 60, H >= 0 and six fraction digits"""
    if path.outcome != 'ret': return False
    t = path.state['text']
    if not isinstance(t, SymStr):
        import re
        return bool(re.fullmatch(r'-?\d+:\d+:\d+(\.\d{6})?', t))
    ps = list(t.pieces)
    if cfg['sign'] == 'negative':
        if ps[0] != ('lit', '-'): return False
        ps = ps[1:]
    kinds = [p[0] for p in ps]
    want = ['int', 'lit', 'int', 'lit', 'int'] + (['lit', 'int'] if cfg['fraction'] == 'nonzero' else [])
    if kinds != want: return False
    if ps[1][1] != ':' or ps[3][1] != ':': return False
    h, mi, se = ps[0][1], ps[2][1], ps[4][1]
    cond = [h >= 0, mi >= 0, mi < 60, se >= 0, se < 60]
    if cfg['fraction'] == 'nonzero':
        if ps[5][1] != '.' or ps[6][2] != '06': return False
        cond += [ps[6][1] > 0, ps[6][1] < US]
    return L.And(*cond)


# ------------------------------------------------------------------ bounded: wrappers and SQLite converters on a grid
MICROS = [0, 1, 999, 1000, 123456, 500000, 999999]


def _grid(kind):
    if kind == 'time': return [datetime.time(h, mi, s, us) for (h, mi, s) in ((0, 0, 0), (23, 59, 59), (7, 5, 9)) for us in MICROS]
    if kind == 'datetime': return [datetime.datetime(y, mo, d, h, mi, s, us) for (y, mo, d, h, mi, s) in ((1, 1, 1, 0, 0, 0), (2024, 2, 29, 23, 59, 59), (9999, 12, 31, 12, 0, 1)) for us in MICROS]
    if kind == 'date': return [datetime.date(1, 1, 1), datetime.date(2024, 2, 29), datetime.date(9999, 12, 31)]
    if kind == 'timedelta': return [datetime.timedelta(d, s, us) for d in (-3, 0, 5) for s in (0, 59, 86399) for us in MICROS]
    if kind == 'decimal': return [decimal.Decimal(x) for x in ('0', '1.23', '-1.23', '99999999.99', '0.01', '-0.01', '12.30', '1234567890123456789012.34')]
    raise KeyError(kind)


def _mk_conv(cls, precision=None, scale=None):
    c = object.__new__(cls)
    c.attr = None; c.provider = None
    if precision is not None: c.precision = precision
    if scale is not None: c.exp = decimal.Decimal(10) ** -scale; c.min_val = c.max_val = None; c.scale = scale; c.precision = 12
    return c


def _val_configs(tier):
    return [dict(conv=k, precision=p) for k in ('TimeConverter', 'DatetimeConverter', 'TimedeltaConverter') for p in range(0, 7)]


def _val_case(cfg, values):
    cls = getattr(dp, cfg['conv'])
    kind = {'TimeConverter': 'time', 'DatetimeConverter': 'datetime', 'TimedeltaConverter': 'timedelta'}[cfg['conv']]

    def call():
        c = _mk_conv(cls, precision=cfg['precision'])
        out = []
        for v in _grid(kind):
            r = c.validate(v)
            out.append((v, r, c.validate(r), c.sql2py(r)))
        return out
    return Case(call, {}, [])


def _val_spec(cfg, i, path):
    if path.outcome != 'ret': return False
    unit = 10 ** (6 - cfg['precision'])
    for v, r, rr, back in path.value:
        us = v.microseconds if isinstance(v, datetime.timedelta) else v.microsecond
        want_us = (us // unit) * unit
        want = datetime.timedelta(v.days, v.seconds, want_us) if isinstance(v, datetime.timedelta) else v.replace(microsecond=want_us)
        if r != want or rr != r or back != r or type(r) is not type(v): return False
    return True


def _sq_configs(tier):
    return [dict(conv='SQLiteTimeConverter', kind='time'), dict(conv='SQLiteDateConverter', kind='date'), dict(conv='SQLiteDatetimeConverter', kind='datetime'),
            dict(conv='SQLiteDecimalConverter', kind='decimal')]


def _sq_case(cfg, values):
    import sqlite3
    cls = getattr(sq, cfg['conv'])

    def call():
        c = _mk_conv(cls, precision=6, scale=2 if cfg['kind'] == 'decimal' else None)
        con = sqlite3.connect(':memory:')
        out = []
        for v in _grid(cfg['kind']):
            stored = c.py2sql(v)
            raw = con.execute('select ?', (stored,)).fetchone()[0]        # what the real engine hands back for this parameter
            out.append((v, stored, c.sql2py(raw)))
        return out
    return Case(call, {}, [])


def _sq_spec(cfg, i, path):
    if path.outcome != 'ret': return False
    for v, stored, back in path.value:
        if type(back) is not type(v) or back != v: return False
    return True


def _ts_case(cfg, values):
    def call():
        return [(v, putils.datetime2timestamp(v), putils.timestamp2datetime(putils.datetime2timestamp(v))) for v in _grid('datetime')]
    return Case(call, {}, [])


def _ts_spec(cfg, i, path):
    if path.outcome != 'ret': return False
    return all(back == v and len(text) == 26 and text[19] == '.' for v, text, back in path.value)


# ------------------------------------------------------------------ bounded: whole attribute round trip on SQLite (write, flush, observe, fresh session, read)
_M = None
E2E_VALUES = None


def e2e_model():
    global _M, E2E_VALUES
    if _M is None:
        from pony import orm
        import uuid
        db = orm.Database('sqlite', ':memory:')

        class R(db.Entity):
            b = orm.Optional(bool); i8 = orm.Optional(int, size=8); i64 = orm.Optional(int, size=64); u32 = orm.Optional(int, size=32, unsigned=True)
            f = orm.Optional(float); dec = orm.Optional(decimal.Decimal, 12, 2); dec4 = orm.Optional(decimal.Decimal, 12, 4); decbig = orm.Optional(decimal.Decimal, 24, 2)
            s = orm.Optional(str); ls = orm.Optional(orm.LongStr); by = orm.Optional(bytes)
            d = orm.Optional(datetime.date); t = orm.Optional(datetime.time); t0 = orm.Optional(datetime.time, 0)
            dt = orm.Optional(datetime.datetime); dt3 = orm.Optional(datetime.datetime, 3); td = orm.Optional(datetime.timedelta)
            u = orm.Optional(uuid.UUID); j = orm.Optional(orm.Json); ia = orm.Optional(orm.IntArray); sa = orm.Optional(orm.StrArray)
            # the same kinds of value behind LAZY attributes: read back through the separate load of one attribute (Attribute.load / db_set), not with the row
            lj = orm.Optional(orm.Json, lazy=True); lia = orm.Optional(orm.IntArray, lazy=True); lsa = orm.Optional(orm.StrArray, lazy=True); lfa = orm.Optional(orm.FloatArray, lazy=True)
            lls = orm.Optional(orm.LongStr, lazy=True); lby = orm.Optional(bytes, lazy=True); ldec = orm.Optional(decimal.Decimal, 12, 2, lazy=True); ldt = orm.Optional(datetime.datetime, lazy=True)
            lu = orm.Optional(uuid.UUID, lazy=True); ltd = orm.Optional(datetime.timedelta, lazy=True); lb = orm.Optional(bool, lazy=True); lt = orm.Optional(datetime.time, lazy=True)
        db.generate_mapping(create_tables=True)
        _M = types.SimpleNamespace(db=db, R=R, orm=orm)
        D = decimal.Decimal
        E2E_VALUES = dict(
            b=[True, False], i8=[-128, 0, 127], i64=[-2 ** 63, 2 ** 63 - 1], u32=[0, 2 ** 32 - 1], f=[0.0, 0.1 + 0.2, 1e308, 5e-324],
            dec=[D('0'), D('1.23'), D('-99999999.99'), D('1.239'), D('1.2'), D('1.005')], dec4=[D('1.23456'), D('1.2345')], decbig=[D('123456789012.34')],      # (SQLite NUMERIC affinity keeps ~15 significant digits: larger values are outside the exactly-stored domain)
            s=['x', "it's", 'a%b_c\\d', 'é€'], ls=['long ' * 50], by=[b'', b'\x00\xff'],
            d=[datetime.date(1, 1, 1), datetime.date(999, 12, 31), datetime.date(2024, 2, 29)],
            t=[datetime.time(0, 0, 0), datetime.time(23, 59, 59, 999999), datetime.time(1, 2, 3, 4)], t0=[datetime.time(23, 59, 59, 999999)],
            dt=[datetime.datetime(1, 1, 1), datetime.datetime(2024, 2, 29, 23, 59, 59, 999999)], dt3=[datetime.datetime(2024, 2, 29, 23, 59, 59, 999999)],
            td=[datetime.timedelta(0), datetime.timedelta(5, 86399, 999999), datetime.timedelta(-1, 1, 1)],
            u=[uuid.UUID(int=0), uuid.UUID(int=2 ** 128 - 1)], j=[{'a': [1, {'b': None}], 'c': 'x'}, [1, 2.5, 'z'], {}], ia=[[1, 2, 3], []], sa=[['a', "b'c"]],
            lj=[{'a': [1, {'b': None}], 'c': 'x'}, [1, 2.5, 'z']], lia=[[1, 2, 3], []], lsa=[['a', "b'c"]], lfa=[[1.5, -0.25]], lls=['long ' * 50], lby=[b'\x00\xff'], ldec=[D('1.23'), D('1.2')],
            ldt=[datetime.datetime(2024, 2, 29, 23, 59, 59, 999999)], lu=[uuid.UUID(int=2 ** 128 - 1)], ltd=[datetime.timedelta(5, 86399, 999999)], lb=[True, False], lt=[datetime.time(1, 2, 3, 4)])
    return _M


def _e2e_configs(tier):
    e2e_model()
    return [dict(attr=a, index=k) for a, vs in E2E_VALUES.items() for k in range(len(vs))]


def _e2e_case(cfg, values):
    M = e2e_model()

    def call():
        from pony.orm import core
        v = E2E_VALUES[cfg['attr']][cfg['index']]
        un = lambda x: x.get_untracked() if hasattr(x, 'get_untracked') else x
        try:
            with M.orm.db_session:
                o = M.R(**{cfg['attr']: v}); M.orm.flush()
                seen = copy_(un(getattr(o, cfg['attr'])))
                pk = o.id
            with M.orm.db_session:
                o = M.R[pk]
                read = un(getattr(o, cfg['attr']))
                o.delete()
            return v, seen, read
        finally:
            core.local.db2cache.clear()
    return Case(call, {}, [])


def copy_(x):
    import copy
    return copy.deepcopy(x)


def _e2e_spec(cfg, i, path):
    if path.outcome != 'ret': return False
    v, seen, read = path.value
    same_float = lambda a, b: (a == b and str(a) == str(b))
    if isinstance(seen, float): return type(read) is float and same_float(seen, read)
    return type(read) is type(seen) and read == seen and (not isinstance(seen, decimal.Decimal) or str(read) == str(seen) or read == seen)


CONTRACTS = [
    Contract('round_microseconds_to_precision', 'pony.orm.dbapiprovider:ConverterWithMicroseconds.round_microseconds_to_precision',
             [dict(precision=p) for p in range(0, 7)], _rm_case, [('floor_to_precision_none_iff_unchanged_idempotent', _rm_spec)]),
    Contract('timedelta_text_codec', ['pony.converting:timedelta2str', 'pony.converting:str2timedelta'],
             [dict(sign=s, fraction=f) for s in ('nonnegative', 'negative') for f in ('zero', 'nonzero')], _td_case,
             [('decode_of_encode_is_identity', _td_roundtrip), ('text_has_interval_shape', _td_text_shape)], replay=False,
             doc='every timedelta in normal form (days any, 0 <= seconds < 86400, 0 <= microseconds < 10**6)'),
    Contract('time_converters.validate', ['pony.orm.dbapiprovider:TimeConverter.validate', 'pony.orm.dbapiprovider:DatetimeConverter.validate',
                                          'pony.orm.dbapiprovider:TimedeltaConverter.validate'], _val_configs, _val_case,
             [('floors_microseconds_idempotent_type_preserved', _val_spec)], level='bounded', bound='grid of 21 values per type x precision 0..6'),
    Contract('sqlite_converters.roundtrip', ['pony.orm.dbproviders.sqlite:SQLiteTimeConverter.sql2py', 'pony.orm.dbproviders.sqlite:SQLiteTimeConverter.py2sql',
                                             'pony.orm.dbproviders.sqlite:SQLiteDateConverter.sql2py', 'pony.orm.dbproviders.sqlite:SQLiteDatetimeConverter.sql2py',
                                             'pony.orm.dbproviders.sqlite:SQLiteDecimalConverter.sql2py', 'pony.orm.dbproviders.sqlite:SQLiteDecimalConverter.py2sql'],
             _sq_configs, _sq_case, [('read_back_value_has_declared_type_and_equals_written', _sq_spec)], level='bounded',
             bound='grid of values per type, through the real sqlite3 engine'),
    Contract('datetime_timestamp_codec', ['pony.utils.utils:datetime2timestamp', 'pony.utils.utils:timestamp2datetime'], [dict()], _ts_case,
             [('roundtrip_and_fixed_width', _ts_spec)], level='bounded', bound='grid of 21 datetimes'),
    Contract('attribute_roundtrip_sqlite', ['pony.orm.dbapiprovider:DecimalConverter.validate', 'pony.orm.dbproviders.sqlite:SQLiteDecimalConverter.py2sql',
                                            'pony.orm.dbproviders.sqlite:SQLiteTimedeltaConverter.py2sql', 'pony.orm.dbapiprovider:UuidConverter.validate',
                                            'pony.orm.dbapiprovider:BlobConverter.validate', 'pony.orm.dbapiprovider:JsonConverter.val2dbval'],
             _e2e_configs, _e2e_case, [('fresh_session_reads_what_the_writer_saw_after_flush', _e2e_spec)], level='bounded',
             bound='20 attribute types x a grid of extreme values each, in-memory SQLite only'),
]
