"""C34 (bounded part): Database.to_json never includes an object the current user may not view - on REAL declarations (perm(), user_groups_getter, user_roles_getter,
obj_labels_getter, set_current_user), not on stub rules.

Model: Person with a subclass Employee, and Badge (one set_perms_for() call for both: viewable by group staff), Doc (viewable by anybody when labelled public, and by its owner),
Comment (viewable by anybody). For every current user (staff / owner of secret documents / a third person / nobody), every piece of data out of an enumerated family (single objects,
lists, nested dicts, query results) and every subset of the four relationship attributes as include=: the reference closure (objects named in the data, then whatever the included
relationship attributes reach, transitively) is computed in Python, and the viewable set by reading the rules declaratively. to_json must
  - raise PermissionError exactly when the closure contains an object the user may not view, and otherwise
  - emit exactly the closure under "objects" (so in particular nothing the user may not view), with current attribute values."""
import itertools, json, types
from vf.verify import Case
from pony import orm
from pony.orm import core

BOUND = '4 users x 16 include sets x 22 data shapes (plus class / attribute / subclass answers) on one model with group / role / label rules declared through the public API'
_M = None


def model():
    global _M
    if _M is not None: return _M
    db = orm.Database('sqlite', ':memory:')

    class Person(db.Entity):
        id = orm.PrimaryKey(int)
        name = orm.Required(str)
        staff = orm.Required(bool, default=False)
        docs = orm.Set('Doc')

    class Employee(Person):                            # a subclass: rules declared for Person apply to it
        rank = orm.Optional(int)

    class Badge(db.Entity):                            # declared in the SAME set_perms_for() call as Person, after it
        id = orm.PrimaryKey(int)
        code = orm.Optional(str)

    class Doc(db.Entity):
        id = orm.PrimaryKey(int)
        title = orm.Required(str)
        secret = orm.Required(bool, default=False)
        owner = orm.Required(Person)
        comments = orm.Set('Comment')

    class Comment(db.Entity):
        id = orm.PrimaryKey(int)
        text = orm.Required(str)
        doc = orm.Required(Doc)
    db.generate_mapping(create_tables=True)

    @core.user_groups_getter(Person)
    def person_groups(p): return ['staff'] if p.staff else []

    @core.user_roles_getter(Person, Doc)
    def person_doc_roles(p, d): return 'owner' if d.owner is p else None

    @core.obj_labels_getter(Doc)
    def doc_labels(d): return None if d.secret else 'public'

    with db.set_perms_for(Person, Badge):              # several entities in one call; the one with a subclass is not the last
        core.perm('view', group='staff')
    with db.set_perms_for(Comment):
        core.perm('view', group='anybody')
    with db.set_perms_for(Doc):
        core.perm('view', group='anybody', label='public')
        core.perm('view', role='owner')
    with orm.db_session:
        staff = Person(id=1, name='staff', staff=True); other = Person(id=2, name='other'); third = Person(id=3, name='third')
        Employee(id=4, name='employee', rank=2); Badge(id=1, code='b')
        Doc(id=10, title='public of other', owner=other); Doc(id=11, title='secret of other', secret=True, owner=other)
        Doc(id=12, title='secret of staff', secret=True, owner=staff); Doc(id=13, title='public of third', owner=third)
        Comment(id=100, text='on public', doc=10); Comment(id=101, text='on secret', doc=11); Comment(id=102, text='on own secret', doc=12); Comment(id=103, text='second on public', doc=10)
    _M = types.SimpleNamespace(db=db, Person=Person, Employee=Employee, Badge=Badge, Doc=Doc, Comment=Comment)
    return _M


def may_view(user, obj):
    """the declared rules, read declaratively"""
    kind = type(obj).__name__
    if kind in ('Person', 'Employee', 'Badge'): return user is not None and user.staff
    if kind == 'Comment': return True
    return (not obj.secret) or (user is not None and obj.owner is user)


DATA = {
    'person 2': lambda M: M.Person[2], 'person 3': lambda M: M.Person[3], 'person 1': lambda M: M.Person[1],
    'doc 10': lambda M: M.Doc[10], 'doc 11': lambda M: M.Doc[11], 'doc 12': lambda M: M.Doc[12], 'doc 13': lambda M: M.Doc[13],
    'comment 100': lambda M: M.Comment[100], 'comment 101': lambda M: M.Comment[101], 'comment 102': lambda M: M.Comment[102],
    'list of public docs': lambda M: [M.Doc[10], M.Doc[13]], 'list of comments': lambda M: [M.Comment[100], M.Comment[102]], 'all comments': lambda M: list(M.Comment.select().order_by(M.Comment.id)),
    'nested dict': lambda M: {'a': {'b': [M.Comment[103], 1, 'x']}, 'c': M.Doc[13]}, 'dict with a secret': lambda M: {'k': [M.Doc[10]], 'z': {'deep': M.Doc[11]}},
    'employee 4': lambda M: M.Employee[4], 'employee among persons': lambda M: [M.Person[2], M.Person[4]], 'badge': lambda M: M.Badge[1],
    'no objects': lambda M: {'n': 1}, 'public docs by query': lambda M: list(orm.select(d for d in M.Doc if not d.secret).order_by(lambda d: d.id)),
    'all docs by query': lambda M: list(M.Doc.select().order_by(M.Doc.id)), 'unloaded reference': lambda M: M.Comment[101].doc,
}
USERS = (1, 2, 3, None)


def configs(tier):
    return [dict(user=u, include=inc) for u in USERS for k in range(5) for inc in itertools.combinations(('Person.docs', 'Doc.owner', 'Doc.comments', 'Comment.doc'), k)]


def _objects_in(data):
    if isinstance(data, core.Entity): yield data
    elif isinstance(data, dict):
        for v in data.values(): yield from _objects_in(v)
    elif isinstance(data, (list, tuple)):
        for v in data: yield from _objects_in(v)


def closure(M, data, include):
    seen = []; todo = list(_objects_in(data))
    while todo:
        o = todo.pop()
        if o in seen: continue
        seen.append(o)
        for a in include:
            ename, aname = a.split('.')
            if type(o).__name__ != ename: continue
            v = getattr(o, aname)
            if v is None: continue
            todo.extend(list(v) if isinstance(v, core.SetInstance) else [v])
    return seen


def case(cfg, values):
    def reset():
        try: core.set_current_user(None)
        except Exception: pass
        try: orm.rollback()
        except Exception: pass
        core.local.db2cache.clear(); core.local.db_context_counter = 0; core.local.db_session = None

    def call():
        M = model(); bad = []
        include = [getattr(getattr(M, a.split('.')[0]), a.split('.')[1]) for a in cfg['include']]
        # class-level and attribute-level answers for the same declarations (a rule declared for an entity covers its subclasses and their own attributes)
        with orm.db_session:
            user = None if cfg['user'] is None else M.Person[cfg['user']]
            staff = user is not None and user.staff
            for target, want in ((M.Person, staff), (M.Employee, staff), (M.Badge, staff), (M.Employee.rank, staff), (M.Person.name, staff), (M.Badge.code, staff), (M.Comment, True), (M.Comment.text, True),
                                 (M.Doc, True), (M.Employee[4], staff)):
                got = (core.can_view(user, target), core.has_perm(user, 'view', target), core.can_view(user, target))
                if got != (want, want, want): bad.append(('can_view / has_perm of %s' % (target,), 'answers %r' % (got,), 'the declared rules grant: %r' % want))
        for name, mk in DATA.items():
            with orm.db_session:
                user = None if cfg['user'] is None else M.Person[cfg['user']]
                data = mk(M)
                reach = closure(M, data, cfg['include'])
                forbidden = sorted('%s[%s]' % (type(o).__name__, o.id) for o in reach if not may_view(user, o))
                core.set_current_user(user)
                try:
                    try: out = M.db.to_json(data, include=include, with_schema=False)
                    except core.PermissionError: out = 'refused'
                    again = None
                    try: again = M.db.to_json(data, include=include, with_schema=False)
                    except core.PermissionError: again = 'refused'
                finally:
                    core.set_current_user(None)
                if out != again: bad.append((name, 'a repeated call answers differently')); continue
                if out == 'refused':
                    if not forbidden: bad.append((name, 'refused although every reachable object may be viewed', [str(o) for o in reach]))
                    continue
                got = json.loads(out)['objects']
                got_keys = sorted('%s[%s]' % (cls, pk) for cls, d in got.items() for pk in d)
                leaked = [k for k in got_keys if k in forbidden]
                if leaked: bad.append((name, 'objects the user may not view were included', leaked)); continue
                if forbidden: bad.append((name, 'not refused although the data reaches objects the user may not view', forbidden)); continue
                want_keys = sorted('%s[%s]' % (type(o).__name__, o.id) for o in reach)
                if got_keys != want_keys: bad.append((name, 'objects emitted: %r' % got_keys, 'closure of the data under include: %r' % want_keys)); continue
                for o in reach:
                    d = got[type(o).__name__][str(o.id)]
                    for attr in o._attrs_:
                        if attr.is_collection and attr not in include: continue
                        v = getattr(o, attr.name)
                        w = sorted(x.id for x in v) if attr.is_collection else (v.id if isinstance(v, core.Entity) else v)
                        if d.get(attr.name, 'missing') != w: bad.append((name, '%s.%s' % (o, attr.name), 'emitted %r' % (d.get(attr.name, 'missing'),), 'current %r' % (w,)))
        return bad[:6]
    return Case(call, {}, [], lambda run: reset(), lambda run: reset())


def spec(cfg, i, path):
    return path.outcome == 'ret' and path.value == []
