"""C12 Both ends of every relationship stay consistent (DESIGN 4-C12) — BOUNDED, per function and per operation.

(a) Set.reverse_add / reverse_remove (+ their undo closures) / db_reverse_add / db_reverse_remove on real SetData objects: for `objects` of
    length <= K, every combination of per-object states (item fresh / pending-removed resp. item loaded / pending-added; count known or not;
    collection already marked modified or not; added/removed sets present or None).
(b) ends-consistency of a real session after each of the modification scenarios of C13, whether the call succeeded or raised (also with an
    injected callee failure): for every pair of reverse attributes and every pair of objects, b in a.coll <=> a is b.ref / a in b.coll."""
import itertools, types
from vf.verify import Contract, Case
from vf.explore import cur, choose
from vf.effects import Patch
from pony import orm
from pony.orm import core
from contracts import c13, c12_partial as PL
from contracts import c12_batches as BT
from contracts import c12_refused as RF

META = dict(
    level='other',
    explanation='BOUNDED stand-in, never counted as proved: (a) per-object state partition of the reverse-side collection functions for <= K objects (K=3 quick, 4 thorough) '
                'incl. do;undo == identity; (b) both-ends agreement of the whole session after each scenario of the C13 set, on success and on every raising path.',
    trusted_base=['real SetData / Set / Attribute code; fake owners are plain attribute bags holding _vals_ (no re-implementation of Pony logic)'],
    assumptions=['K objects per call; the scenario set of (b); data loaded from the database (db_* functions) only per function, not per history'],
)


class Owner(object):
    _pk_is_composite_ = False
    def __init__(self, n): self.n = n; self._vals_ = {}; self._pkval_ = n
    def __repr__(self): return 'Owner%d' % self.n


class Item(object):
    _pk_is_composite_ = False
    _pkval_ = 0
    def __init__(self, cache): self._session_cache_ = cache
    def __repr__(self): return 'ITEM'


# per-object initial states of the collection w.r.t. the item
ADD_STATES = ['no_setdata', 'fresh', 'pending_removed']          # precondition of reverse_add: item not in the collection
REMOVE_STATES = ['loaded', 'pending_added']                         # precondition of reverse_remove: item in the collection


def _mk(state, item, others, count_known, marked, cache, attr, owner):
    if state == 'no_setdata':
        return
    sd = core.SetData()
    sd.update(others)
    if state in ('loaded', 'pending_added'): sd.add(item)
    if state == 'pending_added': sd.added = {item}
    if state == 'pending_removed': sd.removed = {item}
    if count_known: sd.count = len(sd)
    owner._vals_[attr] = sd
    if marked: cache.modified_collections[attr].add(owner)


def _snap(owners, attr, cache):
    out = []
    for o in owners:
        sd = o._vals_.get(attr)
        if sd is None: out.append(None)
        else: out.append((frozenset(map(repr, sd)), frozenset(map(repr, sd.added or ())), frozenset(map(repr, sd.removed or ())), sd.count))
    return out, frozenset(map(repr, cache.modified_collections[attr]))


def _ra_configs(tier):
    K = 3 if tier == 'quick' else 4
    out = []
    for fn, states in (('reverse_add', ADD_STATES), ('reverse_remove', REMOVE_STATES)):
        for k in range(0, K + 1):
            for combo in itertools.product(states, repeat=k):
                for count_known in (False, True):
                    for marked in (False, True):
                        out.append(dict(fn=fn, states=combo, count_known=count_known, marked=marked))
    return out


def _ra_case(cfg, values):
    def call():
        st = cur().state
        attr = core.Set.__new__(core.Set)            # the real Set descriptor class; only identity and reverse_* are used
        cache = types.SimpleNamespace(modified_collections=__import__('collections').defaultdict(set))
        item = Item(cache)
        owners = [Owner(j) for j in range(len(cfg['states']))]
        for o, s in zip(owners, cfg['states']):
            _mk(s, item, ['x%d' % o.n], cfg['count_known'], cfg['marked'], cache, attr, o)
        before = _snap(owners, attr, cache)
        undo_funcs = []
        getattr(core.Set, cfg['fn'])(attr, tuple(owners), item, undo_funcs)
        after = _snap(owners, attr, cache)
        member = [item in o._vals_[attr] for o in owners]
        detail = [(set(o._vals_[attr].added or ()), set(o._vals_[attr].removed or ()), o._vals_[attr].count) for o in owners]
        for f in reversed(undo_funcs): f()
        undone = _snap(owners, attr, cache)
        st.update(before=before, after=after, undone=undone, member=member, detail=detail, n_undo=len(undo_funcs), item=item)
        return 'ok'
    return Case(call, {}, [])


def _norm(snap):
    """no SetData and an empty SetData without pending changes are the same observable state"""
    objs, marked = snap
    return [(x if x is not None else (frozenset(), frozenset(), frozenset(), None)) for x in objs], marked


def _ra_post(cfg, i, path):
    if path.outcome != 'ret': return False
    st = path.state
    add = cfg['fn'] == 'reverse_add'
    if any(m != add for m in st['member']): return False
    for (state, (added, removed, count), b) in zip(cfg['states'], st['detail'], st['before'][0]):
        added = added or set(); removed = removed or set()
        if added & removed: return False
        it = st['item']
        if add:
            # was pending-removed: the removal is cancelled; otherwise it is a pending addition
            if state == 'pending_removed':
                if it in removed or it in added: return False
            elif it not in added: return False
        else:
            if state == 'pending_added':
                if it in added or it in removed: return False
            elif it not in removed: return False
        if b is not None and b[3] is not None and count != b[3] + (1 if add else -1): return False
    # every touched owner is marked as having a modified collection
    return all(repr(o) in st['after'][1] for o in [Owner(j) for j in range(len(cfg['states']))])


def _ra_undo_identity(cfg, i, path):
    if path.outcome != 'ret': return False
    st = path.state
    b, u = _norm(st['before']), _norm(st['undone'])
    # count of a collection that had no SetData before: None either way
    return b[1] == u[1] and all(x[:3] == y[:3] and (x[3] == y[3] or cfg['states'][k] == 'no_setdata') for k, (x, y) in enumerate(zip(b[0], u[0]))) \
        and st['n_undo'] == 1


def _db_configs(tier):
    return [dict(fn=f, loaded=l) for f in ('db_reverse_add', 'db_reverse_remove') for l in (False, True)]


def _db_case(cfg, values):
    def call():
        attr = core.Set.__new__(core.Set)
        attr.is_volatile = False
        attr.name = 'coll'
        cache = types.SimpleNamespace(modified_collections=__import__('collections').defaultdict(set))
        item = Item(cache)
        o = Owner(0)
        sd = core.SetData(); sd.add('x'); sd.is_fully_loaded = cfg['loaded']
        if cfg['fn'] == 'db_reverse_remove': sd.add(item)
        o._vals_[attr] = sd
        getattr(core.Set, cfg['fn'])(attr, (o,), item)
        return item in sd, sd.added, sd.removed
    return Case(call, {}, [])


def _db_post(cfg, i, path):
    if cfg['fn'] == 'db_reverse_add' and cfg['loaded']:
        # a fully loaded, non-volatile collection must not silently grow: phantom => repeatable-read error (C21)
        return path.outcome == 'exc' and isinstance(path.value, core.UnrepeatableReadError)
    if path.outcome != 'ret': return False
    member, added, removed = path.value
    return member == (cfg['fn'] == 'db_reverse_add') and not added and not removed


# ------------------------------------------------------------------ (b) both ends agree after every scenario
def ends_consistent(cache):
    """-> list of disagreements between the two ends of relationships, over the objects of the session whose both ends are loaded"""
    bad = []
    live = [o for o in cache.objects if o._status_ not in ('deleted', 'cancelled', 'marked_to_delete')]
    for o in live:
        for attr, val in o._vals_.items():
            rev = attr.reverse
            if not rev or val is None: continue
            if attr.is_collection:
                for x in val:
                    if x._status_ in ('deleted', 'cancelled', 'marked_to_delete'):
                        bad.append('%r.%s contains deleted %r' % (o, attr.name, x)); continue
                    if rev not in x._vals_: continue
                    rv = x._vals_[rev]
                    if rev.is_collection:
                        if rv is not None and rv.is_fully_loaded and o not in rv: bad.append('%r in %r.%s but not vice versa' % (x, o, attr.name))
                    elif rv is not o: bad.append('%r in %r.%s but %r.%s is %r' % (x, o, attr.name, x, rev.name, rv))
            else:
                x = val
                if not isinstance(x, core.Entity) or rev not in x._vals_: continue
                rv = x._vals_[rev]
                if rev.is_collection:
                    if rv is not None and o not in rv and rv.is_fully_loaded: bad.append('%r.%s is %r but not in its %s' % (o, attr.name, x, rev.name))
                elif rv is not o: bad.append('%r.%s is %r but %r.%s is %r' % (o, attr.name, x, x, rev.name, rv))
    return bad


def _ec_configs(tier):
    return [dict(op=k, inject=inj) for k in c13._ops(c13.model()) for inj in (False, True)]


def _ec_case(cfg, values):
    M = c13.model()

    def setup(run):
        c13._reset_session()
        p = Patch(); run.state['patch'] = p
        if cfg['inject']: c13._install_injection(p)

    def teardown(run):
        run.state['patch'].restore()
        try: orm.rollback()
        except Exception: pass
        c13._reset_session()

    def call():
        st = cur().state
        core.local.db_context_counter = 1
        cache = st['cache'] = M.db._get_cache()
        for e in (M.Person, M.Passport, M.Group, M.Course, M.Tag, M.Locker):
            for o in e.select():
                for a in e._attrs_:
                    if a.is_collection: getattr(o, a.name).load()
                    else: getattr(o, a.name)
        st['bad_before'] = ends_consistent(cache)
        st['armed'] = True
        st['before'] = None
        try:
            c13._ops(M)[cfg['op']]()
            st['result'] = 'ok'
        except (c13.Injected, core.CacheIndexError, core.ConstraintError, ValueError, TypeError) as e:
            st['result'] = type(e).__name__
        st['bad_after'] = ends_consistent(cache)
        return st['result']
    return Case(call, {}, [], setup, teardown)


def _ec_post(cfg, i, path):
    if path.outcome != 'ret': return False
    st = path.state
    return st['bad_before'] == [] and st['bad_after'] == []


# ------------------------------------------------------------------ (c) the two ends as the public API shows them, with partially loaded collections
def _pm_configs(tier):
    return [dict(rel=r, warm=w, op=o) for r in ('m2m', 'one2many') for w in ('none', 'ask', 'ask_other_side', 'len', 'count') for o in ('link_a', 'link_b', 'unlink_a', 'unlink_b')]


def _pm_case(cfg, values):
    M = c13.model()

    def setup(run): c13._reset_session()
    def teardown(run):
        try: orm.rollback()
        except Exception: pass
        c13._reset_session()

    def call():
        P, G, C = M.Person, M.Group, M.Course
        with orm.db_session:
            link = cfg['op'].startswith('link')
            if cfg['rel'] == 'm2m':
                a, x = (P[4], C[3]) if link else (P[2], C[2])
                coll = lambda: a.courses; back = lambda: a in x.students
                ops = dict(link_a=lambda: a.courses.add(x), link_b=lambda: x.students.add(a), unlink_a=lambda: a.courses.remove(x), unlink_b=lambda: x.students.remove(a))
            else:
                a, x = (G[2], P[1]) if link else (G[2], P[3])
                coll = lambda: a.students; back = lambda: x.group is a
                ops = dict(link_a=lambda: a.students.add(x), link_b=lambda: setattr(x, 'group', a), unlink_a=lambda: a.students.remove(x), unlink_b=lambda: setattr(x, 'group', None))
            w = cfg['warm']
            if w == 'ask': first = x in coll()
            elif w == 'ask_other_side': first = back()
            elif w == 'len': first = len(coll())
            elif w == 'count': first = coll().count()
            else: first = None
            ops[cfg['op']]()
            r = (x in coll(), back(), x in set(coll()))
            orm.rollback()
            return link, first, r
    return Case(call, {}, [], setup, teardown)


def _pm_post(cfg, i, path):
    if path.outcome != 'ret': return False
    link, first, r = path.value
    if cfg['warm'] in ('ask', 'ask_other_side') and first is not (not link): return False
    return r == (link, link, link)


CONTRACTS = [
    Contract('Set.reverse_add_remove', ['pony.orm.core:Set.reverse_add', 'pony.orm.core:Set.reverse_remove'], _ra_configs, _ra_case,
             [('item_membership_and_pending_sets_updated_consistently', _ra_post), ('do_then_undo_is_identity', _ra_undo_identity)],
             level='bounded', bound='objects of length <= 3 (quick) / 4 (thorough), every combination of per-object states'),
    Contract('Set.db_reverse_add_remove', ['pony.orm.core:Set.db_reverse_add', 'pony.orm.core:Set.db_reverse_remove'], _db_configs, _db_case,
             [('loaded_data_updates_membership_without_pending_changes', _db_post)], level='bounded', bound='one object', allowed_exc=(core.UnrepeatableReadError,)),
    Contract('both_ends_agree_after_operation',
             ['pony.orm.core:Attribute.update_reverse', 'pony.orm.core:Attribute.db_update_reverse', 'pony.orm.core:Attribute.__set__', 'pony.orm.core:Set.__set__',
              'pony.orm.core:SetInstance.add', 'pony.orm.core:SetInstance.remove', 'pony.orm.core:Entity._delete_', 'pony.orm.core:Entity.__init__'],
             _ec_configs, _ec_case, [('every_pair_of_reverse_attributes_agrees', _ec_post)], level='bounded',
             bound='the modification scenarios of C13 on one model (1-1, many-to-one, many-to-many, cascade), with and without one injected callee failure'),
    Contract('membership_seen_from_both_ends', ['pony.orm.core:SetInstance.__contains__', 'pony.orm.core:SetInstance.add', 'pony.orm.core:SetInstance.remove', 'pony.orm.core:Set.load'],
             _pm_configs, _pm_case, [('both_ends_answer_the_same_after_link_or_unlink', _pm_post)], level='bounded',
             bound='many-to-many and one-to-many, 5 warm-up states of a partially loaded collection (incl. an earlier negative membership answer), link / unlink from either side'),
    Contract('partly_loaded_objects', ['pony.orm.core:Attribute.__set__', 'pony.orm.core:Attribute.load', 'pony.orm.core:Attribute.update_reverse', 'pony.orm.core:Attribute.db_update_reverse',
                                       'pony.orm.core:Entity._db_set_', 'pony.orm.core:SetInstance.add', 'pony.orm.core:SetInstance.remove'], PL.configs, PL.case,
             [('both_ends_and_rows_agree_with_the_links_made', PL.spec)], level='bounded', bound=PL.BOUND),
    Contract('one_to_one_reassignment', ['pony.orm.core:Attribute.__set__', 'pony.orm.core:Attribute.update_reverse', 'pony.orm.core:Entity._delete_'], PL.o2o_configs, PL.o2o_case,
             [('both_ends_and_rows_agree_with_the_links_made', PL.spec)], level='bounded', bound=PL.O2O_BOUND),
    Contract('collections_loaded_in_batches', ['pony.orm.core:Set.load', 'pony.orm.core:Set.db_reverse_add', 'pony.orm.core:EntityMeta._construct_batchload_sql_', 'pony.orm.core:SetInstance.__contains__'],
             BT.configs, BT.case, [('every_collection_equals_the_stored_links_and_both_ends_agree', BT.spec)], level='bounded', bound=BT.BOUND),
    Contract('refused_delete_leaves_both_ends', ['pony.orm.core:Entity._delete_', 'pony.orm.core:Attribute.__set__', 'pony.orm.core:Set.reverse_remove', 'pony.orm.core:Set.__set__'],
             RF.configs, RF.case, [('both_ends_are_as_before_the_refused_delete', RF.spec)], level='bounded', bound=RF.BOUND),
    Contract('symmetric_relationships', ['pony.orm.core:Attribute.__set__', 'pony.orm.core:Attribute.update_reverse', 'pony.orm.core:SetInstance.add', 'pony.orm.core:SetInstance.remove', 'pony.orm.core:Set.__set__'],
             RF.sym_configs, RF.sym_case, [('both_ends_agree_with_the_links_made', RF.spec)], level='bounded', bound=RF.BOUND_SYM),
]
