"""C21 Repeated reads in a session return the same value or fail loudly (DESIGN 4-C21): per-call contracts; schedules are outside the technique.

Attribute.db_set on a real loaded object with SYMBOLIC previously-seen and newly-loaded database values: if the attribute was read (read bit set) and is
not volatile and the reloaded value differs, UnrepeatableReadError is raised and nothing changes; otherwise the new value is installed (the session's own
unflushed write is preserved). Entity._db_set_ (row refresh) and the phantom rule of Set.db_reverse_add likewise; _initialize_bits_ gives volatile
attributes no bit in _bits_except_volatile_."""
import types, z3
from vf.verify import Contract, Case
from vf.inputs import Inputs, term, same
from vf.explore import cur
from vf import logic as L
from pony import orm
from pony.orm import core

META = dict(
    level='proof',
    explanation='real Attribute.db_set / Entity._db_set_ on a real loaded object, old and new database values symbolic integers, read / write bits and volatility as configuration: '
                'a value that was observed is never silently replaced',
    trusted_base=['IntConverter.dbvals_equal is ==', 'in-memory SQLite provides the loaded object'],
    assumptions=['interleavings with concurrent committed writers (schedules) are NOT covered: only what one reload does to observed values',
                 'relationship attributes and collections: phantom rule only (Set.db_reverse_add)'],
)
_M = None


def model():
    global _M
    if _M is None:
        db = orm.Database('sqlite', ':memory:')

        class T(db.Entity):
            n = orm.Optional(int)
            m = orm.Optional(int)
            vol = orm.Optional(int, volatile=True)
            u = orm.Optional(int, unique=True)
        db.generate_mapping(create_tables=True)
        with orm.db_session:
            T(n=1, m=2, vol=3, u=4)
        _M = types.SimpleNamespace(db=db, T=T)
    return _M


def _reset():
    core.local.db2cache.clear(); core.local.db_context_counter = 0; core.local.db_session = None


def _obj(M):
    core.local.db_context_counter = 1
    o = M.T[1]
    o._rbits_ = 0; o._wbits_ = 0
    return o


def _ds_configs(tier):
    # (a volatile attribute with an unflushed own write at reload time is excluded: queries flush first, the state is not reachable through the API)
    return [dict(attr=a, read=r, written=w) for a in ('n', 'vol') for r in (False, True) for w in (False, True) if not (a == 'vol' and w)]


def _ds_case(cfg, values):
    I = Inputs(values)
    old, new = I.int('seen_dbval'), I.int('reloaded_dbval')
    M = model()

    def setup(run): _reset()
    def teardown(run):
        try: orm.rollback()
        except Exception: pass
        _reset()

    def call():
        st = cur().state
        o = _obj(M)
        attr = getattr(M.T, cfg['attr'])
        o._dbvals_[attr] = old; o._vals_[attr] = old
        own = None
        if cfg['written']:
            own = 777
            o._vals_[attr] = own; o._wbits_ |= M.T._bits_[attr]
        if cfg['read']:
            o._rbits_ |= M.T._bits_except_volatile_[attr]          # what Attribute.__get__ does for an attribute read before being written
        st.update(o=o, attr=attr, own=own, before=(dict(o._dbvals_), dict(o._vals_), o._rbits_, o._wbits_))
        try:
            attr.db_set(o, new)
        finally:
            st['after'] = (dict(o._dbvals_), dict(o._vals_), o._rbits_, o._wbits_)
        return 'installed'
    return Case(call, I.terms, I.pre, setup, teardown)


def _ds_spec(cfg, i, path):
    st = path.state; o, attr = st['o'], st['attr']
    old, new = i['seen_dbval'], i['reloaded_dbval']
    observed = cfg['read'] and cfg['attr'] != 'vol'
    differs = L.Not(L.Eq(old, new))
    after = st['after']
    if path.outcome == 'exc':
        eqv = lambda x, y: x is y or same(x, y)
        same_state = all(eqv(x, y) for x, y in zip(after[0].values(), st['before'][0].values())) and after[2:] == st['before'][2:] \
            and all(eqv(a, b) for a, b in zip(after[1].values(), st['before'][1].values()))
        return L.And(isinstance(path.value, core.UnrepeatableReadError), observed, differs, bool(same_state))
    # returned: either nothing to do (equal) or installed
    installed_db = L.Eq(term(after[0][attr]), new)
    val = after[1][attr]
    if cfg['written']: val_ok = val == st['own']                      # the session's own write survives a reload
    else: val_ok = L.Eq(term(val), new)
    return L.And(L.Or(L.Not(differs), L.Not(observed)), installed_db, val_ok)


def _row_configs(tier):
    # written_n: the session also assigned n (pending, not flushed) - after reading it or blindly; the re-fetch happens with flushing disabled (collection loads, hooks)
    # written_vol: the session assigned the VOLATILE attribute (never protected against foreign changes, but its pending write must survive the refresh like any other)
    return [dict(read_n=a, read_m=b, written_n=w, written_vol=v) for a in (False, True) for b in (False, True) for w in (False, True) for v in (False, True)]


def _row_case(cfg, values):
    I = Inputs(values)
    old_n, new_n, old_m, new_m = I.int('seen_n'), I.int('reloaded_n'), I.int('seen_m'), I.int('reloaded_m')
    M = model()

    def setup(run): _reset()
    def teardown(run):
        try: orm.rollback()
        except Exception: pass
        _reset()

    def call():
        st = cur().state
        o = _obj(M); T = M.T
        for a, v in ((T.n, old_n), (T.m, old_m)):
            o._dbvals_[a] = v; o._vals_[a] = v
        if cfg['read_n']: o._rbits_ |= T._bits_except_volatile_[T.n]
        if cfg['read_m']: o._rbits_ |= T._bits_except_volatile_[T.m]
        if cfg['written_n']:
            o._vals_[T.n] = 777; o._wbits_ |= T._bits_[T.n]; o._status_ = 'modified'
        avdict = {T.n: new_n, T.m: new_m}
        if cfg['written_vol']:
            o._dbvals_[T.vol] = 5; o._vals_[T.vol] = 888; o._wbits_ |= T._bits_[T.vol]; o._status_ = 'modified'
            avdict[T.vol] = 6                                           # the refreshed row carries another value for it
        st.update(o=o)
        try:
            o._db_set_(avdict)
        finally:
            st['vals'] = dict(o._vals_); st['dbvals'] = dict(o._dbvals_)
        return 'refreshed'
    return Case(call, I.terms, I.pre, setup, teardown)


def _row_spec(cfg, i, path):
    st = path.state; o = st['o']; T = model().T
    dn = L.Not(L.Eq(i['seen_n'], i['reloaded_n'])); dm = L.Not(L.Eq(i['seen_m'], i['reloaded_m']))
    must_fail = L.Or(L.And(cfg['read_n'], dn), L.And(cfg['read_m'], dm))
    if path.outcome == 'exc':
        # the observed value of an attribute that was read is never replaced
        V = st['vals']
        seen_n = 777 if cfg['written_n'] else i['seen_n']                      # what the program holds for n: its own pending write, if any
        kept = L.And(L.Implies(L.And(cfg['read_n'], dn), L.And(L.Eq(term(V[T.n]), seen_n), L.Eq(term(st['dbvals'][T.n]), i['seen_n']))),
                     L.Implies(L.And(cfg['read_m'], dm), L.Eq(term(V[T.m]), i['seen_m'])))
        return L.And(isinstance(path.value, core.UnrepeatableReadError), must_fail, kept)
    V, D = st['vals'], st['dbvals']
    if cfg['written_vol'] and not (V[T.vol] == 888 and D[T.vol] == 6): return False          # the volatile attribute: database value refreshed, own pending write kept
    # no conflict: the database values are refreshed (the optimistic check of the pending UPDATE will use them), the session's own pending write stays
    return L.And(L.Not(must_fail), L.Eq(term(V[T.n]), 777 if cfg['written_n'] else i['reloaded_n']), L.Eq(term(V[T.m]), i['reloaded_m']),
                 L.Eq(term(D[T.n]), i['reloaded_n']), L.Eq(term(D[T.m]), i['reloaded_m']))


def _bits_case(cfg, values):
    M = model()
    return Case(lambda: (dict((a.name, b) for a, b in M.T._bits_.items()), dict((a.name, b) for a, b in M.T._bits_except_volatile_.items())), {}, [])


def _bits_spec(cfg, i, path):
    if path.outcome != 'ret': return False
    bits, nov = path.value
    col_attrs = ['n', 'm', 'vol', 'u']
    distinct = len({bits[a] for a in col_attrs}) == 4 and all(bits[a] and (bits[a] & (bits[a] - 1)) == 0 for a in col_attrs)
    return distinct and nov['vol'] == 0 and all(nov[a] == bits[a] for a in ('n', 'm', 'u')) and bits['id'] == 0


def _get_configs(tier):
    return [dict(attr=a, written_first=w) for a in ('n', 'vol') for w in (False, True)]


def _get_case(cfg, values):
    M = model()

    def setup(run): _reset()
    def teardown(run):
        try: orm.rollback()
        except Exception: pass
        _reset()

    def call():
        o = _obj(M); attr = getattr(M.T, cfg['attr'])
        if cfg['written_first']: setattr(o, cfg['attr'], 55)
        r0 = o._rbits_
        v = getattr(o, cfg['attr'])
        return r0, o._rbits_, M.T._bits_[attr], v
    return Case(call, {}, [], setup, teardown)


def _get_spec(cfg, i, path):
    """reading sets the read bit exactly for a non-volatile attribute the session has not written itself"""
    if path.outcome != 'ret': return False
    r0, r1, bit, v = path.value
    want = (not cfg['written_first']) and cfg['attr'] != 'vol'
    return (r1 & bit == bit) == want and (r1 & ~bit) == (r0 & ~bit)


# ------------------------------------------------------------------ a collection that was observed is not silently changed by a reload (bounded, end to end)
_RM = None


def rmodel():
    global _RM
    if _RM is None:
        db = orm.Database('sqlite', ':memory:')

        class Parent(db.Entity):
            children = orm.Set('Child')
            tags = orm.Set('Tag')

        class Child(db.Entity):
            parent = orm.Optional(Parent)
            v = orm.Optional(int)

        class Tag(db.Entity):
            parents = orm.Set(Parent)
        db.generate_mapping(create_tables=True)
        _RM = types.SimpleNamespace(db=db, Parent=Parent, Child=Child, Tag=Tag)
    return _RM


OBSERVE = {
    'iterate': lambda p: sorted(c.id for c in p.children),
    'len_then_iterate': lambda p: (len(p.children), sorted(c.id for c in p.children))[1],
    'bool_then_iterate': lambda p: (bool(p.children), sorted(c.id for c in p.children))[1],
    'copy': lambda p: sorted(c.id for c in p.children.copy()),
    'prefetched_then_iterate': lambda p: (rmodel().Child.select()[:], sorted(c.id for c in p.children))[1],
    'add_then_iterate': lambda p: (p.children.add(rmodel().Child[4]), sorted(c.id for c in p.children))[1],
}
CHANGES = {
    'moved_to_other_parent': "update Child set parent = 2 where id = 2",
    'detached': "update Child set parent = null where id = 2",
    'moved_in': "update Child set parent = 1 where id = 3",
    'value_only': "update Child set v = 99 where id = 2",
}


def _cr_configs(tier):
    return [dict(observe=o, change=c) for o in OBSERVE for c in CHANGES]


def _cr_case(cfg, values):
    M = rmodel()

    def setup(run): _reset()
    def teardown(run):
        try: orm.rollback()
        except Exception: pass
        _reset()

    def call():
        with orm.db_session:
            for t in ('Child', 'Parent'): M.db.execute('delete from "%s"' % t)
            M.db.execute("insert into Parent(id) values (1), (2)")
            M.db.execute("insert into Child(id, parent, v) values (1, 1, 0), (2, 1, 0), (3, 2, 0), (4, null, 0)")
        with orm.db_session:
            p = M.Parent[1]
            first = OBSERVE[cfg['observe']](p)
            orm.flush()
            M.db.execute(CHANGES[cfg['change']])                  # a change committed by somebody else, as this session's next reload will see it
            try:
                M.Child.select()[:]                               # every child row is loaded again
                for c in list(M.Child.select()): c.parent
                second = sorted(c.id for c in p.children)
                outcome = 'same' if second == first else 'changed silently: %s -> %s' % (first, second)
            except core.UnrepeatableReadError:
                outcome = 'error'
            orm.rollback()
            return outcome
    return Case(call, {}, [], setup, teardown)


def _cr_spec(cfg, i, path):
    if path.outcome != 'ret': return False
    if cfg['change'] == 'value_only': return path.value == 'same'
    return path.value in ('same', 'error')


# ------------------------------------------------------------------ the same for a many-to-many collection, reloaded through either end and through prefetch()
M2M_OBSERVE = {
    'iterate': lambda M, p: sorted(t.id for t in p.tags),
    'len_then_iterate': lambda M, p: (len(p.tags), sorted(t.id for t in p.tags))[1],
    'copy': lambda M, p: sorted(t.id for t in p.tags.copy()),
    'through the other end': lambda M, p: sorted(t.id for t in M.Tag.select() if p in t.parents),
    'prefetched': lambda M, p: (M.Parent.select().prefetch(M.Parent.tags)[:], sorted(t.id for t in p.tags))[1],
}
M2M_CHANGES = {
    'link added': 'insert into Parent_Tag(parent, tag) values (1, 3)',
    'link removed': 'delete from Parent_Tag where parent = 1 and tag = 2',
    'link replaced': 'update Parent_Tag set tag = 3 where parent = 1 and tag = 2',
    'a link of another parent added': 'insert into Parent_Tag(parent, tag) values (2, 1)',
    'nothing': 'select 1',
}
M2M_RELOADS = {
    'prefetch of the collection': lambda M, p: M.Parent.select().prefetch(M.Parent.tags)[:],
    'prefetch of the other end': lambda M, p: M.Tag.select().prefetch(M.Tag.parents)[:],
    'the other end read tag by tag': lambda M, p: [list(t.parents) for t in M.Tag.select().order_by(M.Tag.id)],
    'load()': lambda M, p: p.tags.load(),
    'query over the link table': lambda M, p: orm.select((x, t) for x in M.Parent for t in x.tags)[:],
    'prefetch of one object': lambda M, p: M.Parent.select(lambda x: x.id == 1).prefetch(M.Parent.tags)[:],
}


def _m2_configs(tier):
    return [dict(observe=o, change=c, reload=r) for o in M2M_OBSERVE for c in M2M_CHANGES for r in M2M_RELOADS]


def _m2_case(cfg, values):
    M = rmodel()

    def setup(run): _reset()
    def teardown(run):
        try: orm.rollback()
        except Exception: pass
        _reset()

    def call():
        with orm.db_session:
            for t in ('Parent_Tag', 'Child', 'Parent', 'Tag'): M.db.execute('delete from "%s"' % t)
            M.db.execute("insert into Parent(id) values (1), (2)"); M.db.execute("insert into Tag(id) values (1), (2), (3)")
            M.db.execute("insert into Parent_Tag(parent, tag) values (1, 1), (1, 2), (2, 3)")
        with orm.db_session:
            p = M.Parent[1]
            first = M2M_OBSERVE[cfg['observe']](M, p)
            if first != [1, 2]: return 'the first read is wrong: %r' % (first,)
            M.db.execute(M2M_CHANGES[cfg['change']])              # a change committed by somebody else, as this session's next reload will see it
            try:
                M2M_RELOADS[cfg['reload']](M, p)
                # the same observation again; and, where the collection itself was read, its members and what the other end says about them
                again = sorted(t.id for t in M.Tag.select() if p in t.parents) if cfg['observe'] == 'through the other end' else sorted(t.id for t in p.tags)
                if again != first: outcome = 'changed silently: %s -> %s' % (first, again)
                elif cfg['observe'] != 'through the other end' and sorted(t.id for t in M.Tag.select() if p in t.parents) != first: outcome = 'the other end now disagrees with the members read: %s' % (first,)
                else: outcome = 'same'
            except core.UnrepeatableReadError:
                outcome = 'error'
            orm.rollback()
            return outcome
    return Case(call, {}, [], setup, teardown)


def _m2_spec(cfg, i, path):
    if path.outcome != 'ret': return False
    if cfg['change'] == 'nothing': return path.value == 'same'
    return path.value in ('same', 'error')          # (a link of ANOTHER parent may be reported too: the prefetch observed every parent's collection)


# ------------------------------------------------------------------ an observed attribute value is never silently replaced (bounded, end to end)
_AM = None


def amodel():
    global _AM
    if _AM is None:
        db = orm.Database('sqlite', ':memory:')

        class Thing(db.Entity):
            id = orm.PrimaryKey(int)
            qty = orm.Optional(int)
            flag = orm.Optional(bool)
            note = orm.Optional(str)
            ratio = orm.Optional(float)
            name = orm.Optional(str, nullable=True)
            vol = orm.Optional(int, volatile=True)
        db.generate_mapping(create_tables=True)
        _AM = types.SimpleNamespace(db=db, Thing=Thing)
    return _AM


VALUES = {'ordinary': dict(qty=5, flag=True, note='text', ratio=1.5, name='nm'), 'boundary': dict(qty=0, flag=False, note='', ratio=0.0, name=''),
          'missing': dict(qty=None, flag=None, note='', ratio=None, name=None)}
FOREIGN = dict(qty=7, flag=1, note='changed', ratio=2.5, name='other')                      # what somebody else commits meanwhile
HOW_KNOWN = ('loaded by key', 'loaded by a query', 'loaded, read, then another attribute saved', 'loaded, read, then another attribute saved and committed', 'created, read, then flushed', 'created, read, then flushed by a query', 'modified, read, then flushed', 'created and flushed', 'created, flushed by a query', 'created and committed', 'modified and flushed', 'loaded then read through to_dict')
REREAD = ('attribute again', 'after the row is selected again', 'after load()', 'after a query that returns the object')


def _av_configs(tier):
    return [dict(values=v, known=k, attr=a, reread=r) for v in VALUES for k in HOW_KNOWN for a in FOREIGN for r in REREAD]


def _av_case(cfg, values):
    M = amodel()

    def setup(run): _reset()
    def teardown(run):
        try: orm.rollback()
        except Exception: pass
        _reset()

    def call():
        T = M.Thing; vals = VALUES[cfg['values']]; attr = cfg['attr']; known = cfg['known']
        with orm.db_session:
            M.db.execute('delete from Thing')
            if not known.startswith('created'): T(id=1, vol=1, **vals)
            T(id=2)
        with orm.db_session:
            if known == 'loaded by key': o = T[1]
            elif known == 'loaded by a query': o = T.select(lambda t: t.id == 1).first()
            elif known.startswith('loaded, read, then another attribute saved'):
                o = T[1]; early = getattr(o, attr)
                other = 'qty' if attr != 'qty' else 'ratio'
                setattr(o, other, 41 if other == 'qty' else 4.5)                        # the session's own UPDATE of ANOTHER attribute must not make it forget what it has seen
                if known.endswith('committed'): orm.commit()
                else: orm.flush()
            elif known == 'created, read, then flushed': o = T(id=1, vol=1, **vals); early = getattr(o, attr); orm.flush()
            elif known == 'created, read, then flushed by a query': o = T(id=1, vol=1, **vals); early = getattr(o, attr); T.select().count()
            elif known == 'modified, read, then flushed':
                o = T[1]
                for k, v in vals.items(): setattr(o, k, v)
                early = getattr(o, attr); orm.flush()
            elif known == 'created and flushed': o = T(id=1, vol=1, **vals); orm.flush()
            elif known == 'created, flushed by a query': o = T(id=1, vol=1, **vals); T.select().count()
            elif known == 'created and committed': o = T(id=1, vol=1, **vals); orm.commit()
            elif known == 'modified and flushed':
                o = T[1]
                for k, v in vals.items(): setattr(o, k, v)
                o.vol = 2; orm.flush()
            else: o = T[1]
            if 'read, then' in known: first = early                                                # the value was OBSERVED before the flush; nothing reads it in between
            else: first = o.to_dict()[attr] if known.endswith('to_dict') else getattr(o, attr)      # the value is OBSERVED
            if first != vals[attr]: return 'the first read is already wrong: %r' % (first,)
            if known in ('created and flushed', 'created, flushed by a query', 'modified and flushed') or True:
                M.db.execute('update Thing set %s = $v where id = 1' % attr, {'v': FOREIGN[attr]})          # somebody else's committed change, as the next reload sees it
            try:
                r = cfg['reread']
                if r == 'after the row is selected again': T.select()[:]
                elif r == 'after load()': o.load()
                elif r == 'after a query that returns the object': list(orm.select(t for t in T if t.id >= 1))
                second = getattr(o, attr)
            except core.UnrepeatableReadError:
                second = 'error'
            orm.rollback()
            if second == 'error' or second == first: return 'ok'
            return 'silently changed: %r -> %r' % (first, second)
    return Case(call, {}, [], setup, teardown)


def _av_spec(cfg, i, path):
    return path.outcome == 'ret' and path.value == 'ok'


# ------------------------------------------------------------------ EntityMeta._set_rbits: attributes a query USED become observed, for every object of the result, by that object's own class
_RB_BITS = {'Base': {'a': 1, 'b': 2, 'vol': 0}, 'Sub': {'a': 1, 'b': 2, 'vol': 0, 'c': 4, 'd': 8}, 'Sub2': {'a': 1, 'b': 2, 'vol': 0, 'e': 4}}       # bit layouts differ between sibling subclasses
_RB_USED = (('a',), ('c',), ('a', 'c'), ('b', 'e', 'vol'), ('c', 'd', 'e'), ('not an attribute of any class',))


def _rb_configs(tier):
    import itertools
    out = []
    for n in (1, 2, 3):
        for classes in itertools.product(('Base', 'Sub', 'Sub2'), repeat=n):
            for used in _RB_USED:
                for written in ('nothing written', 'first object wrote a', 'last object wrote c or e', 'first object is being created'):
                    out.append(dict(classes=' '.join(classes), used=' '.join(used), written=written))
    return out


def _rb_case(cfg, values):
    def call():
        K = {n: type(n, (object,), {'_bits_except_volatile_': dict(b)}) for n, b in _RB_BITS.items()}
        objs = []
        names = cfg['classes'].split()
        for k, n in enumerate(names):
            o = K[n](); o._rbits_ = 0; o._wbits_ = 0
            if cfg['written'] == 'first object wrote a' and k == 0: o._wbits_ = 1
            if cfg['written'] == 'last object wrote c or e' and k == len(names) - 1: o._wbits_ = 4; o._rbits_ = 2
            if cfg['written'] == 'first object is being created' and k == 0: o._wbits_ = None
            objs.append(o)
        before = [(o._rbits_, o._wbits_) for o in objs]
        core.EntityMeta._set_rbits(K['Base'], objs, tuple(cfg['used'].split(' ')) if cfg['used'] != 'not an attribute of any class' else ('zzz',))
        return before, [(type(o).__name__, o._rbits_, o._wbits_) for o in objs]
    return Case(call, {}, [])


def _rb_spec(cfg, i, path):
    if path.outcome != 'ret': return False
    before, after = path.value
    used = cfg['used'].split(' ')
    for (r0, w0), (cname, r1, w1) in zip(before, after):
        if w1 != w0: return False
        if w0 is None:
            if r1 != r0: return False
            continue
        want = r0 | (sum(_RB_BITS[cname].get(a, 0) for a in used) & ~w0)          # the bits of the object's OWN class, minus what the session wrote itself
        if r1 != want: return False
    return True


CONTRACTS = [
    Contract('Attribute.db_set', 'pony.orm.core:Attribute.db_set', _ds_configs, _ds_case,
             [('observed_value_replaced_only_by_equal_value_else_error', _ds_spec)], allowed_exc=(core.UnrepeatableReadError,), replay=False),
    Contract('Entity._db_set_', 'pony.orm.core:Entity._db_set_', _row_configs, _row_case,
             [('row_refresh_never_replaces_an_observed_value', _row_spec)], allowed_exc=(core.UnrepeatableReadError,), replay=False),
    Contract('EntityMeta._initialize_bits_', 'pony.orm.core:EntityMeta._initialize_bits_', [dict()], _bits_case, [('volatile_attributes_have_no_repeatable_read_bit', _bits_spec)]),
    Contract('EntityMeta._set_rbits', 'pony.orm.core:EntityMeta._set_rbits', _rb_configs, _rb_case, [('used_attributes_become_observed_by_the_objects_own_class', _rb_spec)], level='bounded',
             bound='results of 1..3 objects over 3 classes of one hierarchy (sibling subclasses with different bit layouts) x 6 sets of used attributes x 4 write states'),
    Contract('Attribute.__get__', 'pony.orm.core:Attribute.__get__', _get_configs, _get_case, [('read_bit_set_iff_not_written_and_not_volatile', _get_spec)]),
    Contract('observed_collection', ['pony.orm.core:Set.copy', 'pony.orm.core:Set.load', 'pony.orm.core:SetInstance.__len__', 'pony.orm.core:Set.db_reverse_add',
                                     'pony.orm.core:Set.db_reverse_remove', 'pony.orm.core:Attribute.db_set'], _cr_configs, _cr_case,
             [('a_reload_never_changes_an_observed_collection_silently', _cr_spec)], level='bounded',
             bound='one one-to-many collection; 6 ways of observing it (however it became loaded), 4 foreign changes seen by the next reload'),
    Contract('observed_m2m_collection', ['pony.orm.core:Set.prefetch_load_all', 'pony.orm.core:Set.load', 'pony.orm.core:Set.db_reverse_add', 'pony.orm.core:SetInstance.__iter__',
                                         'pony.orm.core:SetInstance.__contains__'], _m2_configs, _m2_case, [('observed_members_never_change_silently', _m2_spec)], level='bounded',
             bound='one many-to-many collection of 2 members; 5 ways of observing x 5 foreign changes of the link table x 6 ways of reloading (prefetch of either end, load, the other end tag by tag, a join)'),
    Contract('observed_attribute', ['pony.orm.core:Attribute.__get__', 'pony.orm.core:Entity._db_set_', 'pony.orm.core:Entity._update_dbvals_', 'pony.orm.core:Entity._save_created_',
                                    'pony.orm.core:Entity._save_updated_', 'pony.orm.core:Entity.load', 'pony.orm.core:Attribute.load'], _av_configs, _av_case,
             [('a_later_read_returns_the_observed_value_or_fails', _av_spec)], level='bounded',
             bound='5 attribute types x ordinary / boundary (0, False, empty) / missing values x 12 ways the object became known (loaded, created, modified; flushed, committed) x 4 ways of reading again after a foreign change'),
]
