"""C04 (bounded part): outer-scope expressions inside a query are evaluated as Python would evaluate them in the caller's scope.

Queries on real in-memory SQLite whose conditions / results mention names from the enclosing scopes in every way Python offers - module globals, function locals, closure cells of one
and two enclosing functions, a local shadowing a global, names rebound between two runs of the SAME code object (the translation is cached, the values are not), attribute chains, method
calls, subscripts, builtins, default arguments, conditional expressions of outer names - written as generator, lambda and query string (which reads the caller's frame). The rows must be
those of evaluating the outer expression in Python first and comparing with the stored values."""
import types
from vf.verify import Case
from vf.explore import cur
from pony import orm
from pony.orm import core

BOUND = 'one entity, ~45 ways of mentioning outer-scope values (globals, locals, closures, shadowing, rebinding between runs, attributes, calls, subscripts, builtins, strings, lambdas)'
_M = None
G1 = 2                      # a module global
GOBJ = types.SimpleNamespace(v=3, inner=types.SimpleNamespace(w=4), lst=[1, 5], d={'k': 2})
def gfun(x): return x + 1
from contracts.c04_frames_lib import *          # functions and generators made in ANOTHER module (whose global G1 is 4), handed to query methods from here

class _Rejected(list):
    pass


REJECTED = _Rejected()


def model():
    global _M
    if _M is None:
        db = orm.Database('sqlite', ':memory:')

        class X(db.Entity):
            p = orm.Required(int)
            s = orm.Optional(str)
            ys = orm.Set('Y')

        class Y(db.Entity):
            v = orm.Required(int)
            x = orm.Required(X)
        db.generate_mapping(create_tables=True)
        with orm.db_session:
            for i in range(8):
                x = X(p=i, s='s%d' % i)
                for v in (i, 2 * i, 10 - i): Y(v=v, x=x)
        _M = types.SimpleNamespace(db=db, X=X, Y=Y)
    return _M


def scenarios():
    M = model(); X = M.X
    out = []
    def add(name, thunk, want): out.append((name, thunk, want))
    def ps(q):
        if isinstance(q, _Rejected): return q
        return sorted(x.p for x in q)
    def sel(*a, **k):
        """orm.select, with 'a query pony cannot translate raises an error' reported as the marker REJECTED (allowed by the property)"""
        try: return orm.select(*a, **k)
        except (core.TranslationError, NotImplementedError) as e: return REJECTED
        except Exception as e:
            if type(e).__name__ == 'DecompileError': return REJECTED
            raise
    # globals
    add('global name', lambda: ps(orm.select(x for x in X if x.p == G1)), [2])
    add('global attribute chain', lambda: ps(orm.select(x for x in X if x.p == GOBJ.inner.w)), [4])
    add('global call', lambda: ps(orm.select(x for x in X if x.p == gfun(G1))), [3])
    add('global subscript and dict', lambda: ps(orm.select(x for x in X if x.p in (GOBJ.lst[1], GOBJ.d['k']))), [2, 5])
    add('builtins on outer values', lambda: ps(orm.select(x for x in X if x.p == len(GOBJ.lst) + max(GOBJ.lst) - abs(-1))), [6])
    # locals
    def local_case():
        a = 5; b = [6, 7]
        return ps(orm.select(x for x in X if x.p == a or x.p in b))
    add('function locals', local_case, [5, 6, 7])
    def shadow_case():
        G1 = 7                                          # a local that shadows the module global
        return ps(orm.select(x for x in X if x.p == G1))
    add('local shadows global', shadow_case, [7])
    def lambda_local():
        a = 1
        return ps(X.select(lambda x: x.p == a + G1))
    add('lambda: local + global', lambda_local, [3])
    def string_query():
        a = 4
        return ps(orm.select('x for x in X if x.p == a + G1', {'X': X, 'a': a, 'G1': G1})) , ps(X.select('lambda x: x.p == a'))
    add('query strings read the caller frame', string_query, ([6], [4]))
    # closures
    def outer(a):
        def inner():
            return ps(orm.select(x for x in X if x.p == a))
        return inner
    add('closure cell (one level)', outer(3), [3])
    def outer2(a):
        def mid(b):
            def inner(c=1):
                return ps(orm.select(x for x in X if x.p == a + b + c))
            return inner
        return mid
    add('closure cells (two levels) and a default argument', outer2(1)(2), [4])
    def closure_lambda(a):
        return lambda: ps(X.select(lambda x: x.p == a * 2))
    add('lambda inside a closure', closure_lambda(3), [6])
    # an ARGUMENT (or loop variable) captured by a nested generator, next to free variables of the enclosing function: cells and free variables share one index space
    def py(f): return sorted(x.p for x in X.select()[:] if f(x))
    def nested_capture(k):
        lam = lambda x: orm.count(y for y in x.ys if y.v > x.p + k) > 0
        return ps(X.select(lam)), py(lambda x: len([y for y in x.ys if y.v > x.p + k]) > 0)
    add('lambda argument captured by a nested generator, one free variable', lambda: nested_capture(6), 'PAIR')
    def nested_capture_two(k, m):
        other = X.get(p=7)                               # an outer object that has the same attributes as the argument
        lam = lambda x: orm.count(y for y in x.ys if y.v >= m) > 0 and x.p < k and other.p == 7
        return ps(X.select(lam)), py(lambda x: len([y for y in x.ys if y.v >= m]) > 0 and x.p < k and other.p == 7)
    add('lambda argument captured by a nested generator, three free variables', lambda: nested_capture_two(6, 9), 'PAIR')
    def nested_capture_gen(k):
        return ps(orm.select(x for x in X if orm.count(y for y in x.ys if y.v == x.p + k) > 0)), py(lambda x: len([y for y in x.ys if y.v == x.p + k]) > 0)
    add('loop variable captured by a nested generator, one free variable', lambda: nested_capture_gen(2), 'PAIR')
    def nested_capture_deep(k):
        def inner(m):
            lam = lambda x: orm.count(y for y in x.ys if y.v > k and orm.count(z for z in y.x.ys if z.v < m + x.p) > 1) > 0
            return ps(X.select(lam)), py(lambda x: len([y for y in x.ys if y.v > k and len([z for z in y.x.ys if z.v < m + x.p]) > 1]) > 0)
        return inner(4)
    add('two nested generators, free variables of two enclosing functions', lambda: nested_capture_deep(8), 'PAIR')
    # collections as outer values of `in` / `not in`: lists, sets, ranges, query results and ITERATORS over query results (an iterator stands for the items it has not handed out yet)
    def collections_case():
        ids = [x.p for x in X.select().order_by(X.p)]
        qr = orm.select(x.p for x in X if x.p < 5).order_by(1)[:]                 # 0..4
        fresh = iter(orm.select(x.p for x in X if x.p < 5).order_by(1)[:])
        adv = iter(orm.select(x.p for x in X if x.p < 5).order_by(1)[:]); next(adv); next(adv)       # 2, 3, 4 remain
        done = iter(orm.select(x.p for x in X if x.p < 3).order_by(1)[:]); list(done)                # nothing remains
        adv_q = iter(orm.select(x.p for x in X if x.p < 5).order_by(1)); next(adv_q)                 # an iterator over the query itself: 1..4 remain
        objs = iter(X.select(lambda x: x.p < 4).order_by(X.p)[:]); next(objs)                        # objects 1, 2, 3 remain
        lst = [1, 6]; st = {2, 7}; rng = range(3, 6); tup = (0, 7)
        return (ps(orm.select(x for x in X if x.p in lst)), ps(orm.select(x for x in X if x.p in st)), ps(orm.select(x for x in X if x.p in rng)), ps(orm.select(x for x in X if x.p not in tup)),
                ps(orm.select(x for x in X if x.p in qr)), ps(orm.select(x for x in X if x.p in fresh)), ps(orm.select(x for x in X if x.p in adv)), ps(orm.select(x for x in X if x.p not in adv)),
                ps(sel(x for x in X if x.p in done)), ps(sel(x for x in X if x.p in adv_q)), ps(orm.select(x for x in X if x in objs)), ps(orm.select(x for x in X if x not in objs)))
    add('collections and iterators with in / not in', collections_case, ([1, 6], [2, 7], [3, 4, 5], [1, 2, 3, 4, 5, 6], [0, 1, 2, 3, 4], [0, 1, 2, 3, 4], [2, 3, 4], [0, 1, 5, 6, 7], [], [1, 2, 3, 4], [1, 2, 3], [0, 4, 5, 6, 7]))
    # rebinding between runs of the same code object: the translation is cached, the value must not be
    def rerun():
        res = []
        for a in (1, 2, 5, 2):
            res.append(ps(orm.select(x for x in X if x.p == a)))
        return res
    add('same code object, local rebound between runs', rerun, [[1], [2], [5], [2]])
    def rerun_closure():
        res = []
        for a in (1, 4):
            f = (lambda a: (lambda: ps(orm.select(x for x in X if x.p == a))))(a)
            res.append(f())
        return res
    add('same code object, different closure cells', rerun_closure, [[1], [4]])
    def rerun_type_change():
        res = []
        for a in (1, '1', 2.0, None, (1, 2)):
            try:
                if isinstance(a, tuple): res.append(ps(orm.select(x for x in X if x.p in a)))
                elif a is None: res.append(ps(orm.select(x for x in X if x.p == a)))
                elif isinstance(a, str): res.append(ps(orm.select(x for x in X if x.s == 's' + a)))
                else: res.append(ps(orm.select(x for x in X if x.p == a)))
            except core.TranslationError as e: res.append('rejected')
        return res
    add('outer value changes its type between runs', rerun_type_change, [[1], [1], [2], [], [1, 2]])
    def rerun_none_and_list():
        res = []
        for a in ([1, 2], [], [3], [4, 5, 6]):
            res.append(ps(orm.select(x for x in X if x.p in a)))
        return res
    add('outer list of changing length', rerun_none_and_list, [[1, 2], [], [3], [4, 5, 6]])
    # expressions of outer names only
    def outer_exprs():
        a, b, c = 1, 0, 5
        return (ps(sel(x for x in X if x.p == (a if b else c))), ps(sel(x for x in X if x.p == (a + c) * 1 - b)), ps(sel(x for x in X if x.p == -a + c)),
                ps(sel(x for x in X if x.p == [a, c][1])), ps(sel(x for x in X if x.p == int('%d' % c))), ps(sel(x for x in X if x.s == 's%d' % a)),
                ps(sel(x for x in X if x.s == f's{c}')), ps(sel(x for x in X if x.p == (a, c)[b])), ps(sel(x for x in X if x.p == (c - a) // 2 ** a)),
                ps(sel(x for x in X if x.p == (c if not b and a else 0))))
    add('expressions built from outer names only', outer_exprs, ([5], [6], [4], [5], [5], [1], [5], [1], [2], [5]))
    def fstring_fields():
        t = '0'; n = 3; w = 4
        res = sel(f'{x.s}{t!r}' for x in X if x.p < 2)
        return (ps(sel(x for x in X if x.s == f's{t!r}')), ps(sel(x for x in X if x.s + "'0'" == f'{x.s}{t!r}' and x.p < 2)), ps(sel(x for x in X if x.s == f's{n:>1}')),
                ps(sel(x for x in X if x.s == f's{n:<{w}}'.strip())), res if isinstance(res, _Rejected) else sorted(res), ps(sel(x for x in X if x.s == 's' + f'{n:{1}}')),
                ps(sel(x for x in X if x.s == f's{t!a}' or x.s == f'{"s"!s}{n}')))
    add('replacement fields of f-strings with conversions and format specs', fstring_fields, ([], [0, 1], [3], [3], ["s0'0'", "s1'0'"], [3], [3]))
    def wrapped_same_code():
        f = lambda a: (lambda x: x.p != a)              # ONE code object as a filter of an inner query and again of the query built over it
        inner = X.select().filter(f(1))
        return ps(orm.select(x for x in inner).filter(f(2))), ps(orm.select(x for x in X.select().filter(f(0)).filter(f(1))).filter(f(2)).filter(f(3)))
    add('one code object filters an inner query and the query built over it', wrapped_same_code, ([0, 3, 4, 5, 6, 7], [4, 5, 6, 7]))
    def outer_objects():
        o = types.SimpleNamespace(v=2, f=lambda k: k * 3, items=[types.SimpleNamespace(z=7)])
        return (ps(orm.select(x for x in X if x.p == o.v)), ps(orm.select(x for x in X if x.p == o.f(2))), ps(orm.select(x for x in X if x.p == o.items[0].z)),
                ps(orm.select(x for x in X if x.p == getattr(o, 'v') + 1)))
    add('attributes, methods and subscripts of outer objects', outer_objects, ([2], [6], [7], [3]))
    def result_side():
        a = 10
        return sorted(orm.select((x.p, x.p + a) for x in X if x.p < 2)), sorted(orm.select(x.p * a for x in X if x.p < 2))
    add('outer values in the result expression', result_side, ([(0, 10), (1, 11)], [0, 10]))
    def entity_param():
        with_obj = X.get(p=3)
        return ps(orm.select(x for x in X if x == with_obj)), ps(orm.select(x for x in X if x.id == with_obj.id)), ps(orm.select(x for x in X if x in [with_obj, X.get(p=5)]))
    add('entity instances as outer values', entity_param, ([3], [3], [3, 5]))
    def filter_chain():
        a = 1
        q = X.select(lambda x: x.p > a)
        a = 5                                           # rebound AFTER the query was built: the value at build time counts
        q2 = q.filter(lambda x: x.p < a)
        return ps(q2)
    add('filter chain captures values when each part is built', filter_chain, [2, 3, 4])
    def chain_same_code():
        f = lambda a: (lambda x: x.p != a)              # ONE code object applied twice in a chain, with different closure values
        g = lambda a: (lambda x: x.p != a + 4)
        return ps(X.select().filter(f(1)).filter(f(2))), ps(X.select(g(1)).where(f(0)).filter(g(2)).filter(f(7)))
    add('one code object used twice in a filter chain', chain_same_code, ([0, 3, 4, 5, 6, 7], [1, 2, 3, 4]))
    def nested_generator():
        lim = 2
        inner = orm.select(y.p for y in X if y.p < lim)
        return ps(orm.select(x for x in X if x.p in inner)), ps(orm.select(x for x in X if x.p in (y.p for y in X if y.p > 7 - lim)))
    add('outer values inside subqueries', nested_generator, ([0, 1], [6, 7]))
    # the loop variable of a NESTED generator has the name of a variable of the calling frame, which the enclosing query uses AFTER (and between) the nested generators:
    # outside the nested generator the name means the caller's value again
    def shadowed_after_nested():
        y = 3
        a = ps(orm.select(x for x in X if x.p in (y.p for y in X if y.p < 5) and x.p == y))
        b = ps(orm.select(x for x in X if orm.exists(y for y in x.ys if y.v >= 0) and x.p < y))
        c = ps(orm.select(x for x in X if x.p in (y.p for y in X if y.p < 2) or x.p == y or x.p in (y.p + 7 for y in X if y.p == 0)))
        d = ps(orm.select(x for x in X if x.p == y and x.p in (y.p for y in X)))                      # (used before the nested generator)
        return a, b, c, d, (py(lambda x: x.p < 5 and x.p == 3), py(lambda x: len([w for w in x.ys if w.v >= 0]) > 0 and x.p < 3), py(lambda x: x.p < 2 or x.p == 3 or x.p == 7), [3])
    add('a nested loop variable named like an outer variable that is used after the nested generator', shadowed_after_nested, 'QUAD')
    # a function / generator object made elsewhere: its names mean what they mean where it was written, whatever the frame that hands it to the query method calls its own variables
    def foreign(kind):
        def user():
            G1 = 6; a = 7; len = lambda s: 5; x = 1                       # unrelated locals of the calling frame, same names
            if kind == 'select': return ps(X.select(make_closure_lambda(3))), ps(X.select(make_global_lambda())), ps(X.select(make_builtin_lambda()))
            if kind == 'filter': return ps(X.select().filter(make_closure_lambda(3))), ps(X.select().filter(make_global_lambda())), ps(X.select().filter(make_builtin_lambda()))
            if kind == 'where': return ps(orm.select(x for x in X).where(make_closure_lambda(3))), ps(orm.select(x for x in X).where(make_global_lambda())), ps(orm.select(x for x in X).where(make_builtin_lambda()))
            if kind == 'order_by':
                return ([y.p for y in X.select().order_by(make_closure_order(3))][-1:], [y.p for y in X.select().order_by(make_global_order())][-1:],
                        [y.p for y in X.select().order_by(make_builtin_order())][-1:])
            if kind == 'get_exists':
                return [X.get(make_closure_lambda(3)).p], [X.get(make_global_lambda()).p], [X.exists(make_closure_lambda(9)), X.exists(make_global_lambda()), X.exists(make_builtin_lambda())]
            if kind == 'generator': return ps(orm.select(make_closure_generator(X, 3))), ps(orm.select(make_global_generator(X))), [orm.count(make_global_generator(X))]
        return user
    for kind in ('select', 'filter', 'where', 'order_by', 'get_exists'):
        add('function object made elsewhere: ' + kind, foreign(kind), ([3], [4], [3]) if kind != 'get_exists' else ([3], [4], [False, True, True]))
    add('generator object made elsewhere', foreign('generator'), ([7], [4], [1]))
    def inlined_helper():
        G1 = 6
        return ps(sel(x for x in X if helper_plus(x) == 5)), ps(X.select(lambda x: helper_plus(x) == 5 + G1 - 6))
    add('helper function inlined into the query reads its own globals', inlined_helper, ([1], [1]))
    return out


def configs(tier):
    return [dict(scenario=n) for n, t, w in scenarios()]


def case(cfg, values):
    def reset():
        try: orm.rollback()
        except Exception: pass
        core.local.db2cache.clear(); core.local.db_context_counter = 0; core.local.db_session = None

    def call():
        name, thunk, want = [s for s in scenarios() if s[0] == cfg['scenario']][0]
        with orm.db_session:
            got = thunk()
            got2 = thunk()                                # a second run with warm caches must agree
        def same(g, w):
            if isinstance(g, _Rejected): return True
            if isinstance(w, (list, tuple)) and isinstance(g, (list, tuple)): return len(g) == len(w) and all(same(a, b) for a, b in zip(g, w))
            return g == w
        if want == 'QUAD':                                # the scenario returns four query results and, last, the tuple of what CPython selects for the same four conditions
            ok4 = tuple(got[:4]) == tuple(got[4]) and tuple(got2[:4]) == tuple(got2[4]) and all(got[4])
            return [] if ok4 else [('queries: %r / %r' % (got[:4], got2[:4]), 'python: %r' % (got[4],))]
        if want == 'PAIR':                                # the scenario returns (rows of the query, rows chosen by CPython evaluating the same expression on the loaded objects)
            if not (isinstance(got, tuple) and len(got) == 2 and got[1] and len(got[1]) < 8): return [('the scenario does not discriminate', repr(got))]
            return [] if same(got[0], got[1]) and same(got2[0], got2[1]) else [('query: %r / %r' % (got[0], got2[0]), 'python: %r' % (got[1],))]
        return [] if same(got, want) and same(got2, want) else [('query: %r / %r' % (got, got2), 'python: %r' % (want,))]
    return Case(call, {}, [], lambda run: reset(), lambda run: reset())


def spec(cfg, i, path):
    return path.outcome == 'ret' and path.value == []
