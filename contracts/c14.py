"""C14 Primary and unique keys are never silently duplicated (DESIGN 4-C14).

In-session half (PROOF, shared with C11): the session's key indexes are maps with arbitrary symbolic content; the real index functions and the identity map
raise when a key is occupied by another object and change nothing, so each key value maps to at most one object.
Flush half (PROOF): Entity._save_created_ with a symbolic auto-generated id and an arbitrary index: an id already used by another object raises
TransactionIntegrityError and the index is unchanged; IntegrityError from the database is reported as TransactionIntegrityError, never swallowed, and the
object is not marked inserted. That the exception then rolls the session back is C18 / C17.
End to end (BOUNDED): enumerated conflict scenarios on a real SQLite database with the generated schema: an error is raised at the change or at the
flush, no two committed rows share a key, and a flush-time conflict leaves the database as it was before the session."""
import itertools, types, z3
from vf.verify import Contract, Case
from vf.inputs import Inputs, term, same
from vf.explore import cur, choose
from vf.effects import Patch
from vf.proxy import SymDict, ObjUniverse, SRef, ABSENT
from vf import logic as L
from pony import orm
from pony.orm import core
from contracts import c11

META = dict(
    level='proof',
    explanation='key indexes as z3 arrays with arbitrary content, all paths of the real index functions, identity map and _save_created_ (symbolic new id): an occupied key '
                'raises and changes nothing; database IntegrityError surfaces as TransactionIntegrityError; plus bounded end-to-end conflict scenarios on real SQLite',
    trusted_base=['SymDict dict semantics (as C11)', 'the database enforces the PRIMARY KEY / UNIQUE constraints of the generated schema (checked for SQLite in the bounded scenarios only)'],
    assumptions=['"no SEQUENCE of operations": the induction over histories is not claimed, each operation preserves the at-most-one-object-per-key invariant (C11)',
                 'rollback after the error: C18 / C17 contracts'],
)
K = c11.K


def _pick(ids):
    out = []
    for c in c11.CONTRACTS:
        if c.id in ids: out.append(c)
    assert len(out) == len(ids)
    return out


# ------------------------------------------------------------------ Entity._save_created_
_M = None


def model():
    global _M
    if _M is None:
        db = orm.Database('sqlite', ':memory:')

        class T(db.Entity):
            x = orm.Optional(int)

        class E(db.Entity):
            id = orm.PrimaryKey(int)
            x = orm.Optional(int)
        db.generate_mapping(create_tables=True)
        _M = types.SimpleNamespace(db=db, T=T, E=E)
    return _M


class Cursor(object):
    rowcount = 1


def _sc_configs(tier):
    return [dict(auto_pk=a, db=d) for a in (True, False) for d in ('ok', 'IntegrityError', 'DatabaseError')]


def _sc_case(cfg, values):
    I = Inputs(values)
    new_id = I.int('new_id')
    M0 = z3.Array('M0', z3.IntSort(), z3.IntSort())
    M = model()

    def setup(run):
        core.local.db2cache.clear(); core.local.db_context_counter = 0; core.local.db_session = None
        run.state['patch'] = Patch()

    def teardown(run):
        run.state['patch'].restore()
        core.local.db2cache.clear(); core.local.db_context_counter = 0; core.local.db_session = None

    def call():
        st = cur().state
        core.local.db_context_counter = 1
        cache = M.db._get_cache()
        other = object.__new__(M.T); other._pkval_ = 0; other._status_ = 'loaded'; other._session_cache_ = cache; other._vals_ = {}; other._dbvals_ = {}
        ent = M.T if cfg['auto_pk'] else M.E
        obj = ent(x=1) if cfg['auto_pk'] else ent(id=5, x=1)
        st['n_calls'] = 0

        def _exec_sql(db, sql, arguments=None, returning_id=False, start_transaction=False):
            st['n_calls'] += 1
            st['returning_id'] = returning_id; st['start_transaction'] = start_transaction
            if cfg['db'] == 'IntegrityError': raise core.IntegrityError('UNIQUE constraint failed')
            if cfg['db'] == 'DatabaseError': raise core.DatabaseError('boom')
            return new_id if returning_id else Cursor()
        st['patch'].set(core.Database, '_exec_sql', _exec_sql)
        U = ObjUniverse([other]); U.open = True
        if cfg['auto_pk']:
            d = SymDict(M0, 1, U, 'M')
            cache.indexes[ent._pk_attrs_] = d
            st['d'] = d
        st.update(obj=obj, other=other, U=U, cache=cache)
        try:
            obj._save_created_()
        finally:
            st['status'] = obj._status_; st['pkval'] = obj._pkval_
        return 'saved'
    inputs = dict(I.terms); inputs['M0'] = M0
    return Case(call, inputs, list(I.pre), setup, teardown)


def _sc_spec(cfg, i, path):
    st = path.state; M0 = i['M0']; nid = i['new_id']
    if st['n_calls'] != 1 or not st['start_transaction'] or st['returning_id'] != cfg['auto_pk']: return False
    unchanged = z3.Select(st['d'].arr, K) == z3.Select(M0, K) if cfg['auto_pk'] else True
    not_inserted = st['status'] == 'created'
    if cfg['db'] == 'IntegrityError':
        return L.And(path.outcome == 'exc' and isinstance(path.value, core.TransactionIntegrityError) and not_inserted, unchanged)
    if cfg['db'] == 'DatabaseError':
        return L.And(path.outcome == 'exc' and isinstance(path.value, core.UnexpectedError) and not_inserted, unchanged)
    if not cfg['auto_pk']:
        return path.outcome == 'ret' and st['status'] == 'inserted' and st['pkval'] == 5
    occupied = z3.Select(M0, nid) != ABSENT
    if path.outcome == 'exc':
        # the database handed out an id that the session already uses for another object: reported, nothing registered
        return L.And(isinstance(path.value, core.TransactionIntegrityError) and not_inserted, occupied, unchanged)
    code = st['U'].code_of(st['obj'])
    if code is None: return False
    M = st['d'].arr
    return L.And(L.Not(occupied), z3.Select(M, nid) == code, z3.Implies(K != nid, z3.Select(M, K) == z3.Select(M0, K)),
                 st['status'] == 'inserted', same(st['pkval'], nid))


# ------------------------------------------------------------------ end to end on real SQLite (bounded)
def _e2e_configs(tier):
    out = []
    for key in ('pk', 'unique', 'composite'):
        for existing in ('in_db_only', 'loaded', 'created_in_session'):
            for via in ('create', 'modify'):
                if key == 'pk' and via == 'modify': continue
                out.append(dict(key=key, existing=existing, via=via, caught=False, shape='flat'))
                if existing == 'in_db_only': out.append(dict(key=key, existing=existing, via=via, caught=True, shape='flat'))
                # the same keys, covered once more by indexes that a SUBCLASS declares (they are created after the single-column unique index)
                if existing == 'in_db_only': out.append(dict(key=key, existing=existing, via=via, caught=False, shape='subclass indexes over the keys'))
                # the first write of the session is a DELETE that the program flushes alone (obj.flush()): it belongs to the same transaction as what follows
                if existing == 'in_db_only': out.append(dict(key=key, existing=existing, via=via, caught=False, shape='flat', first_write='a delete flushed by obj.flush()'))
    return out


def _e2e_case(cfg, values):
    def setup(run):
        core.local.db2cache.clear(); core.local.db_context_counter = 0; core.local.db_session = None

    def teardown(run):
        try: orm.rollback()
        except Exception: pass
        core.local.db2cache.clear(); core.local.db_context_counter = 0; core.local.db_session = None

    def call():
        st = cur().state
        db = orm.Database('sqlite', ':memory:')

        class U(db.Entity):
            id = orm.PrimaryKey(int)
            name = orm.Optional(str, unique=True, nullable=True)
            a = orm.Optional(int)
            b = orm.Optional(int)
            orm.composite_key(a, b)
            marker = orm.Optional(int)
        if cfg['shape'] != 'flat':
            class V(U):
                c = orm.Optional(int)
                orm.composite_index(c, 'name'); orm.composite_key(c, 'marker'); orm.composite_index(c, 'a')
        db.generate_mapping(create_tables=True)
        with orm.db_session:
            U(id=1, name='n1', a=1, b=1); U(id=2, name='n2', a=2, b=2); U(id=5, name='n5', a=5, b=5)
        rows = lambda: sorted(db.provider.pool.con.execute('select id, name, a, b, marker from U').fetchall())
        st['before'] = rows()
        st['raised_at'] = None
        conflict = dict(pk=dict(id=1, name='zz', a=9, b=9), unique=dict(id=7, name='n1', a=9, b=9), composite=dict(id=7, name='zz', a=1, b=1))[cfg['key']]
        try:
            with orm.db_session:
                if cfg['existing'] == 'loaded': U[1].name
                elif cfg['existing'] == 'created_in_session':
                    U(id=3, name='n3', a=3, b=3)
                    conflict = dict(pk=dict(id=3, name='zz', a=9, b=9), unique=dict(id=7, name='n3', a=9, b=9), composite=dict(id=7, name='zz', a=3, b=3))[cfg['key']]
                if cfg.get('first_write'):
                    d = U[5]; d.delete(); d.flush()                 # sent on its own, before anything else was written
                U[2].marker = 42                                    # a harmless write of the same session
                if cfg['caught']: orm.flush()                       # ... already flushed successfully when the conflict is found
                try:
                    if cfg['via'] == 'create': U(**conflict)
                    else:
                        o = U[2]
                        if cfg['key'] == 'unique': o.name = conflict['name']
                        else: o.a, o.b = conflict['a'], conflict['b']
                    if cfg['caught']: orm.flush()
                except (core.CacheIndexError,) as e:
                    st['raised_at'] = ('change', type(e).__name__)
                    raise
                except (core.TransactionIntegrityError, core.IntegrityError) as e:
                    # the application catches the flush-time conflict and lets the session end normally: nothing of the session may be committed
                    st['raised_at'] = ('flush', type(e).__name__)
        except BaseException as e:
            if type(e).__name__ in ('Concretization', 'Unsupported'): raise
            if st['raised_at'] is None: st['raised_at'] = ('flush', type(e).__name__)
        st['after'] = rows()
        return 'done'
    return Case(call, {}, [], setup, teardown)


def _e2e_spec(cfg, i, path):
    if path.outcome != 'ret': return False
    st = path.state
    after = st['after']
    if st['raised_at'] is None: return False                                         # the conflict was reported
    where, exc = st['raised_at']
    if where == 'change' and exc != 'CacheIndexError': return False
    if where == 'flush' and exc not in ('TransactionIntegrityError', 'IntegrityError', 'CommitException'): return False    # (an UPDATE conflict surfaces as the provider's IntegrityError)
    ids = [r[0] for r in after]; names = [r[1] for r in after if r[1] is not None]; abs_ = [(r[2], r[3]) for r in after if r[2] is not None and r[3] is not None]
    if len(ids) != len(set(ids)) or len(names) != len(set(names)) or len(abs_) != len(set(abs_)): return False     # no duplicates committed
    return after == st['before']                                                     # and the session left the database unchanged


CONTRACTS = _pick(['simple_index', 'composite_index', '_get_from_identity_map_']) + [
    Contract('Entity._save_created_', 'pony.orm.core:Entity._save_created_', _sc_configs, _sc_case,
             [('integrity_errors_reported_and_used_id_never_overwrites_another_object', _sc_spec)],
             allowed_exc=(core.TransactionIntegrityError, core.UnexpectedError), replay=False),
    Contract('conflict_scenarios', ['pony.orm.core:Entity.__init__', 'pony.orm.core:Attribute.__set__', 'pony.orm.core:SessionCache.flush', 'pony.orm.core:Database.generate_mapping'],
             _e2e_configs, _e2e_case, [('conflict_reported_no_duplicate_committed_database_unchanged', _e2e_spec)], level='bounded',
             bound='one entity with int pk, unique str, composite (int, int); the conflicting row only in the database / loaded / created in the session; conflict by create or modify; the flush-time error propagating or caught by the application after an earlier successful flush'),
]
