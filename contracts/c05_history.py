"""C05 (bounded part): warm caches give the answers of cold caches over whole histories.

The per-call key-soundness contracts of c05.py say nothing about sequences. Here the real code runs histories of statements (queries written as generators, lambdas, lambda
texts, raw SQL, keyword lookups, aggregates; parameters rebound to other values and other types; in-session modifications, flush, commit, rollback; entity hooks that run
queries while a flush is in progress; results that the program sorts / reverses / shuffles in place) on a fresh in-memory SQLite database, twice:
  warm - every process, database and session cache is emptied once, then the history runs;
  cold - the same history on an identical fresh database with every cache (process level: decompiled trees, extractors, lambda texts, adapted / parsed raw SQL; database
         level: translators, constructed SQL; session level: query results) emptied before EACH statement.
The two traces of observations must be equal. Emptying a cache is always allowed (they are caches), so the cold run is the oracle."""
import itertools, random, types, datetime, decimal
from vf.verify import Case
from pony import orm
from pony.orm import core, asttranslation, decompiling
from pony.utils import utils as putils

BOUND_Q = 'one model (Item with query-running hooks, Tag); all histories of <= 2 statements and triples around 12 core statements, out of 62 statement kinds'
BOUND_T = 'all histories of <= 3 statements out of 62 statement kinds'


def build():
    db = orm.Database('sqlite', ':memory:')

    class Item(db.Entity):
        name = orm.Required(str)
        p = orm.Required(int)
        pos = orm.Optional(int)
        seen = orm.Optional(str)
        ts = orm.Optional(datetime.datetime)
        tags = orm.Set('Tag')
        def before_insert(self):
            self.pos = Item.select().count()                       # a query run by a hook, while the flush is in progress
        def before_update(self):
            self.seen = ','.join(names_of(Item))

    class Tag(db.Entity):
        label = orm.Required(str)
        items = orm.Set(Item)
    db.generate_mapping(create_tables=True)
    with orm.db_session:
        t = [Tag(label='t%d' % i) for i in range(2)]
        for i in range(5): Item(name='n%d' % i, p=i, tags=t[:i % 3], ts=datetime.datetime(2020, 1, 1 + i, 12))
    return types.SimpleNamespace(db=db, Item=Item, Tag=Tag)


# ---- statements. Statements that must share a cache entry share the code object (a module-level function / lambda / text) ----
def names_of(Item): return orm.select(i.name for i in Item).order_by(1)[:]
LAM = lambda i: i.p > 2
LAM_TEXT = 'lambda i: i.p > 1'
def _by_param(Item, a): return sorted(i.name for i in orm.select(i for i in Item if i.p == a))
def _by_in(Item, a): return sorted(i.name for i in orm.select(i for i in Item if i.p in a))
def _by_name(Item, a): return sorted(i.p for i in orm.select(i for i in Item if i.name == a))
def _getattr_q(Item, attr): return sorted(orm.select(getattr(i, attr) for i in Item))
def _getattr_sub(Item, attr): return sorted(orm.select(v for v in orm.select(getattr(i, attr) for i in Item)))
def _ordered(Item): return orm.select(i.p for i in Item).order_by(-1)
def _limit(Item, n): return list(orm.select(i.p for i in Item).order_by(1)[:n])
def _raw(M, a): return sorted(M.db.select('name from Item where p > $a'))
def _raw_obj(M, a): return sorted(i.name for i in M.Item.select_by_sql('select * from Item where p < $a'))
def _rawfrag(Item, a): return sorted(orm.select(i.name for i in Item if orm.raw_sql('i.p = $a')))
def _rawfrag_ts(Item, v): return sorted(orm.select(i.name for i in Item if orm.raw_sql('i.ts = $v')))          # ONE fragment text, parameters of several Python types
def _rawfrag_ge(Item, v): return sorted(orm.select(i.name for i in Item if orm.raw_sql('i.ts >= $v')))
def _rawfilter_ts(Item, v): return sorted(i.name for i in Item.select().filter(orm.raw_sql('i.ts = $v')))
def _rawresult(Item, k): return sorted(orm.select(orm.raw_sql('i.p + $k') for i in Item))

def _base_tags(Item): return orm.select(t for i in Item for t in i.tags)          # the result (Tag t) is not the loop variable i (Item): filter() binds the lambda argument to the result, where() to the loop variable of that name
LAM_ID = lambda i: i.id < 2
LAM_ID_TEXT = 'lambda i: i.id < 2 '

S = {}
def st(name):
    def deco(f): S[name] = f; return f
    return deco

st('names')(lambda M: names_of(M.Item))
st('count')(lambda M: M.Item.select().count())
st('count_generator')(lambda M: orm.count(i for i in M.Item))
st('sum_max')(lambda M: (orm.sum(i.p for i in M.Item), orm.max(i.p for i in M.Item)))
st('select_lambda')(lambda M: sorted(i.name for i in M.Item.select(LAM)))
st('filter_lambda')(lambda M: sorted(i.name for i in M.Item.select().filter(LAM)))
st('where_lambda')(lambda M: sorted(i.name for i in orm.select(i for i in M.Item).where(LAM)))
st('order_by_lambda')(lambda M: [i.name for i in M.Item.select().order_by(LAM, M.Item.id)])
st('exists_lambda')(lambda M: M.Item.exists(LAM))
st('get_lambda')(lambda M: getattr(M.Item.get(lambda i: i.p == 4), 'name', None))
st('select_text')(lambda M: sorted(i.name for i in M.Item.select(LAM_TEXT)))
st('filter_text')(lambda M: sorted(i.name for i in M.Item.select().filter(LAM_TEXT)))
st('filter_binds_the_result')(lambda M: sorted(t.label for t in _base_tags(M.Item).filter(LAM_ID)))
st('where_binds_the_loop_variable')(lambda M: sorted(t.label for t in _base_tags(M.Item).where(LAM_ID)))
st('filter_text_binds_the_result')(lambda M: sorted(t.label for t in _base_tags(M.Item).filter(LAM_ID_TEXT)))
st('where_text_binds_the_loop_variable')(lambda M: sorted(t.label for t in _base_tags(M.Item).where(LAM_ID_TEXT)))
st('param_1')(lambda M: _by_param(M.Item, 1))
st('param_3')(lambda M: _by_param(M.Item, 3))
st('param_float')(lambda M: _by_param(M.Item, 3.0))
st('param_none')(lambda M: _by_param(M.Item, None))
st('in_list_2')(lambda M: _by_in(M.Item, [1, 2]))
st('in_list_3')(lambda M: _by_in(M.Item, [0, 3, 4]))
st('in_list_0')(lambda M: _by_in(M.Item, []))
st('name_param')(lambda M: _by_name(M.Item, 'n2'))
st('name_param_other')(lambda M: _by_name(M.Item, 'new'))
st('getattr_p')(lambda M: _getattr_q(M.Item, 'p'))
st('getattr_name')(lambda M: _getattr_q(M.Item, 'name'))
st('getattr_sub_p')(lambda M: _getattr_sub(M.Item, 'p'))
st('getattr_sub_name')(lambda M: _getattr_sub(M.Item, 'name'))
st('ordered')(lambda M: list(_ordered(M.Item)))
st('ordered_then_reverse_in_place')(lambda M: (lambda r: (r.reverse(), list(r))[1])(_ordered(M.Item)[:]))
st('ordered_then_sort_in_place')(lambda M: (lambda r: (r.sort(key=lambda v: v % 2), list(r))[1])(_ordered(M.Item)[:]))
st('ordered_then_shuffle_in_place')(lambda M: (lambda r: (r.shuffle(), sorted(r))[1])(_ordered(M.Item)[:]))
st('limit_2')(lambda M: _limit(M.Item, 2))
st('limit_4')(lambda M: _limit(M.Item, 4))
st('kw_get')(lambda M: getattr(M.Item.get(name='n1'), 'p', None))
st('kw_select')(lambda M: sorted(i.name for i in M.Item.select(p=2)))
st('raw_sql_1')(lambda M: _raw(M, 1))
st('raw_sql_3')(lambda M: _raw(M, 3))
st('select_by_sql')(lambda M: _raw_obj(M, 2))
st('raw_fragment_1')(lambda M: _rawfrag(M.Item, 1))
st('raw_fragment_4')(lambda M: _rawfrag(M.Item, 4))
st('raw_fragment_decimal')(lambda M: _rawfrag(M.Item, decimal.Decimal('1')))
st('raw_fragment_ts_text')(lambda M: _rawfrag_ts(M.Item, '2020-01-02 12:00:00.000000'))
st('raw_fragment_ts_datetime')(lambda M: _rawfrag_ts(M.Item, datetime.datetime(2020, 1, 2, 12)))
st('raw_fragment_ge_date')(lambda M: _rawfrag_ge(M.Item, datetime.date(2020, 1, 3)))
st('raw_fragment_ge_datetime')(lambda M: _rawfrag_ge(M.Item, datetime.datetime(2020, 1, 3, 12)))
st('raw_filter_ts_text')(lambda M: _rawfilter_ts(M.Item, '2020-01-03 12:00:00.000000'))
st('raw_filter_ts_datetime')(lambda M: _rawfilter_ts(M.Item, datetime.datetime(2020, 1, 3, 12)))
st('raw_result_int')(lambda M: _rawresult(M.Item, 1))
st('raw_result_float')(lambda M: _rawresult(M.Item, 0.5))
st('collection')(lambda M: sorted((t.label, sorted(i.name for i in t.items)) for t in M.Tag.select()))
st('collection_query')(lambda M: sorted(orm.select((t.label, orm.count(t.items)) for t in M.Tag)))
# modifications
st('add')(lambda M: M.Item(name='new', p=3) and None)
st('add_and_flush')(lambda M: (M.Item(name='new', p=1), orm.flush()) and None)
st('rename')(lambda M: setattr(M.Item.get(name='n2'), 'name', 'zz'))
st('change_p')(lambda M: setattr(M.Item.get(name='n0'), 'p', 4))
st('delete')(lambda M: M.Item.get(name='n4').delete())
st('untag')(lambda M: M.Tag.get(label='t0').items.clear())
st('flush')(lambda M: orm.flush())
st('commit')(lambda M: orm.commit())
st('rollback')(lambda M: orm.rollback())

QUERIES = [n for n in S if n not in ('add', 'add_and_flush', 'rename', 'change_p', 'delete', 'untag', 'flush', 'commit', 'rollback')]
MODS = [n for n in S if n not in QUERIES]
CORE = ['names', 'count', 'select_lambda', 'filter_lambda', 'param_1', 'ordered', 'ordered_then_reverse_in_place', 'add', 'rename', 'flush', 'commit', 'raw_sql_1', 'raw_fragment_ts_datetime']


def histories(tier):
    names = list(S)
    out = [(a,) for a in QUERIES] + [h for h in itertools.product(names, repeat=2) if h[-1] in QUERIES]
    if tier == 'thorough':
        out += [h for h in itertools.product(names, repeat=3) if h[-1] in QUERIES]
    else:
        out += [h for h in itertools.product(names, repeat=3) if h[-1] in QUERIES and sum(x in CORE for x in h) >= 2 and h[-1] in CORE]
        out += [(a, m, a) for a in QUERIES for m in MODS] + [(a, m, 'flush', a) for a in QUERIES for m in MODS]
    return list(dict.fromkeys(out))


def configs(tier):
    hs = histories(tier)
    n = 64 if tier == 'thorough' else 16
    return [dict(chunk=k, of=n, tier=tier) for k in range(n)]


def _clear_process_caches():
    asttranslation.extractors_cache.clear(); decompiling.ast_cache.clear(); core.string2ast_cache.clear(); core.adapted_sql_cache.clear()
    putils.lambda_args_cache.clear()
    rc = getattr(core, 'raw_sql_cache', None)
    if rc is not None: rc.clear()


def _clear_all(M):
    _clear_process_caches()
    M.db._translator_cache.clear(); M.db._constructed_sql_cache.clear()
    cache = core.local.db2cache.get(M.db)
    if cache is not None and cache.query_results is not None: cache.query_results.clear()


def _reset():
    try: orm.rollback()
    except Exception: pass
    core.local.db2cache.clear(); core.local.db_context_counter = 0; core.local.db_session = None


def run(history, cold):
    _reset(); random.seed(7)
    M = build()
    _clear_all(M)
    trace = []
    try:
        with orm.db_session:
            for name in history:
                if cold: _clear_all(M)
                try: trace.append((name, S[name](M)))
                except Exception as e:
                    trace.append((name, 'raises ' + type(e).__name__)); break
            orm.rollback()
    except Exception as e:
        trace.append(('end of session', 'raises ' + type(e).__name__))
    finally:
        _reset()
        M.db.disconnect()
    return trace


def _chunk(args):
    tier, k, n = args
    hs = histories(tier)[k::n]
    bad = []
    for h in hs:
        warm = run(h, cold=False); cold = run(h, cold=True)
        if warm != cold:
            j = next((j for j, (a, b) in enumerate(zip(warm, cold)) if a != b), min(len(warm), len(cold)))
            bad.append((' ; '.join(h), 'warm: %r' % (warm[j:j + 1],), 'cold: %r' % (cold[j:j + 1],)))
            if len(bad) >= 5: break
    return bad if hs else ['no histories']


_RESULTS = {}


def _all_chunks(tier, n):
    """the chunks are independent native runs: they are computed once, in parallel worker processes, and each configuration reads its own"""
    if (tier, n) not in _RESULTS:
        import multiprocessing, os
        with multiprocessing.get_context('fork').Pool(min(n, os.cpu_count() or 1)) as pool:
            _RESULTS[tier, n] = pool.map(_chunk, [(tier, k, n) for k in range(n)], chunksize=1)
    return _RESULTS[tier, n]


def case(cfg, values):
    def call():
        import sys
        if sys.argv and 'replay' in ' '.join(sys.argv[:1]): return _chunk((cfg['tier'], cfg['chunk'], cfg['of']))     # python -m vf.replay: only this chunk
        return _all_chunks(cfg['tier'], cfg['of'])[cfg['chunk']]
    return Case(call, {}, [], lambda run_: _reset(), lambda run_: _reset())


def spec(cfg, i, path):
    return path.outcome == 'ret' and path.value == []
