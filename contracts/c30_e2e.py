"""C30 (bounded part): raw SQL through every entry point, end to end on real SQLite.

db.select / get / exists / execute, Entity.select_by_sql / get_by_sql and raw_sql() fragments inside queries (condition, result, filter(), order_by()) with $-expressions of every
shape (local, global, closure, attribute, call, subscript, parenthesised arithmetic, the same expression twice, several in order, next to ordinary query parameters), values of
several Python types through ONE statement text, $$ , % and quotes in the text. Every statement has a hand-written expected answer; every ORDERED PAIR of statements is run in one
process state (caches emptied before the pair only): the second answer must not depend on the first."""
import datetime, decimal, types
from vf.verify import Case
from pony import orm
from pony.orm import core

BOUND = '49 raw SQL statements (7 entry points, 12 shapes of $-expression, 7 parameter types), each alone and every ordered pair'
_M = None
G_LIMIT = 2


def model():
    global _M
    if _M is None:
        db = orm.Database('sqlite', ':memory:')

        class Item(db.Entity):
            id = orm.PrimaryKey(int)
            name = orm.Required(str)
            p = orm.Required(int)
            ts = orm.Optional(datetime.datetime)
            amount = orm.Optional(decimal.Decimal, precision=10, scale=2)
            note = orm.Optional(str)
        db.generate_mapping(create_tables=True)
        with orm.db_session:
            for i in range(6):
                Item(id=i + 1, name='n%d' % i, p=i, ts=datetime.datetime(2020, 1, 1 + i, 12), amount=decimal.Decimal('%d.50' % i), note=["plain", "100%", "it's", "a$b", "%s", ""][i])
        _M = types.SimpleNamespace(db=db, T=Item)
    return _M


def _ids(rows): return sorted(r if isinstance(r, int) else r[0] for r in rows)


def _same_text_ts(T, v): return sorted(i.id for i in orm.select(i for i in T if orm.raw_sql('i.ts = $v')))
def _same_text_p(db, v): return _ids(db.select('id from Item where p = $v'))
def _same_text_ge(T, v): return sorted(i.id for i in T.select_by_sql('select * from Item where ts >= $v'))
def _filter_raw(T, v): return sorted(i.id for i in T.select().filter(orm.raw_sql('i.p < $v')))


def statements():
    M = model(); db, T = M.db, M.T
    ns = types.SimpleNamespace(lim=3, d={'k': 4}, lst=[0, 5], f=lambda x: x + 1)
    def closure(a):
        return lambda: (a, _ids(db.select('id from Item where p = $a')))[1]          # (the function must mention the name for Python to keep it in its closure)
    S = {}
    def add(name, thunk, want): S[name] = (thunk, want)
    # $-expression shapes (db.select evaluates them in the caller's frame)
    def local_name():
        a = 2
        return _ids(db.select('id from Item where p = $a'))
    add('local name', local_name, [3])
    add('global name', lambda: _ids(db.select('id from Item where p < $G_LIMIT')), [1, 2])
    add('closure cell', closure(4), [5])
    def attribute_and_subscript():
        o = ns
        return _ids(db.select('id from Item where p = $o.lim or p = $o.d["k"] or p = $o.lst[1]'))
    add('attribute, dict and list subscripts', attribute_and_subscript, [4, 5, 6])
    def call_and_arith():
        o = ns; a = 1
        return _ids(db.select('id from Item where p = $o.f(a) or p = $(a + 3)'))
    add('call and parenthesised arithmetic', call_and_arith, [3, 5])
    def same_twice_and_order():
        a, b, c = 1, 3, 5
        return _ids(db.select('id from Item where (p = $a or p = $c) and p <> $b and p >= $a'))
    add('several expressions, one of them twice', same_twice_and_order, [2, 6])
    def semicolon_terminated():
        a = 2
        return _ids(db.select('id from Item where p = $a;'))
    add('expression followed by a semicolon', semicolon_terminated, [3])
    # string literals INSIDE a $-expression: quotes and brackets in them belong to the expression, the SQL text goes on after its closing bracket
    def strings_inside_expressions():
        o = types.SimpleNamespace(up=lambda t: t.upper(), d={"it's": 2, 'a)b': 3, 'x"y': 4}, same=lambda t: t)
        name = 'shadow'; p = -1                           # caller variables named like columns: SQL text swallowed into an expression would be evaluated in Python
        return (_ids(db.select('''id from Item where note = $o.same("it's") and name <> 'x' ''')), _ids(db.select('''id from Item where p = $o.d["it's"] or note = 'it''s' ''')),
                _ids(db.select('''id from Item where p = $o.d['a)b'] and (p > 0 or name > 'n')''')), _ids(db.select('''id from Item where p = $(o.d['x"y']) and note <> "plain"''')),
                _ids(db.select('''id from Item where upper(note) = $o.up("it's") and (p >= 2 or name > 'Y')''')), _ids(db.select('''id from Item where note = $o.same("a$b") or note = $o.same('100%')''')),
                [i.id for i in T.select_by_sql('''select * from Item where note = $o.same("it's (really)") or p = $(o.d["it's"] + 1) order by id''')],
                sorted(i.id for i in T.select().filter(orm.raw_sql('''i.note = $o.same("it's") or i.p = $o.d["a)b"]'''))))
    add('quotes and brackets inside the strings of $-expressions', strings_inside_expressions, ([3], [3], [4], [5], [3], [2, 4], [4], [3, 4]))
    # text passed through
    add('$$ is a single $', lambda: _ids(db.select("id from Item where note = 'a$$b'")), [4])
    add('% and quotes in the text', lambda: _ids(db.select("id from Item where note like '100%' or note = 'it''s' or note = '%s'")), [2, 3, 5])
    def percent_with_params():
        a = 'n%'
        return _ids(db.select("id from Item where name like $a and note not like '%\\%%' escape '\\'"))
    add('% in the text next to a parameter', percent_with_params, [1, 3, 4, 6])
    def dollar_value():
        v = 'a$b'
        return _ids(db.select('id from Item where note = $v'))
    add('a value that contains $', dollar_value, [4])
    def quote_value():
        v = "it's"; w = '100%'
        return _ids(db.select('id from Item where note = $v or note = $w'))
    add('values with a quote and a percent sign', quote_value, [2, 3])
    # one statement text, parameter values of several types
    add('one text: int', lambda: _same_text_p(db, 3), [4])
    add('one text: numeric string', lambda: _same_text_p(db, '3'), _PROBE)              # (the answer is the engine's type affinity: only order independence is checked)
    add('one text: float', lambda: _same_text_p(db, 3.0), [4])
    add('one text: bool', lambda: _same_text_p(db, True), [2])
    add('one text: None', lambda: _same_text_p(db, None), [])
    add('fragment one text p: int', lambda: _fragment_p(T, 1), [2])
    add('fragment one text p: Decimal', lambda: _fragment_p(T, decimal.Decimal('1')), _PROBE)          # (how the engine compares it is not Pony's business: order independence only)
    add('fragment one text p: float', lambda: _fragment_p(T, 1.0), [2])
    add('fragment one text p: other int', lambda: _fragment_p(T, 3), [4])
    add('fragment one text: datetime', lambda: _same_text_ts(T, datetime.datetime(2020, 1, 2, 12)), [2])
    add('fragment one text: datetime text', lambda: _same_text_ts(T, '2020-01-02 12:00:00.000000'), [2])
    add('fragment one text: other datetime', lambda: _same_text_ts(T, datetime.datetime(2020, 1, 5, 12)), [5])
    add('select_by_sql one text: date', lambda: _same_text_ge(T, datetime.date(2020, 1, 5)), [5, 6])
    add('select_by_sql one text: datetime', lambda: _same_text_ge(T, datetime.datetime(2020, 1, 5, 12)), [5, 6])
    add('select_by_sql one text: later datetime', lambda: _same_text_ge(T, datetime.datetime(2020, 1, 5, 13)), [6])
    add('filter(raw_sql) int', lambda: _filter_raw(T, 2), [1, 2])
    add('filter(raw_sql) float', lambda: _filter_raw(T, 2.5), [1, 2, 3])
    add('filter(raw_sql) other int', lambda: _filter_raw(T, 5), [1, 2, 3, 4, 5])
    # a statement as it is usually written: indented, starting on a new line, in either letter case - passed through as it is
    def layout_of_the_text():
        a = 2
        return (_ids(db.select('  select id from Item where p = $a')), _ids(db.select('\n    SELECT id\n    FROM Item\n    WHERE p = $a\n')), db.exists('\n  select 1 from Item where p = $a'),
                db.exists('  1 from Item where p = $(a + 100)'), db.get('\tselect name from Item where p = $a'), _ids(db.select('Select id from Item where p = $a')), _ids(db.select('  id from Item where p = $a')))
    add('leading whitespace, new lines and letter case of select', layout_of_the_text, ([3], [3], True, False, 'n2', [3], [3]))
    # entry points
    def get_exists_execute():
        a = 4
        one = db.get('name from Item where p = $a'); ex = db.exists('select 1 from Item where p = $a'); nex = db.exists('select 1 from Item where p = $(a + 10)')
        cur = db.execute('select count(*) from Item where p > $a')
        return one, ex, nex, cur.fetchone()[0]
    add('get / exists / execute', get_exists_execute, ('n4', True, False, 1))
    def by_sql():
        a = 1
        return [i.name for i in T.select_by_sql('select * from Item where p > $a and p < $(a + 3) order by id')], T.get_by_sql('select * from Item where p = $a').name
    add('select_by_sql / get_by_sql', by_sql, (['n2', 'n3'], 'n1'))
    def explicit_dicts():
        a = 100
        return _ids(db.select('id from Item where p = $a', {'a': 1})), _ids(db.select('id from Item where p = $a', {}, {'a': 2}))
    add('explicit globals / locals win over the frame', explicit_dicts, ([2], [3]))
    def explicit_dicts_by_sql():
        a = 100
        g = {'a': 1, 'only_g': 4}; l = {'a': 2, 'only_l': 5}                      # a name in both mappings means the LOCAL one, as in eval(code, globals, locals)
        return ([i.id for i in T.select_by_sql('select * from Item where p = $a', g, l)], T.get_by_sql('select * from Item where p = $a', g, l).id,
                [i.id for i in T.select_by_sql('select * from Item where p = $only_g or p = $only_l order by id', g, l)], _ids(db.select('id from Item where p = $a', g, l)),
                [i.id for i in T.select_by_sql('select * from Item where p = $a', g)])
    add('explicit globals AND locals for select_by_sql / get_by_sql', explicit_dicts_by_sql, ([3], 3, [5, 6], [3], [2]))
    # raw_sql fragments inside queries
    def fragment_with_query_params():
        a = 1; b = 4; name = 'n3'
        return sorted(i.id for i in orm.select(i for i in T if i.p > a and orm.raw_sql('i.p < $b') and i.name != name))
    add('fragment between ordinary query parameters', fragment_with_query_params, [3])
    def two_fragments():
        a = 1; b = 4
        return sorted(i.id for i in orm.select(i for i in T if orm.raw_sql('i.p > $a') and orm.raw_sql('i.p < $b') and orm.raw_sql('i.p <> $(a + 1)')))
    add('three fragments in one query', two_fragments, [4])
    def fragment_many_params():
        a = 1; b = 5; c = 3
        return sorted(i.id for i in orm.select(i for i in T if orm.raw_sql('i.p > $a and i.p < $b and i.p <> $c and i.p >= $a')))
    add('one fragment with several expressions, one of them twice', fragment_many_params, [3, 5])
    def fragment_semicolon():
        a = 2
        return sorted(i.id for i in orm.select(i for i in T if orm.raw_sql('i.p = $a;+1')))
    add('fragment: a semicolon ends the expression and is dropped', fragment_semicolon, [4])
    def fragment_twice_same_text():
        a = 2
        q = T.select().filter(orm.raw_sql('i.p >= $a'))
        a = 4
        return sorted(i.id for i in q.filter(orm.raw_sql('i.p >= $a')))
    add('one fragment text twice in a chain, the variable rebound in between', fragment_twice_same_text, [5, 6])
    def fragment_result_and_order():
        k = 10
        return list(orm.select((i.id, orm.raw_sql('i.p * $k')  ) for i in T if i.p < 2).order_by(1)), [i.id for i in T.select().order_by(orm.raw_sql('abs(i.p - $(k - 7))'), T.id)][:3]
    add('fragments as result and as ordering', fragment_result_and_order, ([(1, 0), (2, 10)], [4, 3, 5]))
    def fragment_text_with_percent():
        return sorted(i.id for i in orm.select(i for i in T if orm.raw_sql("i.note like '%s' or i.note like '100%'")))
    add('fragment text with % and no parameter', fragment_text_with_percent, [2, 3, 5])
    def fragment_dollar_dollar():
        v = 'plain'
        return sorted(i.id for i in orm.select(i for i in T if orm.raw_sql("i.note = 'a$$b' or i.note = $v")))
    add('fragment with $$ and a parameter', fragment_dollar_dollar, [1, 4])
    def where_str_lambda():
        lim = 3
        return sorted(i.id for i in T.select(lambda i: orm.raw_sql('i.p = $lim') or i.p == lim + 1))
    add('fragment inside a lambda', where_str_lambda, [4, 5])
    return S


_PROBE = object()
def _fragment_p(T, v): return sorted(i.id for i in orm.select(i for i in T if orm.raw_sql('i.p = $v')))


def configs(tier):
    names = list(statements())
    return [dict(first=a) for a in names]


def _clear():
    from pony.orm import asttranslation, decompiling
    M = model()
    asttranslation.extractors_cache.clear(); decompiling.ast_cache.clear(); core.string2ast_cache.clear(); core.adapted_sql_cache.clear()
    M.db._translator_cache.clear(); M.db._constructed_sql_cache.clear()
    from pony.orm import ormtypes
    getattr(ormtypes, 'raw_sql_cache', {}).clear()


def _reset():
    try: orm.rollback()
    except Exception: pass
    core.local.db2cache.clear(); core.local.db_context_counter = 0; core.local.db_session = None


def _run(thunk):
    try:
        with orm.db_session: return thunk()
    except Exception as e:
        return 'raises %s: %s' % (type(e).__name__, str(e)[:80])


def case(cfg, values):
    def call():
        S = statements(); bad = []
        a_thunk, a_want = S[cfg['first']]
        _clear(); got = _run(a_thunk)
        if a_want is not _PROBE and got != a_want: bad.append((cfg['first'] + ' alone', 'got %r' % (got,), 'expected %r' % (a_want,)))
        alone = {}
        for b, (b_thunk, b_want) in S.items():
            _clear(); alone[b] = _run(b_thunk)
        for b, (b_thunk, b_want) in S.items():
            _clear(); _run(a_thunk); got = _run(b_thunk)
            if got != alone[b]: bad.append(('%s ; %s' % (cfg['first'], b), 'second answer after the first: %r' % (got,), 'alone: %r' % (alone[b],)))
        return bad[:5]
    return Case(call, {}, [], lambda r: _reset(), lambda r: _reset())


def spec(cfg, i, path):
    return path.outcome == 'ret' and path.value == []
