"""C31 Serialised objects: distinct composite keys are encoded distinctly (DESIGN 4-C31). Key encoding only; to_dict contents and
pickling round trips depend on session state and are not covered."""
import z3
from vf.verify import Contract, Case
from vf.proxy import SymStr
from vf import strhom as SH, logic as L
from pony.orm import serialization as ser

from contracts import c31_entity as EN

META = dict(
    level='proof',
    explanation='Bag._reduce_composite_pk run on symbolic strings yields enc(a) , enc(b) , ... with one replace chain; the local decoding conditions against the '
                'reference decoder ("**" -> "*", "*," -> ",", bare "," separates) are discharged by z3 and lifted to all strings by lean/StrHom.lean '
                '(decodes_enc / enc_injective\'): tuples of equal arity with different parts have different encodings',
    trusted_base=['lean/StrHom.lean', 'str.replace with a one-character needle is char-wise', 'str(x) of a key part is an arbitrary string'],
    assumptions=['to_dict()/to_json() contents and pickling round trips are NOT covered (session-state dependent)', 'tuple arity 2..4 (shape of the key, concrete)'],
)
OTHER = 'other'
o, d0, d1 = z3.Int('o'), z3.Int('d0'), z3.Int('d1')
PRE = [o >= 0, o != ord('*'), o != ord(','), d0 >= -1, d1 >= -1, z3.Implies(d0 == -1, d1 == -1)]


def decoder(c0, c1):
    """reference decoder of one key part: '**' -> '*', '*,' -> ',', a bare ',' or the end of the text ends the part"""
    star = L.Eq(c0, ord('*'))
    pair = L.And(star, L.Or(L.Eq(c1, ord('*')), L.Eq(c1, ord(','))))
    kind = L.ite(star, L.ite(pair, SH.CHAR, SH.ERR), L.ite(L.Or(L.Eq(c0, ord(',')), L.Eq(c0, SH.EOT)), SH.STOP, SH.CHAR))
    return kind, L.ite(star, c1, c0), L.ite(star, 2, 1)


def _case(cfg, values):
    k = cfg['arity']
    names = ['p%d' % j for j in range(k)]
    bag = object.__new__(ser.Bag)
    if values is None:
        pk = tuple(SymStr.sym(n) for n in names)
    else:
        pk = tuple(values.get(n, 'x') for n in names)
    return Case(lambda: bag._reduce_composite_pk(pk), {'o': o, 'd0': d0, 'd1': d1}, PRE)


def _parts(cfg, path):
    r = path.value
    if not isinstance(r, SymStr): return None
    k = cfg['arity']
    ps = r.pieces
    if len(ps) != 2 * k - 1: return None
    chains = []
    for j, p in enumerate(ps):
        if j % 2 == 0:
            if p[0] != 'sym' or p[1] != 'p%d' % (j // 2): return None
            chains.append(p[2])
        elif p != ('lit', ','): return None
    return chains


def _shape(cfg, i, path):
    if path.outcome != 'ret': return False
    ch = _parts(cfg, path)
    return ch is not None and all(c == ch[0] for c in ch)


def _local(c):
    def clause(cfg, i, path):
        if path.outcome != 'ret': return None
        ch = _parts(cfg, path)
        if ch is None: return None
        img = [o] if c == OTHER else [ord(x) for x in SH.apply_chain(ch[0], c)]
        return SH.local_condition(decoder, img, o if c == OTHER else ord(c), d0, d1)
    return clause


def _sep(cfg, i, path):
    if path.outcome != 'ret': return None
    k1, _, n1 = decoder(ord(','), d0)
    k2, _, n2 = decoder(SH.EOT, SH.EOT)
    return L.And(L.Eq(k1, SH.STOP), L.Eq(n1, 1), L.Eq(k2, SH.STOP))


def _replay(cfg, values, doc):
    import re
    m = re.search(r'local_decode\[(.*?)\]', doc['clause'])
    if not m: return {'reproduced': None, 'detail': 'no witness'}
    c = m.group(1); ch = chr(values['o']) if c == OTHER else c
    bag = object.__new__(ser.Bag)
    # two different keys of the same arity with the same encoding?
    k = cfg['arity']
    import itertools
    alphabet = [ch, ',', '*', 'a']
    seen = {}
    for parts in itertools.product([''.join(t) for L_ in range(3) for t in itertools.product(alphabet, repeat=L_)], repeat=min(k, 2)):
        key = tuple(parts) + ('x',) * (k - len(parts))
        e = bag._reduce_composite_pk(key)
        if e in seen and seen[e] != key:
            return {'reproduced': True, 'detail': 'keys %r and %r are both encoded as %r' % (seen[e], key, e)}
        seen[e] = key
    return {'reproduced': False, 'detail': 'no collision among %d small keys' % len(seen)}


# ------------------------------------------------------------------ Bag.to_dict: which keys are encoded as composite (real entities, ground)
_M = None


def model():
    global _M
    if _M is None:
        from pony import orm
        import types
        db = orm.Database('sqlite', ':memory:')

        class Seat(db.Entity):
            row = orm.Required(int); number = orm.Required(int)
            orm.PrimaryKey(row, number)
            booking = orm.Optional('Booking')

        class Booking(db.Entity):
            seat = orm.PrimaryKey(Seat)             # ONE key attribute, TWO raw key columns
            trip = orm.Required('Trip')

        class Trip(db.Entity):
            name = orm.Required(str)
            bookings = orm.Set(Booking)
            seats_plain = orm.Set('Plain')
            labels = orm.Set('Label')

        class Plain(db.Entity):
            trip = orm.Optional(Trip)

        class Label(db.Entity):                     # many-to-many: an entity WITH collections that is itself a member of collections
            trips = orm.Set(Trip)
        db.generate_mapping(create_tables=True)
        with orm.db_session:
            t = Trip(name='t')
            for r, n in ((1, 2), (1, 3), (4, 5)):
                Booking(seat=Seat(row=r, number=n), trip=t)
            Plain(trip=t); Plain(trip=t); Label(trips=[t]); Label(trips=[t]); Label()
        _M = types.SimpleNamespace(db=db, orm=orm)
    return _M


def _td_case(cfg, values):
    M = model()

    def call():
        with M.orm.db_session:
            t = M.db.Trip.select().first()
            objs = {'Trip': [t], 'Booking': list(M.db.Booking.select()), 'Seat': list(M.db.Seat.select()), 'Plain': list(M.db.Plain.select())}[cfg['start']]
            d = ser.to_dict(objs)
            raw = {e: sorted(o._get_raw_pkval_() for o in getattr(M.db, e).select()) for e in ('Trip', 'Booking', 'Seat', 'Plain', 'Label')}
            return dict(d), raw
    return Case(call, {}, [])


def _td_decode(key):
    if isinstance(key, str):
        parts = []; text = key
        while True:
            dec = SH.decode_concrete(lambda c0, c1: decoder(c0, c1), text, stop_kinds=(SH.STOP,))
            if dec is None: return None
            parts.append(dec[0])
            rest = dec[1]
            if rest == '' and (len(text) - len(dec[0].replace('*', '**').replace(',', '*,')) <= 1):
                break
            text = rest
            if text == '': break
        return tuple(int(x) for x in parts)
    return (key,)


def _td_keys(cfg, i, path):
    """every object of the result is reported under its own key: keys are pairwise distinct and denote the object's raw primary key"""
    if path.outcome != 'ret': return False
    d, raw = path.value
    for ename, objs in d.items():
        keys = [_td_decode(k) for k in objs]
        if None in keys or len(set(keys)) != len(keys): return False
        if not set(keys) <= set(raw[ename]): return False
    want = {'Trip': {'Trip': 1, 'Booking': 3, 'Plain': 2}, 'Booking': {'Booking': 3}, 'Seat': {'Seat': 3}, 'Plain': {'Plain': 2}}[cfg['start']]
    return all(len(d.get(e, {})) >= n for e, n in want.items())


def _td_relation_keys(cfg, i, path):
    """collection attributes list the keys of ALL related objects, distinct objects under distinct keys that denote their raw primary keys"""
    if path.outcome != 'ret': return False
    d, raw = path.value
    if cfg['start'] != 'Trip': return None
    t = list(d['Trip'].values())[0]
    bk = [_td_decode(k) for k in t['bookings']]
    pl = [_td_decode(k) for k in t['seats_plain']]
    return (None not in bk and sorted(bk) == raw['Booking'] and sorted(pl) == raw['Plain'])


# ------------------------------------------------------------------ Bag.to_dict: every object GIVEN is reported completely, in whatever order the objects are given
def _bo_configs(tier):
    import itertools
    kinds = ('Trip', 'Plain', 'Booking', 'Seat', 'Label')
    return [dict(order='+'.join(p)) for n in (2, 3) for p in itertools.permutations(kinds, n)] + [dict(order='+'.join(p)) for p in itertools.permutations(kinds, 5)][::7]


def _bo_case(cfg, values):
    M = model()

    def call():
        bad = []
        with M.orm.db_session:
            objs = []
            for kind in cfg['order'].split('+'): objs.extend(getattr(M.db, kind).select().order_by(lambda x: x))
            d = ser.to_dict(objs)
            for o in objs:
                E = type(o); pk = o._get_raw_pkval_()
                key = pk[0] if len(E._pk_columns_) == 1 else ','.join(str(x) for x in pk)          # (the keys of this model hold no separators)
                got = d.get(E.__name__, {}).get(key)
                if got is None: bad.append(('%s is not in the result' % o,)); continue
                for a in E._attrs_:
                    if a.lazy and not a.is_collection: continue
                    if a.name not in got: bad.append(('%s given, but its %s is missing' % (o, a.name), 'given order: %s' % cfg['order'])); continue
                    v = getattr(o, a.name)
                    def k(x):
                        r = x._get_raw_pkval_()
                        return r[0] if len(r) == 1 else ','.join(str(i) for i in r)
                    def k1(x):
                        r = x._get_raw_pkval_()
                        return r[0] if len(r) == 1 else r
                    want = sorted(k(x) for x in v) if a.is_collection else (None if v is None else k1(v)) if a.is_relation else v
                    if got[a.name] != want: bad.append(('%s.%s' % (o, a.name), 'reported %r' % (got[a.name],), 'current %r' % (want,)))
        return bad[:4]
    return Case(call, {}, [])


def _bo_spec(cfg, i, path):
    return path.outcome == 'ret' and path.value == []


CONTRACTS = [
    Contract('Bag.to_dict.given_objects', ['pony.orm.serialization:Bag.to_dict', 'pony.orm.serialization:Bag._process_object', 'pony.orm.serialization:Bag.put', 'pony.orm.serialization:to_dict'],
             _bo_configs, _bo_case, [('every_given_object_reported_with_all_its_attributes_and_relationship_keys', _bo_spec)], level='bounded',
             bound='the same model plus a many-to-many entity; objects of 2..3 of its 5 entities given together in every order, and of all 5 in 18 orders'),
    Contract('Bag._reduce_composite_pk', 'pony.orm.serialization:Bag._reduce_composite_pk', [dict(arity=k) for k in (2, 3, 4)], _case,
             [('parts_encoded_with_one_chain_and_joined_by_commas', _shape)] + [('local_decode[%s]' % c, _local(c)) for c in ('*', ',', OTHER)]
             + [('separator_and_end_stop_a_part', _sep)], replay=_replay,
             doc='composite key encoding is uniquely decodable, hence injective on tuples of equal arity, for all strings'),
    Contract('Bag.to_dict.keys', ['pony.orm.serialization:Bag.to_dict', 'pony.orm.serialization:Bag._process_object'],
             [dict(start=s) for s in ('Trip', 'Booking', 'Seat', 'Plain')], _td_case,
             [('objects_reported_under_distinct_keys_denoting_their_raw_pk', _td_keys), ('collection_lists_distinct_keys_of_all_related_objects', _td_relation_keys)],
             level='bounded', bound='one model: single-column key, multi-attribute composite key, single key attribute referencing a composite-key entity',
             doc='the decision "encode as composite" must follow the number of raw key columns'),
    Contract('Entity.to_dict', ['pony.orm.core:Entity.to_dict', 'pony.orm.core:EntityMeta._get_attrs_', 'pony.orm.core:Entity._get_raw_pkval_'], EN.td_configs, EN.td_case,
             [('reports_current_values_and_distinct_relationship_keys', EN.spec)], level='bounded', bound=EN.BOUND_TD),
    Contract('pickle.round_trip', ['pony.orm.core:Entity.__reduce__', 'pony.orm.core:unpickle_entity', 'pony.orm.core:QueryResult.__getstate__', 'pony.orm.core:QueryResult.__setstate__',
                                   'pony.orm.core:Entity._db_set_'], EN.pk_configs, EN.pk_case,
             [('unpickled_objects_have_equal_attribute_values', EN.spec)], level='bounded', bound=EN.BOUND_PK),
]
