"""C34 Permission checks follow the declared access rules (DESIGN 4-C34, Appendix A8) — BOUNDED: <= K rules per entity, every combination
of the per-rule predicates (groups / roles / labels satisfied, entity excluded, attribute excluded), both iteration orders of the rule set."""
import itertools, types
from vf.verify import Contract, Case
from vf.explore import cur
from vf.effects import Patch
from pony import orm
from pony.orm import core
from contracts import c34_tojson as TJ

META = dict(
    level='other',
    explanation='BOUNDED stand-in (never counted as proved): the real has_perm / can_* on real entities with <= K (2 quick, 3 thorough) access rules on the entity and <= 2 on '
                'the reverse entity, every combination of the per-rule predicates, both iteration orders of the rule collection; compared with the declarative rule '
                '"granted iff some rule of the entity is satisfied and excludes neither the entity nor the attribute, or (relationship attributes) some rule of the reverse '
                'entity is satisfied and excludes neither the reverse entity nor the reverse attribute"',
    trusted_base=['get_user_groups / get_user_roles / get_object_labels are stubs returning fixed sets; rule objects are attribute bags with real sets',
                  'the declarative rule of DESIGN 4-C34 as the meaning of "what the declared rules grant"'],
    assumptions=['Database.to_json filtering: one model with group / role / label rules, enumerated users, data shapes and include sets (c34_tojson)', 'K rules per entity'],
)
_M = None


def model():
    global _M
    if _M is None:
        db = orm.Database('sqlite', ':memory:')

        class A(db.Entity):
            p = orm.Optional(int)
            h = orm.Optional(int, hidden=True)
            b = orm.Optional('B')

        class A1(A):
            q = orm.Optional(int)

        class B(db.Entity):
            a = orm.Optional(A)
        db.generate_mapping(create_tables=True)
        with orm.db_session:
            A(p=1)
        _M = types.SimpleNamespace(db=db, A=A, B=B)
    return _M


FEATURES = ('groups_ok', 'entity_excluded', 'attr_excluded')
OBJ_FEATURES = ('groups_ok', 'roles_ok', 'labels_ok', 'entity_excluded')


def _rule(M, f, entity, attr):
    return types.SimpleNamespace(groups={'g'} if f.get('groups_ok', True) else {'g', 'missing'}, roles={'r'} if f.get('roles_ok', True) else {'r', 'missing'},
                                 labels={'l'} if f.get('labels_ok', True) else {'l', 'missing'},
                                 entities_to_exclude={entity} if f.get('entity_excluded') else set(),
                                 attrs_to_exclude={attr} if (attr is not None and f.get('attr_excluded')) else set())


def _combos(names, k):
    one = [dict(zip(names, bits)) for bits in itertools.product((True, False), repeat=len(names))]
    return itertools.product(one, repeat=k)


def _hp_configs(tier):
    K = 2 if tier == 'quick' else 3
    out = []
    for target in ('entity', 'attr_plain', 'attr_hidden', 'attr_relation', 'object'):
        feats = OBJ_FEATURES if target == 'object' else FEATURES
        for k in range(0, K + 1):
            for fwd in _combos(feats, k):
                revs = [()]
                if target == 'attr_relation':
                    revs = [r for rk in range(0, 3) for r in _combos(FEATURES, rk)]
                for rev in revs:
                    for order in (('fwd',) if k < 2 else ('fwd', 'rev')):
                        out.append(dict(target=target, rules=tuple(tuple(sorted(f.items())) for f in fwd),
                                        reverse_rules=tuple(tuple(sorted(f.items())) for f in rev), order=order))
    return out


def _hp_case(cfg, values):
    M = model()

    def setup(run):
        core.local.db2cache.clear(); core.local.db_context_counter = 1
        p = Patch(); run.state['patch'] = p
        p.set(core, 'get_user_groups', lambda user: {'g', 'anybody'})
        p.set(core, 'get_user_roles', lambda user, obj: {'r'})
        p.set(core, 'get_object_labels', lambda obj: {'l'})

    def teardown(run):
        run.state['patch'].restore()
        M.A._access_rules_.clear(); M.B._access_rules_.clear()
        try: orm.rollback()
        except Exception: pass
        core.local.db2cache.clear(); core.local.db_context_counter = 0

    def call():
        A, B = M.A, M.B
        attr = {'entity': None, 'attr_plain': A.p, 'attr_hidden': A.h, 'attr_relation': A.b, 'object': None}[cfg['target']]
        fwd = [_rule(M, dict(f), A, attr) for f in cfg['rules']]
        if cfg['order'] == 'rev': fwd.reverse()
        rev = [_rule(M, dict(f), B, B.a) for f in cfg['reverse_rules']]
        if fwd: A._access_rules_['view'] = fwd               # a list: has_perm only iterates it; the order is under our control
        if rev: B._access_rules_['view'] = rev
        x = A if cfg['target'] == 'entity' else (A[1] if cfg['target'] == 'object' else attr)
        first = core.has_perm('u', 'view', x)
        second = core.has_perm('u', 'view', x)
        return first, second, core.can_view('u', x), core.can_edit('u', x)
    return Case(call, {}, [], setup, teardown)


def granted(cfg):
    """the declared rules, read declaratively"""
    t = cfg['target']
    rules = [dict(f) for f in cfg['rules']]
    if t == 'attr_hidden': return False
    if t == 'object':
        return any(r['groups_ok'] and r['roles_ok'] and r['labels_ok'] and not r['entity_excluded'] for r in rules)
    if t == 'entity':
        return any(r['groups_ok'] and not r['entity_excluded'] for r in rules)
    fwd = any(r['groups_ok'] and not r['entity_excluded'] and not r['attr_excluded'] for r in rules)
    if t == 'attr_plain' or not rules: return fwd
    rev = any(r['groups_ok'] and not r['entity_excluded'] and not r['attr_excluded'] for r in (dict(f) for f in cfg['reverse_rules']))
    return fwd or rev


def _hp_spec(cfg, i, path):
    if path.outcome != 'ret': return False
    first, second, can_view, can_edit = path.value
    want = granted(cfg)
    return first is want and second is want and can_view is want and can_edit is False


# ------------------------------------------------------------------ answers do not depend on which checks were made earlier in the session
ALLF = ('groups_ok', 'roles_ok', 'labels_ok', 'entity_excluded', 'attr_excluded')


def _sq_configs(tier):
    out = []
    for fwd in _combos(ALLF, 1):
        for rk in (0, 1):
            for rev in _combos(FEATURES, rk):
                out.append(dict(rules=tuple(tuple(sorted(f.items())) for f in fwd), reverse_rules=tuple(tuple(sorted(f.items())) for f in rev)))
    return out


def _sq_case(cfg, values):
    M = model()
    base = _hp_case(dict(target='entity', rules=(), reverse_rules=(), order='fwd'), values)

    def call():
        A, B = M.A, M.B
        fwd = [_rule(M, dict(f), A, A.p) for f in cfg['rules']]
        for r, f in zip(fwd, cfg['rules']):
            if dict(f).get('attr_excluded'): r.attrs_to_exclude = {A.p, A.b}
        rev = [_rule(M, dict(f), B, B.a) for f in cfg['reverse_rules']]
        if fwd: A._access_rules_['view'] = fwd
        if rev: B._access_rules_['view'] = rev
        targets = dict(entity=A, attr_plain=A.p, attr_relation=A.b, object=A[1])
        cache = M.db._get_cache()

        def fresh_session():
            cache.perm_cache.clear(); cache.user_roles_cache.clear(); cache.obj_labels_cache.clear()
        alone = {}
        for n, x in targets.items():
            fresh_session(); alone[n] = core.has_perm('u', 'view', x)
        bad = []
        for n1 in targets:
            for n2 in targets:
                if n1 == n2: continue
                fresh_session()
                r1 = core.has_perm('u', 'view', targets[n1]); r2 = core.has_perm('u', 'view', targets[n2]); r3 = core.has_perm('u', 'view', targets[n1])
                if (r1, r2, r3) != (alone[n1], alone[n2], alone[n1]): bad.append((n1, n2, (r1, r2, r3), (alone[n1], alone[n2])))
        return bad
    return Case(call, {}, [], base.setup, base.teardown)


def _ex_case(cfg, values):
    M = model()

    def call():
        class Sub(object): pass
        ent = types.SimpleNamespace(_subclasses_={'S1', 'S2'})
        rule = types.SimpleNamespace(entities_to_exclude=set(), attrs_to_exclude=set())
        A = M.A
        core.AccessRule.exclude(rule, A, A.p)
        ok1 = rule.entities_to_exclude == {A} | set(A._subclasses_) and len(A._subclasses_) >= 1 and rule.attrs_to_exclude == {A.p}
        try:
            core.AccessRule.exclude(rule, A.id); pk_refused = False
        except TypeError:
            pk_refused = True
        return ok1, pk_refused
    return Case(call, {}, [])


CONTRACTS = [
    Contract('has_perm', ['pony.orm.core:has_perm', 'pony.orm.core:can_view', 'pony.orm.core:can_edit'], _hp_configs, _hp_case,
             [('answer_is_what_the_declared_rules_grant_and_repeatable', _hp_spec)], level='bounded',
             bound='<= 2 (quick) / 3 (thorough) rules on the entity, <= 2 on the reverse entity, all predicate combinations, both rule orders'),
    Contract('has_perm.sequences', 'pony.orm.core:has_perm', _sq_configs, _sq_case,
             [('answer_independent_of_earlier_checks_in_the_session', lambda cfg, i, path: path.outcome == 'ret' and path.value == [])], level='bounded',
             bound='one rule on the entity (all 32 predicate combinations), <= 1 on the reverse entity; every ordered pair of entity / attribute / relationship attribute / object checks'),
    Contract('AccessRule.exclude', 'pony.orm.core:AccessRule.exclude', [dict()], _ex_case,
             [('excludes_entity_with_subclasses_and_attribute_refuses_pk', lambda cfg, i, path: path.outcome == 'ret' and path.value == (True, True))], level='bounded', bound='one rule'),
    Contract('to_json.filter', ['pony.orm.core:Database.to_json', 'pony.orm.core:can_view', 'pony.orm.core:has_perm', 'pony.orm.core:perm', 'pony.orm.core:get_user_groups', 'pony.orm.core:get_user_roles',
                                'pony.orm.core:get_object_labels'], TJ.configs, TJ.case,
             [('refused_iff_a_reachable_object_may_not_be_viewed_else_exactly_the_closure', TJ.spec)], level='bounded', bound=TJ.BOUND),
]
