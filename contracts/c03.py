"""C03 Decompiling a generator or lambda preserves its meaning — BOUNDED stand-in (level other, never counted as proved).

No contract within reach states "inverse of the CPython compiler" for all code objects (DESIGN 4-C03). What CAN be stated on the real function is its
postcondition on a given input: for a generator expression or lambda compiled by the running CPython, `decompile(code)` either raises, or returns an expression
tree that — compiled again by CPython — has the same value as the original for every assignment of the free names. This contract is checked on an enumerated family of
sources: every boolean formula over `not` / `and` / `or` with up to 4 (thorough: 5) leaves in every tree shape, over three kinds of leaves (plain truth tests, comparisons
incl. `is None` / `in`, mixed), each placed as generator condition, generator element and lambda body; conditional expressions inside them; and ~150 hand-written
expressions for arithmetic, comparisons and chains, attribute access, calls with keyword / star arguments, subscripts and slices, constants and containers, f-strings,
nested generators and several for-clauses. "Every assignment" ranges over a finite domain for the free names (exhaustive over that domain)."""
import ast, itertools, types
from vf.verify import Contract, Case
from vf.explore import cur
from pony.orm import decompiling
from pony.orm.decompiling import decompile

META = dict(
    level='other',
    explanation='BOUNDED: decompile() of real code objects compiled by the running CPython, for an enumerated family of generator expressions and lambdas; the returned tree is '
                'compiled again and must evaluate like the original for every assignment of the free names over a finite domain; a source that decompile() rejects with an error is allowed',
    trusted_base=['the CPython compiler and evaluator (both sides of the comparison)', 'value domain of the free names: {0, 1, 2, None} (and fixed objects for the iteration variable)'],
    assumptions=['the family is finite: formulas with <= 4 (quick) / 5 (thorough) leaves and ~150 hand-written expressions; larger or other shapes are not covered',
                 'exceptions raised by the evaluation are compared by type'],
)
DOMAIN = (0, 1, 2, None)


class Obj(object):
    def __init__(self, p, q, items): self.p = p; self.q = q; self.items = items
    def m(self, *a, **k): return (self.p, a, tuple(sorted(k.items())))
    def __repr__(self): return 'Obj(%r)' % (self.p,)


XS = [Obj(0, None, []), Obj(1, 'q', [1, 2]), Obj(2, '', [0]), Obj(None, 'z', [3, None])]


def f(*a, **k): return (a, tuple(sorted(k.items())))


LEAVES = {
    'truth': ['a', 'b', 'c', 'x.p', 'x.q'],
    'cmp': ['a == 1', 'b is None', 'c is not None', 'x.p != a', 'x.q in ("q", "z")'],
    'mixed': ['a', 'b is None', 'x.q', 'c in (1, 2)', 'a < x.items[0]'],
}


def shapes(n):
    """all and/or trees with n leaves L0..Ln-1 in order, each node optionally negated"""
    def trees(lo, hi):
        if hi - lo == 1:
            yield 'L%d' % lo; yield 'not L%d' % lo; return
        for mid in range(lo + 1, hi):
            for l in trees(lo, mid):
                for r in trees(mid, hi):
                    for op in ('and', 'or'):
                        yield '(%s) %s (%s)' % (l, op, r)
                        yield 'not ((%s) %s (%s))' % (l, op, r)
    return list(trees(0, n))


def _simplify(src):
    """drop redundant parentheses the way a programmer writes (so that and/or chains and precedence-dependent layouts both occur): keep both variants"""
    return src


HAND = [
    'a + b * c', '(a + b) * c', 'a - (b - c)', 'a / 2', 'a // 2', 'a % 2', '-a', '+a', '~a', 'a ** 2', '(-a) ** 2', '-a ** 2', 'a << 1', 'a >> 1', 'a & b', 'a | b', 'a ^ b', 'a @ b' if False else 'a * -b',
    'a < b', 'a <= b < c', 'a < b <= c < 3', 'a == b != c', 'a is b', 'a is not None', 'a in (1, 2)', 'a not in (b, c)', 'x.p', 'x.q.upper()', 'x.m(a)', 'x.m(a, b)', 'x.m(a, k=b)', 'x.m(k=a, j=b)',
    'x.m(*x.items)', 'x.m(**{"k": a})', 'x.m(a, *x.items, k=b)', 'f(a)', 'f(a, b, c)', 'f(x.p, k=x.q)', 'f(f(a), f(b))', 'x.items[0]', 'x.items[-1]', 'x.items[a]', 'x.items[a:b]', 'x.items[:b]', 'x.items[a:]',
    'x.items[::2]', 'x.items[a:b:c]', 'x.items[:]', 'x.q[0]', '(a, b)', '[a, b]', '(a,)', '()', '[]', '{"k": a}', '{a: b}', 'None', 'True', 'False', '1', '1.5', '"s"', 'b"s"', '...', '(a, (b, c))', '[a, [b]]',
    'f"{a}"', 'f"{a}-{b}"', 'f"x{a!r}y"', 'f"{a:>4}"', 'f"{a!s:{b}}"', 'f"{x.p}{x.q!r}"', '"%s" % a', '"a" + "b"', 'a if b else c', '(a if b else c) + 1', 'a if b else (c if a else b)', '(a if b else c) if c else a',
    'a and b', 'a or b', 'not a', 'a and b or c', 'a or b and c', '(a or b) and c', 'not (a and b)', 'not a and not b', 'a and (b or c) and x.p', 'x.p or (a and b) or x.q',
    'any(y for y in x.items)', 'any(y > a for y in x.items)', 'sum(y for y in x.items if y)', 'len([y for y in x.items])' if False else 'len(x.items)', 'max(a or 0, b or 0)', 'abs(a or 0)',
    'sum(y for y in x.items if y is not None and y > a)', 'any(y == a or y is None for y in x.items)', 'tuple(y for y in x.items if not y)', 'a in (y for y in x.items)', 'sum(1 for y in x.items for z in x.items if y == z)',
    'x.p is None or x.p > a', 'x.p is not None and x.p > a', 'not (x.p is None) and not (a is None)', 'x.q is None or a is None or b is None', 'a is None and b is None or c is None', '(a is None) == (b is None)',
    'a if a is None else b', 'a is None if b else c is None', 'f(a is None, b is not None)', 'x.m(a) == x.m(b)', 'x.m(a)[0]', 'f(a)[0][0]', 'x.items[0] if x.items else None', '[a][0]', '(a, b)[1]', '{"k": a}["k"]',
    'a.__class__', 'type(a)', 'str(a) + str(b)', 'int(a or 0) + 1', 'f(lambda: 1) is not None' if False else 'f(a) is not None', 'x.p == a and x.q == "q" or x.p == b', 'not x.p == a', 'not (x.p == a or x.q)',
]
# conditional expressions combined with and / or / not, comparisons, calls and each other (round 17: several of them are decompiled with another meaning - known findings)
HAND += ['c and (a if b else c)', '(a if b else c) and c', 'c or (a if b else c)', '(a if b else c) or a', 'a if b and c else c', 'a if b or c else b', 'a if b else c and a', 'a if b else (c or a)',
         '(a and c) if b else c', 'not (a if b else c)', 'a if not b else c', '(a if b else c) == a', 'c and (a if b else c) and a', 'c or a if b else c', '(c or a) if b else c', 'c and a if b else c',
         'a if (b if c else a) else c', 'a if b else c if a else b', '(a if b else c, c and a)', 'f(a if b else c, c or b)', 'x.p and (a if b else c)', '(a if x.p else c) and b', 'a if x.p and b else c',
         'x.p if a else (x.q if b else c)', '(x.p if a else x.q) if b else c', 'f(a if b else c)', '[a if b else c][0]', '(a if b else c) + (c if a else b)', '(a if b else c) is None', 'a if b is None else c',
         'a if b in (1, 2) else c', 'x.m(a if b else c)', 'x.items[a if b else 0]', 'a if b else c or None', 'not a if b else not c', '(a or b) if (b and c) else (c or a)']
# replacement fields of f-strings: conversions and format specs (plain, nested, with a conversion)
HAND += ['f"{a!r}"', 'f"{a!s}-{b!a}"', 'f"{a:>5}"', 'f"{a!r:>5}"', 'f"{a:{b}}"', 'f"{x.q!r}-{x.p}"', 'f"{x.q:>3}|"', 'f"{x.q!s:{a}}"', 'f"{{{a}}}"']
# expressions big enough for the EXTENDED_ARG prefix of the bytecode: > 256 constants, > 255 code units to jump over, many names
HAND += ['[a, ' + ', '.join(str(1000 + k) for k in range(300)) + '][-1 - (a or 0)]', '(' + ', '.join('"s%d"' % k for k in range(280)) + ')[270 + (b or 0)]',
         ' or '.join('x.p == %d and x.q == "q%d"' % (k, k) for k in range(14)), ' and '.join('(x.p != %d or a == %d)' % (k + 5, k) for k in range(16)),
         'a if ' + ' and '.join('x.p != %d' % (k + 7) for k in range(40)) + ' else b']
# every slice shape: lower / upper / step each omitted, a name, a positive or a negative constant (the compiler uses different instructions for two-part and stepped slices)
HAND += ['x.items[%s:%s%s]' % (lo, up, st) for lo in ('', 'a', '1', '-1') for up in ('', 'b', '2', '-1') for st in ('', ':', ':c', ':2', ':-1')]
HAND += ['x.items[a:b][c]', 'x.items[a::c][0:1]', 'x.m2[a:b, c]' if False else 'x.items[a:][::c]', 'x.q[a::c]', 'x.q[::-1][a:]', '(x.items + x.items)[a::2]', 'x.items[(a or 0) + 1::c]']
FOR2 = ['((x.p, y) for x in xs for y in x.items)', '((x.p, y.p) for x in xs for y in xs if x.p == y.p)', '((x.p, y.p) for x in xs if x.p for y in xs if y.p and x.p != y.p)',
        '(x.p for x in xs if x.p is not None for y in x.items if y)', '((x.p, y, z) for x in xs for y in x.items for z in x.items if y is not None and z is not None and y <= z)',
        '(x for x in xs if x.p is None or x.q)', '(x.p for x in xs if not x.q and x.p is not None)']


import functools


@functools.lru_cache(maxsize=None)
def sources(tier):
    out = []
    maxn = 5 if tier == 'thorough' else 4
    for kind, leaves in LEAVES.items():
        for n in range(1, maxn + 1):
            if n == 4 and tier != 'thorough' and kind == 'mixed': pass
            for shape in shapes(n):
                if n >= 4 and tier != 'thorough' and shape.count('not') > 2: continue          # quick: at most two negations in the 4-leaf formulas
                if n >= 5 and shape.count('not') > 1: continue                                  # thorough: 5 leaves with at most one negation
                src = shape
                for k in range(n): src = src.replace('L%d' % k, '(%s)' % leaves[k])
                out.append(('cond', '(x.p for x in xs if %s)' % src))
                if n <= 3:
                    out.append(('elem', '(%s for x in xs)' % src)); out.append(('lambda', 'lambda x: %s' % src))
    # the same formulas without the redundant parentheses (precedence-dependent layout)
    for kind, leaves in LEAVES.items():
        for n in (2, 3):
            for ops in itertools.product(('and', 'or'), repeat=n - 1):
                for nots in itertools.product(('', 'not '), repeat=n):
                    src = ''
                    for k in range(n):
                        src += ('' if k == 0 else ' %s ' % ops[k - 1]) + nots[k] + leaves[k]
                    out.append(('cond', '(x.p for x in xs if %s)' % src)); out.append(('lambda', 'lambda x: %s' % src))
    for e in HAND:
        out.append(('elem', '((%s) for x in xs)' % e)); out.append(('cond', '(x.p for x in xs if (%s))' % e)); out.append(('lambda', 'lambda x: (%s)' % e))
    for g in FOR2: out.append(('gen', g))
    seen = set(); res = []
    for k, s in out:
        if s not in seen: seen.add(s); res.append((k, s))
    return res


def _is_hand(src):
    return any(src in ('((%s) for x in xs)' % e, '(x.p for x in xs if (%s))' % e, 'lambda x: (%s)' % e) for e in HAND) or src in FOR2


def _configs(tier):
    """formula families in batches of 200; every hand-written source is a configuration of its own (so that a finding can be named by its source)"""
    srcs = sources(tier)
    fam = [x for x in srcs if not _is_hand(x[1])]; hand = [x for x in srcs if _is_hand(x[1])]
    size = 200
    return [dict(batch=i // size, first=fam[i][1]) for i in range(0, len(fam), size)] + [dict(batch=-1, first=src) for k, src in hand]


def _run(fn):
    try:
        r = fn()
        if isinstance(r, types.GeneratorType): r = list(r)
        return ('ok', repr(r))
    except Exception as e:
        return ('exc', type(e).__name__)


def _compile_tree(tree, is_lambda):
    """the decompiled tree compiled again by CPython (once per source)"""
    for n in ast.walk(tree):
        if isinstance(n, ast.Starred) and not hasattr(n, 'ctx'): n.ctx = ast.Load()        # (the decompiler leaves out the ctx of Starred; pony's translator does not read it)
    tree = ast.fix_missing_locations(tree)
    if not is_lambda:
        class R(ast.NodeTransformer):
            def visit_Name(self, n): return ast.copy_location(ast.Name(id='xs', ctx=n.ctx), n) if n.id == '.0' else n
        tree = R().visit(tree)
        return compile(ast.fix_missing_locations(ast.Expression(body=tree)), '<decompiled>', 'eval')
    lam = ast.Lambda(args=ast.arguments(posonlyargs=[], args=[ast.arg(arg='x')], kwonlyargs=[], kw_defaults=[], defaults=[]), body=tree)
    return compile(ast.fix_missing_locations(ast.Expression(body=lam)), '<decompiled>', 'eval')


def _value(code, is_lambda, env):
    if is_lambda:
        try: lam = eval(code, env)
        except Exception as e: return ('exc', type(e).__name__)
        return [_run(lambda o=o: lam(o)) for o in XS]
    return _run(lambda: eval(code, env))


def _case(cfg, values):
    def call():
        import copy
        st = cur().state
        allsrc = sources(cfg['_tier'])
        if cfg['batch'] == -1: srcs = [x for x in allsrc if x[1] == cfg['first']]
        else: srcs = [x for x in allsrc if not _is_hand(x[1])][cfg['batch'] * 200:(cfg['batch'] + 1) * 200]
        bad = []; rejected = 0; malformed = []; compared = 0
        for kind, src in srcs:
            decompiling.ast_cache.clear()
            is_lambda = kind == 'lambda'
            orig = compile(src, '<source>', 'eval')
            try:
                obj = eval(orig, dict(xs=XS, f=f, a=0, b=0, c=0))
                tree, external_names, cells = decompile(obj)
            except Exception as e:
                rejected += 1; continue                                   # "rejected with an error": allowed by the property
            try:
                dec = _compile_tree(copy.deepcopy(tree), is_lambda)
            except Exception as e:
                malformed.append((src, type(e).__name__, str(e)[:80])); continue       # not an expression tree at all: reported by the second clause
            for a, b, c in itertools.product(DOMAIN, repeat=3):
                env = dict(xs=XS, f=f, a=a, b=b, c=c)
                want = _value(orig, is_lambda, env); got = _value(dec, is_lambda, dict(env))
                compared += 1
                if got != want:
                    bad.append((src, dict(a=a, b=b, c=c), 'original: %s' % (want,), 'decompiled: %s' % (got,))); break
        st['rejected'] = rejected; st['compared'] = compared; st['n'] = len(srcs); st['malformed'] = malformed
        return [repr(x)[:300] for x in bad]
    return Case(call, {}, [])


# ------------------------------------------------------------------ the decompile cache: run-time created code objects come and go
def _cache_case(cfg, values):
    def call():
        import copy, gc
        st = cur().state
        decompiling.ast_cache.clear()
        bad = []; n = 0
        srcs = [x for x in sources('quick') if _is_hand(x[1])]
        envs = [dict(a=a, b=b, c=c) for a, b, c in ((0, 1, 2), (2, None, 1), (1, 1, 0), (None, 2, 2))]
        for rounds in range(2):
            for kind, src in srcs:
                is_lambda = kind == 'lambda'
                orig = compile(src, '<source>', 'eval')
                try:
                    obj = eval(orig, dict(xs=XS, f=f, a=0, b=0, c=0))
                    tree, external_names, cells = decompile(obj)                # the cache is NOT cleared: whatever it returns must belong to THIS code object
                except Exception:
                    continue
                finally:
                    obj = None; gc.collect()                                      # the code object is garbage now; its address may be reused
                if src in KNOWN_WRONG: continue
                try: dec = _compile_tree(copy.deepcopy(tree), is_lambda)
                except Exception: continue
                n += 1
                for e in envs:
                    env = dict(xs=XS, f=f, **e)
                    if _value(orig, is_lambda, env) != _value(dec, is_lambda, dict(env)):
                        bad.append((src, e, 'decompile() answered with the tree of another expression')); break
        st['n'] = n
        return [repr(b)[:300] for b in bad[:5]]
    return Case(call, {}, [])


KNOWN_WRONG = ('((a if b else (c if a else b)) for x in xs)', '(x.p for x in xs if (a if b else (c if a else b)))',
               '((c or (a if b else c)) for x in xs)', '(x.p for x in xs if (c or (a if b else c)))', '(x.p for x in xs if ((a if b else c) or a))',
               '((a if b else c if a else b) for x in xs)', '(x.p for x in xs if (a if b else c if a else b))', '((x.p and (a if b else c)) for x in xs)',
               '(x.p for x in xs if (x.p and (a if b else c)))', '((x.p if a else (x.q if b else c)) for x in xs)', '(x.p for x in xs if (x.p if a else (x.q if b else c)))')
# (sources whose decompiled tree has another meaning - the known findings of the decompile contract; the cache contract cannot use them as witnesses of 'the tree of another expression')


def _cfgs(tier):
    out = _configs(tier)
    for c in out: c['_tier'] = tier
    return out


def _spec(cfg, i, path):
    if path.outcome != 'ret': return False
    st = path.state
    return path.value == [] and (st['compared'] > 0 or st['n'] == 1)


def _wellformed(cfg, i, path):
    """what decompile() returns without raising is an expression tree CPython can compile"""
    if path.outcome != 'ret': return False
    return path.state['malformed'] == []


CONTRACTS = [
    Contract('decompile.cache', ['pony.orm.decompiling:decompile', 'pony.utils.utils:get_codeobject_id'], [dict()], _cache_case,
             [('cached_tree_belongs_to_the_code_object_asked_about', lambda cfg, i, path: path.outcome == 'ret' and path.value == [] and path.state['n'] > 100)], level='bounded',
             bound='~450 hand-written sources decompiled twice in sequence with the cache kept and every code object dropped after use'),
    Contract('decompile', ['pony.orm.decompiling:decompile', 'pony.orm.decompiling:Decompiler.decompile', 'pony.orm.decompiling:Decompiler.analyze_jumps',
                           'pony.orm.decompiling:Decompiler.conditional_jump_new', 'pony.orm.decompiling:Decompiler.process_target'], _cfgs, _case,
             [('decompiled_tree_evaluates_like_the_source_or_is_rejected', _spec), ('returned_tree_is_a_well_formed_expression', _wellformed)], level='bounded',
             bound='boolean formulas with <= 4 (thorough 5) leaves in every shape x 3 leaf kinds x 3 positions, ~150 hand-written expressions x 3 positions, 7 multi-clause generators; free names over {0, 1, 2, None}'),
]
