"""C33 Lifecycle hooks run once per saved change and their edits are saved (DESIGN 4-C33).

PROOF (finite): Entity._before_save_ / _after_save_ dispatch exactly the hook that matches the status; SessionCache.call_after_save_hooks calls each recorded
(object, status) once, in order, and entries recorded while the hooks run are kept for the next round.
BOUNDED (end to end): on a real SQLite model whose hooks write a log, for enumerated scripts x ways of flushing (commit, flush(), obj.flush(), auto-flush by a
query, two rounds) x hook behaviours (passive, edits an attribute in before_*, creates an object in before_insert, modifies another object in after_insert, creates a new principal and refers to it in before_update):
for every object and kind the k-th before-hook precedes the k-th statement precedes the k-th after-hook, the three counts are equal (exactly once per
written change), and the committed database contains the edits and objects made inside before_* hooks."""
import types
from vf.verify import Contract, Case
from vf.explore import cur
from vf.effects import Patch
from pony import orm
from pony.orm import core

META = dict(
    level='proof',
    explanation='hook dispatch tables and call_after_save_hooks decided on the real functions (finite); exactly-once and ordering of hooks versus statements and persistence of '
                'hook edits checked on enumerated scenarios with a hook / statement log (bounded)',
    trusted_base=['the statement log is taken at Entity._save_created_ / _save_updated_ / _save_deleted_ (the only callers of the write statements, C17 write_sites)'],
    assumptions=['exactly-once across arbitrary flush rounds is history-dependent: only the enumerated scenarios are covered (bounded)'],
)
LOG = []
BEHAVIOUR = {'mode': 'passive'}
IDENT = {}


def ident(obj):
    """a stable label for log entries (attributes of a deleted object cannot be read through the descriptor)"""
    k = id(obj)
    if k not in IDENT:
        v = (obj._vals_ or {}).get(type(obj).name)
        IDENT[k] = v if v is not None else '#%s' % (obj._pkval_,)
    return IDENT[k]
_M = None


def model():
    global _M
    if _M is None:
        db = orm.Database('sqlite', ':memory:')

        class Hooked(object):
            def _log(self, hook): LOG.append((hook, type(self).__name__, ident(self)))
            def before_insert(self):
                self._log('before_insert')
                if BEHAVIOUR['mode'] == 'edit' and hasattr(self, 'note'): self.note = 'edited-in-before_insert'
                if BEHAVIOUR['mode'] == 'link' and type(self).__name__ == 'P': self.tags.add(type(self)._database_.T.get(name='t0'))
                if BEHAVIOUR['mode'] == 'create' and type(self).__name__ == 'P':
                    type(self)._database_.G(name='made-by-hook-of-' + self.name)
            def before_update(self):
                self._log('before_update')
                if BEHAVIOUR['mode'] == 'edit' and hasattr(self, 'note'): self.note = 'edited-in-before_update'
                if BEHAVIOUR['mode'] == 'link' and type(self).__name__ == 'P':
                    T = type(self)._database_.T
                    self.tags.add(T.get(name='t0')); self.tags.remove(T.get(name='t1'))
                if BEHAVIOUR['mode'] == 'assign-principal' and type(self).__name__ == 'P':
                    # the hook itself creates a new object and makes this object refer to it (an attribute not written before the hook)
                    self.g = type(self)._database_.G(name='principal-made-in-before_update-of-%s#%d' % (self.name, len(LOG)))
            def before_delete(self): self._log('before_delete')
            def after_insert(self):
                self._log('after_insert')
                if BEHAVIOUR['mode'] == 'after-modifies' and type(self).__name__ == 'P':
                    g = type(self)._database_.G.get(name='g0')
                    g.counter = (g.counter or 0) + 1
            def after_update(self): self._log('after_update')
            def after_delete(self): self._log('after_delete')

        class G(Hooked, db.Entity):
            name = orm.Required(str, unique=True)
            counter = orm.Optional(int)
            ps = orm.Set('P')

        class P(Hooked, db.Entity):
            name = orm.Required(str, unique=True)
            note = orm.Optional(str)
            g = orm.Optional(G)
            tags = orm.Set('T')

        class T(db.Entity):                              # many-to-many: links made by a hook are written by the same flush
            name = orm.Required(str, unique=True)
            ps = orm.Set(P)
        db.generate_mapping(create_tables=True)
        _M = types.SimpleNamespace(db=db, G=G, P=P, T=T)
    return _M


def _reset_data(M):
    BEHAVIOUR['mode'] = 'passive'
    with orm.db_session:
        M.db.execute('delete from P_T'); M.db.execute('delete from T'); M.db.execute('delete from P'); M.db.execute('delete from G')
        M.db.execute("insert into G(id, name) values (1, 'g0')")
        M.db.execute("insert into P(id, name, note, g) values (1, 'p0', '', 1), (2, 'p1', '', 1)")
        M.db.execute("insert into T(id, name) values (1, 't0'), (2, 't1')"); M.db.execute("insert into P_T(p, t) values (1, 2), (2, 2)")
    del LOG[:]; IDENT.clear()


def _scripts(M):
    G, P = M.G, M.P
    return {
        'create_dependent_of_existing': lambda: [P(name='n1', g=G.get(name='g0'))],
        'create_principal_and_dependent': lambda: (lambda g: [P(name='n1', g=g)])(G(name='gn')),
        'create_dependent_then_principal': lambda: (lambda p: (setattr(p, 'g', G(name='gn')), [p])[1])(P(name='n1')),
        'update': lambda: (setattr(P.get(name='p0'), 'note', 'x'), [P.get(name='p0')])[1],
        'delete': lambda: (P.get(name='p0').delete(), [])[1],
        'update_and_create': lambda: (setattr(P.get(name='p0'), 'note', 'x'), [P(name='n1', g=G(name='gn'))])[1],
        'create_then_delete': lambda: (P(name='n1').delete(), [])[1],
        'repoint_to_created': lambda: (setattr(P.get(name='p0'), 'g', G(name='gn')), [P.get(name='p0')])[1],
        'delete_group_unlinks': lambda: (G.get(name='g0').delete(), [])[1],
    }


TRIGGERS = ('commit', 'flush', 'obj.flush', 'query', 'two_rounds')
MODES = ('passive', 'edit', 'create', 'after-modifies', 'assign-principal', 'link')


def _configs(tier):
    return [dict(script=s, trigger=t, mode=m) for s in _scripts(model()) for t in TRIGGERS for m in MODES]


def _case(cfg, values):
    M = model()

    def setup(run):
        core.local.db2cache.clear(); core.local.db_context_counter = 0; core.local.db_session = None
        run.state['patch'] = Patch()

    def teardown(run):
        run.state['patch'].restore()
        try: orm.rollback()
        except Exception: pass
        core.local.db2cache.clear(); core.local.db_context_counter = 0; core.local.db_session = None
        BEHAVIOUR['mode'] = 'passive'

    def call():
        st = cur().state
        _reset_data(M)
        for kind, stmt in (('_save_created_', 'insert'), ('_save_updated_', 'update'), ('_save_deleted_', 'delete')):
            def wrap(kind=kind, stmt=stmt, real=getattr(core.Entity, kind)):
                def f(obj):
                    name = ident(obj)
                    r = real(obj)
                    LOG.append(('stmt_' + stmt, type(obj).__name__, name))
                    return r
                return f
            st['patch'].set(core.Entity, kind, wrap())
        BEHAVIOUR['mode'] = cfg['mode']
        with orm.db_session:
            objs = _scripts(M)[cfg['script']]()
            t = cfg['trigger']
            if t == 'flush': orm.flush()
            elif t == 'obj.flush':
                for o in objs: o.flush()
            elif t == 'query': M.P.select().count()
            elif t == 'two_rounds':
                orm.flush()
                M.P.get(name='p1').note = 'second-round'
        BEHAVIOUR['mode'] = 'passive'
        st['log'] = list(LOG)
        with orm.db_session:
            st['rows_p'] = sorted(M.db.select('select name, note, g from P'))
            st['rows_g'] = sorted(M.db.select('select name, counter from G'))
            st['links'] = sorted(M.db.select('select p.name, t.name from P_T pt join P p on p.id = pt.p join T t on t.id = pt.t'))
        return 'done'
    return Case(call, {}, [], setup, teardown)


def _once_and_ordered(cfg, i, path):
    if path.outcome != 'ret': return False
    log = path.state['log']
    keys = {(e[0].split('_', 1)[1], e[1], e[2]) for e in log}
    for kind, cls, name in keys:
        pos = {ph: [k for k, e in enumerate(log) if e == (ph + '_' + kind, cls, name)] for ph in ('before', 'stmt', 'after')}
        if not (len(pos['before']) == len(pos['stmt']) == len(pos['after'])): return False           # exactly once per written change
        for b, s, a in zip(pos['before'], pos['stmt'], pos['after']):
            if not b < s < a: return False
        for (b2, s1) in zip(pos['before'][1:], pos['stmt']):                                           # rounds do not interleave
            if not s1 < b2: return False
    return True


def _writes_happened(cfg, i, path):
    """the scenario is not vacuous: the expected statements are in the log"""
    if path.outcome != 'ret': return False
    kinds = {e[0] for e in path.state['log']}
    want = {'create_dependent_of_existing': {'stmt_insert'}, 'create_principal_and_dependent': {'stmt_insert'}, 'create_dependent_then_principal': {'stmt_insert'},
            'update': {'stmt_update'}, 'delete': {'stmt_delete'}, 'update_and_create': {'stmt_update', 'stmt_insert'}, 'create_then_delete': set(),
            'repoint_to_created': {'stmt_update', 'stmt_insert'}, 'delete_group_unlinks': {'stmt_delete', 'stmt_update'}}[cfg['script']]
    if not want <= kinds: return False
    if cfg['script'] == 'create_then_delete' and any(e[2] == 'n1' for e in path.state['log']): return False     # a cancelled object is never written: no hooks, no statement
    return True


def _hook_edits_saved(cfg, i, path):
    if path.outcome != 'ret': return False
    st = path.state
    rows_p = {r[0]: r for r in st['rows_p']}; rows_g = {r[0]: r for r in st['rows_g']}
    log = st['log']
    if cfg['mode'] == 'edit':
        for e in log:
            if e[1] == 'P' and e[0] in ('before_insert', 'before_update') and e[2] in rows_p:
                last = [x[0] for x in log if x[1:] == e[1:] and x[0] in ('before_insert', 'before_update')][-1]
                if rows_p[e[2]][1] != 'edited-in-' + last: return False
    if cfg['mode'] == 'create':
        for e in log:
            if e[0] == 'before_insert' and e[1] == 'P' and not e[2].startswith('made'):
                if 'made-by-hook-of-' + e[2] not in rows_g: return False
    if cfg['mode'] == 'assign-principal':
        for e in log:
            if e[0] == 'before_update' and e[1] == 'P' and e[2] in rows_p:
                if not any(n.startswith('principal-made-in-before_update-of-' + e[2] + '#') for n in rows_g): return False
    if cfg['mode'] == 'link':
        links = set(tuple(r) for r in st['links'])
        for e in log:
            if e[1] == 'P' and e[0] in ('before_insert', 'before_update') and e[2] in rows_p:
                if (e[2], 't0') not in links: return False                                     # the link made in the hook was written
                if e[0] == 'before_update' and (e[2], 't1') in links: return False               # and the one it removed is gone
    if cfg['mode'] == 'after-modifies':
        n = len([e for e in log if e[0] == 'after_insert' and e[1] == 'P'])
        if n and 'g0' in rows_g and rows_g['g0'][1] != n: return False
    return True


# ------------------------------------------------------------------ dispatch tables
STATUSES = ('created', 'modified', 'marked_to_delete', 'loaded', 'inserted', 'updated', 'deleted', 'cancelled')


def _dp_case(cfg, values):
    def call():
        calls = []

        class O(core.Entity.__bases__[0] if False else object):
            pass
        o = types.SimpleNamespace(_status_=cfg['status'])
        for h in ('before_insert', 'before_update', 'before_delete', 'after_insert', 'after_update', 'after_delete'):
            setattr(o, h, (lambda h=h: calls.append(h)))
        if cfg['fn'] == '_before_save_': core.Entity._before_save_(o)
        else: core.Entity._after_save_(o, cfg['status'])
        return calls
    return Case(call, {}, [])


def _dp_spec(cfg, i, path):
    if path.outcome != 'ret': return False
    table = {'_before_save_': {'created': ['before_insert'], 'modified': ['before_update'], 'marked_to_delete': ['before_delete']},
             '_after_save_': {'inserted': ['after_insert'], 'updated': ['after_update'], 'deleted': ['after_delete']}}[cfg['fn']]
    return path.value == table.get(cfg['status'], [])


# ------------------------------------------------------------------ call_after_save_hooks
def _ca_case(cfg, values):
    def call():
        st = cur().state
        db = core.Database(); db.provider = types.SimpleNamespace()
        core.local.db_context_counter = 1
        cache = core.SessionCache(db)
        calls = st['calls'] = []

        class O(object):
            def __init__(o, n): o.n = n; o._status_ = 'modified'          # the CURRENT status (an earlier hook edited the object again): not what decides the hook
            def _after_save_(o, status):
                calls.append((o.n, status))
                if cfg['reentrant'] and o.n == 0: cache.saved_objects.append((O(99), 'updated'))      # a hook whose edit was saved by a nested obj.flush()
        cache.saved_objects = [(O(k), s) for k, s in enumerate(('inserted', 'updated', 'deleted')[:cfg['n']])]
        cache.call_after_save_hooks()
        st['left'] = [(o.n, s) for o, s in cache.saved_objects]
        return 'called'
    return Case(call, {}, [], lambda run: None, lambda run: (core.local.db2cache.clear(), setattr(core.local, 'db_context_counter', 0)))


def _ca_spec(cfg, i, path):
    if path.outcome != 'ret': return False
    st = path.state
    want = list(enumerate(('inserted', 'updated', 'deleted')[:cfg['n']]))
    if st['calls'] != want: return False
    return st['left'] == ([(99, 'updated')] if cfg['reentrant'] and cfg['n'] else [])


CONTRACTS = [
    Contract('hook_dispatch', ['pony.orm.core:Entity._before_save_', 'pony.orm.core:Entity._after_save_'],
             [dict(fn=f, status=s) for f in ('_before_save_', '_after_save_') for s in STATUSES], _dp_case, [('hook_matches_status', _dp_spec)]),
    Contract('call_after_save_hooks', 'pony.orm.core:SessionCache.call_after_save_hooks', [dict(n=n, reentrant=r) for n in (0, 1, 3) for r in (False, True)], _ca_case,
             [('each_entry_once_in_order_new_entries_kept', _ca_spec)]),
    Contract('hooks_end_to_end', ['pony.orm.core:SessionCache.flush', 'pony.orm.core:Entity.flush', 'pony.orm.core:Entity._save_', 'pony.orm.core:Entity._save_principal_objects_',
                                  'pony.orm.core:Entity._before_save_with_principal_objects_', 'pony.orm.core:SessionCache.call_after_save_hooks'], _configs, _case,
             [('before_statement_after_exactly_once_in_order', _once_and_ordered), ('expected_statements_written', _writes_happened),
              ('edits_and_objects_made_in_before_hooks_are_saved', _hook_edits_saved)], level='bounded',
             bound='9 scripts x 5 ways of flushing x 5 hook behaviours on a two-entity model'),
]
