"""C19 Connections and the SQLite transaction lock are always released (DESIGN 4-C19, Appendix A4).

Real SQLiteProvider / DBAPIProvider / Pool / SQLitePool / SessionCache / commit() / rollback() / _commit_or_rollback code;
only the DB-API connection and cursor, the pool's _connect, on_connect callbacks and cache.flush are effect stubs that return or raise."""
import sys, types, sqlite3, itertools
from vf.verify import Contract, Case
from vf.explore import cur, choose, choose_from
from vf.effects import effect, Fault, Patch, note, names, ok, occ
from pony.orm import core, dbapiprovider as dp
from pony.orm.dbproviders import sqlite as sq
from contracts import stubs
from contracts import c18 as _c18
stubs.install_driver_stubs()
from pony.orm.dbproviders import postgres as pg
import psycopg2

META = dict(
    level='proof',
    explanation='single session, every DB-API fault point: on every path of the real provider / pool / cache functions the ghost lock depth is 0 '
                'exactly when the cache is not in a transaction, it is never acquired twice or released when free, and after the session ended the '
                'connection is pooled or closed exactly once; ground obligations decided by evaluation after exhaustive path enumeration',
    trusted_base=['GhostLock models threading.Lock for ONE thread: acquire when held = deadlock (flagged), release when free = error (flagged)',
                  'DB-API connection / cursor methods return or raise sqlite3.OperationalError and have no other effect on pony state'],
    assumptions=['thread interleavings (two or three sessions) are outside this technique: not covered',
                 'cache.flush() is an effect stub (returns or raises) in these harnesses'],
)


class GhostLock(object):
    def __init__(self, name):
        self.name = name; self.depth = 0; self.bad = None

    def acquire(self, *a):
        if self.depth: self.bad = self.bad or 'acquire while held (deadlock)'
        self.depth += 1
        note('lock.acquire', self.name)
        return True

    def release(self):
        if not self.depth: self.bad = self.bad or 'release while free'
        self.depth -= 1
        note('lock.release', self.name)


DBERR = (sqlite3.OperationalError,)


class FakeCursor(object):
    def __init__(self, con): self.con = con
    def execute(self, sql, *a):
        effect('cursor.execute:' + sql.split()[0] + (' ' + sql.split()[1] if sql.startswith('PRAGMA') else ''), self.con.err)()
    def fetchone(self): return (1,)


class FakeCon(object):
    def __init__(self, n, err=DBERR): self.n = n; self.closed = 0; self.uses_after_close = 0; self.err = err; self._ac = False
    @property
    def autocommit(self): return self._ac
    @autocommit.setter
    def autocommit(self, v):
        self._use('autocommit'); effect('con.autocommit=', self.err)(); self._ac = v
    def _use(self, what):
        if self.closed: self.uses_after_close += 1
    def cursor(self):
        self._use('cursor'); effect('con.cursor', self.err)(); return FakeCursor(self)
    def commit(self):
        self._use('commit'); effect('con.commit', self.err)()
    def rollback(self):
        self._use('rollback'); effect('con.rollback', self.err)()
    def close(self):
        self.closed += 1
        effect('con.close', self.err)()
    def set_client_encoding(self, enc): pass


class Bag(object):
    def __init__(self, **kw): self.__dict__.update(kw)


def _mk_provider(kind, memory, st, con_cls=None):
    con_cls = con_cls or FakeCon
    if kind == 'sqlite':
        p = object.__new__(sq.SQLiteProvider)
        p.pre_transaction_lock = GhostLock('pre'); p.transaction_lock = GhostLock('txn')
        pool = sq.SQLitePool(False, ':memory:' if memory else '/nonexistent/x.sqlite', False)     # real constructor
        p.dbapi_module = sqlite3
    elif kind == 'postgres':
        p = object.__new__(pg.PGProvider)            # real PGProvider: set_transaction_mode / should_reconnect / PGPool.release
        pool = pg.PGPool(psycopg2)
    else:
        p = object.__new__(dp.DBAPIProvider)
        pool = dp.Pool(sqlite3)                                                                     # real constructor
        p.dbapi_module = sqlite3
        p.dialect = 'Generic'
        p.should_reconnect = lambda exc: (note('should_reconnect'), choose(2, 'should_reconnect') == 1)[1]
    pool.pid = None
    st['cons'] = []
    err = (psycopg2.OperationalError,) if kind == 'postgres' else DBERR

    def _connect():
        effect('pool._connect', err)()
        c = con_cls(len(st['cons']), err); st['cons'].append(c); pool.con = c
    pool._connect = _connect
    # ghost instrumentation of the pool's public operations (the real methods run; only events are recorded)
    for opname in ('connect', 'release', 'drop'):
        def wrap(opname=opname, real=getattr(type(pool), opname)):
            def f(*a):
                try:
                    r = real(pool, *a)
                except BaseException as e:
                    if type(e).__name__ not in ('Concretization', 'Unsupported'):
                        note('pool.' + opname, 'raise', a[0].n if a else None)
                    raise
                note('pool.' + opname, 'ok', (a[0].n if a else r[0].n))
                return r
            return f
        setattr(pool, opname, wrap())
    p.pool = pool
    return p


def handouts_settled(ghost):
    """Every connection handed out by pool.connect() is, before the next hand-out and before the end, either returned by a
    successful pool.release() or dropped by pool.drop() — exactly once."""
    open_ = {}
    for g in ghost:
        if g[0] == 'pool.connect' and g[1] == 'ok':
            if open_.get(g[2]): return False                # handed out again without having been returned / dropped
            open_[g[2]] = True
        elif g[0] == 'pool.drop':
            if not open_.get(g[2]): return False            # dropped twice / dropped when not in use
            open_[g[2]] = False
        elif g[0] == 'pool.release' and g[1] == 'ok':
            if not open_.get(g[2]): return False
            open_[g[2]] = False
    return not any(open_.values())


def _session_setup(run):
    core.local.db2cache.clear()
    core.local.db_context_counter = 0
    core.local.db_session = None


def _session_teardown(run):
    core.local.db2cache.clear()
    core.local.db_context_counter = 0
    core.local.db_session = None


def _locks(p):
    return [l for l in (getattr(p, 'transaction_lock', None), getattr(p, 'pre_transaction_lock', None)) if l is not None]


# ------------------------------------------------------------------ whole session, every fault point
def _sess_configs(tier):
    out = []
    for kind, memory in (('sqlite', False), ('sqlite', True), ('generic', False), ('postgres', False)):
        for immediate, ddl in ((False, False), (True, False), (True, True)):
            for shape in ('read', 'read-then-write', 'body-raises'):
                if kind == 'generic' and ddl: continue
                out.append(dict(provider=kind, memory=memory, immediate=immediate, ddl=ddl, shape=shape, serializable=False))
    for shape in ('read', 'read-then-write', 'body-raises'):
        out.append(dict(provider='postgres', memory=False, immediate=True, ddl=False, shape=shape, serializable=True))
    return out


class BodyError(Exception): pass


def _sess_case(cfg, values):
    def call():
        st = cur().state
        p = _mk_provider(cfg['provider'], cfg['memory'], st)
        db = Bag(provider=p, priority=0, call_on_connect=lambda con: effect('on_connect', (Fault,))(), provider_name='sqlite')
        s = core.DBSessionContextManager(immediate=cfg['immediate'], ddl=cfg['ddl'], serializable=cfg.get('serializable', False))
        st['provider'] = p; st['pool'] = p.pool
        # --- session start, exactly as db_session._enter / Database._get_cache do
        s._enter()
        cache = core.local.db2cache[db] = core.SessionCache(db)
        cache.flush = effect('cache.flush', (Fault,))
        st['cache'] = cache
        exc = None
        try:
            cache.prepare_connection_for_query_execution()          # first query
            note('query', 1, cache.in_transaction, [l.depth for l in _locks(p)])
            if cfg['shape'] == 'read-then-write':
                cache.immediate = True; cache.modified = choose(2, 'modified') == 1
                cache.prepare_connection_for_query_execution()      # first write: upgrade to a transaction
                note('query', 2, cache.in_transaction, [l.depth for l in _locks(p)])
            if cfg['shape'] == 'body-raises':
                raise BodyError('body')
        except BaseException as e:
            if type(e).__name__ in ('Concretization', 'Unsupported'): raise
            exc = e
        st['body_exc'] = exc
        # --- session end, exactly as `with db_session:` does
        try:
            s.__exit__(type(exc) if exc is not None else None, exc, None)
        except BaseException as e2:
            if type(e2).__name__ in ('Concretization', 'Unsupported'): raise
            st['exit_exc'] = e2
        return 'ended'
    return Case(call, {}, [], _session_setup, _session_teardown)


def _sess_lock_free(cfg, i, path):
    p = path.state['provider']
    for l in _locks(p):
        if l.depth != 0: return False
    return True


def _sess_lock_discipline(cfg, i, path):
    p = path.state['provider']
    return all(l.bad is None for l in _locks(p))


def _sess_lock_iff_in_txn(cfg, i, path):
    """While the session runs: the transaction lock is held exactly when the cache is in a transaction."""
    if cfg['provider'] != 'sqlite': return None
    for g in path.ghost:
        if g[0] == 'query':
            in_txn, depths = g[2], g[3]
            if depths[0] != (1 if in_txn else 0) or depths[1] != 0: return False
    return True


def _sess_connection_accounting(cfg, i, path):
    st = path.state
    pool = st['pool']; cache = st['cache']
    if cache.connection is not None: return False
    # (cache.in_transaction of the dead cache is not part of the property; for SQLite it is tied to the lock clauses)
    if not handouts_settled(path.ghost): return False
    for c in st['cons']:
        if c.closed > 1: return False                      # closed twice
        if c.uses_after_close: return False               # used after close
        if c.closed and pool.con is c: return False       # a closed connection left in the pool
        if not c.closed and pool.con is not c: return False   # neither pooled nor closed: leaked
    return True


def _sess_session_closed(cfg, i, path):
    st = path.state
    return not st['cache'].is_alive and st['cache'] not in core.local.db2cache.values() if False else not st['cache'].is_alive


def _sess_errors_reported(cfg, i, path):
    """A failure of commit is never swallowed when the body succeeded."""
    st = path.state
    if st.get('body_exc') is None:
        commit_failed = any(g[0] in ('con.commit', 'cache.flush') and g[1] == 'raise' for g in path.ghost)
        if commit_failed: return 'exit_exc' in st
    return True


# ------------------------------------------------------------------ per-function: SQLiteProvider.set_transaction_mode then one terminator
def _stm_configs(tier):
    return [dict(immediate=a, ddl=b, then=t) for a, b in ((False, False), (True, False), (True, True))
            for t in ('commit', 'rollback', 'drop', 'none')]


def _stm_case(cfg, values):
    def call():
        st = cur().state
        p = _mk_provider('sqlite', False, st)
        con = FakeCon(0); st['cons'].append(con); p.pool.con = con
        cache = Bag(immediate=cfg['immediate'], in_transaction=False, saved_fk_state=None, db_session=Bag(ddl=cfg['ddl']))
        st['provider'] = p; st['cache'] = cache
        st['stage'] = 'stm'
        p.set_transaction_mode(con, cache)
        st['after_stm'] = (cache.in_transaction, p.transaction_lock.depth)
        st['stage'] = cfg['then']
        if cfg['then'] == 'commit': p.commit(con, cache)
        elif cfg['then'] == 'rollback': p.rollback(con, cache)
        elif cfg['then'] == 'drop': p.drop(con, cache)
        return 'done'
    return Case(call, {}, [])


def _stm_invariant(cfg, i, path):
    st = path.state
    p = st['provider']; cache = st['cache']; L = p.transaction_lock
    if L.bad or p.pre_transaction_lock.bad or p.pre_transaction_lock.depth: return False
    # lock held <=> in transaction, at every exit (normal or exceptional)
    if L.depth != (1 if cache.in_transaction else 0): return False
    if st['stage'] in ('commit', 'rollback', 'drop'):
        return cache.in_transaction is False and L.depth == 0          # terminators always end the transaction, even when they fail
    if 'after_stm' in st:
        return st['after_stm'] == ((True, 1) if cfg['immediate'] else (False, 0))
    return cache.in_transaction is False and L.depth == 0               # set_transaction_mode failed: nothing held


def _stm_begin_issued(cfg, i, path):
    """C17/C35 hook: an immediate cache is in a transaction only after BEGIN IMMEDIATE was accepted by the database."""
    st = path.state
    if 'after_stm' not in st: return None
    began = bool(ok(path.ghost, 'cursor.execute:BEGIN'))
    return st['after_stm'][0] == began and began == cfg['immediate']


# ------------------------------------------------------------------ Database.disconnect with a session left open outside db_session (interactive use)
def _dd_configs(tier):
    return [dict(provider=k, session=ss) for k in ('generic', 'sqlite', 'postgres') for ss in ('none', 'read only, no transaction', 'in a transaction')]


def _dd_case(cfg, values):
    def call():
        st = cur().state
        p = _mk_provider(cfg['provider'], False, st)
        p.paramstyle = 'qmark'
        db = core.Database(); db.provider = p; db.provider_name = cfg['provider']
        st.update(db=db, pool=p.pool)
        import pony
        mode = pony.MODE; pony.MODE = 'INTERACTIVE'                       # interactive mode (main thread): a session may stay open outside any db_session
        try:
            if cfg['session'] != 'none':
                cache = db._get_cache()
                if cfg['session'] == 'in a transaction': db._exec_sql('INSERT x', None, False, True)
                else: db._exec_sql('SELECT x', None, False, False)
                st['cache'] = cache; st['in_transaction_before'] = cache.in_transaction
            st['mark'] = len(cur().ghost)
            db.disconnect()
        finally: pony.MODE = mode
        return 'done'
    return Case(call, {}, [], _session_setup, _session_teardown)


def _dd_spec(cfg, i, path):
    st = path.state
    cons = st.get('cons', [])
    if any(c.closed > 1 or c.uses_after_close for c in cons): return False
    if 'mark' not in st: return None                                      # a fault before disconnect() was called: not this contract's call
    alive = [c for c in core.local.db2cache.values()] if False else st.get('alive_after')
    cache = st.get('cache')
    if path.outcome == 'ret':
        # nothing of this database is left behind: no session that still refers to a connection, no pooled connection, every connection closed exactly once
        if cache is not None and (cache.is_alive and cache.connection is not None): return False
        if st['pool'].con is not None: return False
        return all(c.closed == 1 for c in cons)
    # a failing rollback / close is reported; the connection is not left in the pool for the next session, nor in a session
    if cache is not None and cache.is_alive and cache.connection is not None and cache.connection.closed: return False
    return True


# ------------------------------------------------------------------ Pool.release / drop / disconnect, SQLitePool.drop
def _pool_configs(tier):
    return [dict(pool=k, op=o) for k in ('Pool', 'SQLitePool-file', 'SQLitePool-memory', 'PGPool') for o in ('release', 'drop', 'disconnect')]


def _pool_case(cfg, values):
    def call():
        st = cur().state
        kind = {'Pool': 'generic', 'PGPool': 'postgres'}.get(cfg['pool'], 'sqlite')
        p = _mk_provider(kind, cfg['pool'].endswith('memory'), st)
        pool = p.pool
        con = FakeCon(0, (psycopg2.OperationalError,) if kind == 'postgres' else DBERR); st['cons'].append(con); pool.con = con; pool.pid = __import__('os').getpid()          # as Pool.connect leaves it: the connection was opened by this process (one of another process is C36's subject)
        st['pool'] = pool; st['con'] = con
        getattr(pool, cfg['op'])(*(() if cfg['op'] == 'disconnect' else (con,)))
        return 'done'
    return Case(call, {}, [])


def _pool_spec(cfg, i, path):
    st = path.state
    pool, con = st['pool'], st['con']
    if con.closed > 1 or con.uses_after_close: return False
    if con.closed and pool.con is con: return False
    if not con.closed and pool.con is not con: return False
    memory = cfg['pool'].endswith('memory')
    if cfg['op'] == 'release':
        # returned to the pool after a successful rollback; otherwise closed and the failure reported
        rb_failed = any(g[0] in ('con.rollback', 'con.cursor', 'cursor.execute:DISCARD', 'con.autocommit=') and g[1] == 'raise' for g in path.ghost)
        if not rb_failed: return pool.con is con and path.outcome == 'ret'
        return path.outcome == 'exc' and (memory or con.closed == 1)
    if cfg['op'] == 'drop' and not memory:
        return con.closed == 1 and pool.con is None
    if cfg['op'] == 'disconnect' and not memory:
        return con.closed == 1 and pool.con is None
    return True


CONTRACTS = [
    Contract('SQLiteProvider.transaction_functions',
             ['pony.orm.dbproviders.sqlite:SQLiteProvider.set_transaction_mode', 'pony.orm.dbproviders.sqlite:SQLiteProvider.commit',
              'pony.orm.dbproviders.sqlite:SQLiteProvider.rollback', 'pony.orm.dbproviders.sqlite:SQLiteProvider.drop',
              'pony.orm.dbproviders.sqlite:SQLiteProvider.acquire_lock', 'pony.orm.dbproviders.sqlite:SQLiteProvider.release_lock',
              'pony.orm.dbapiprovider:DBAPIProvider.commit', 'pony.orm.dbapiprovider:DBAPIProvider.rollback', 'pony.orm.dbapiprovider:DBAPIProvider.drop',
              'pony.orm.dbapiprovider:wrap_dbapi_exceptions'],
             _stm_configs, _stm_case, [('lock_held_iff_in_transaction_on_every_exit', _stm_invariant), ('in_transaction_only_after_BEGIN_IMMEDIATE', _stm_begin_issued)],
             allowed_exc=(core.OperationalError, Fault), doc='loop-free; every DB-API call may raise'),
    Contract('Database.disconnect', ['pony.orm.core:Database.disconnect', 'pony.orm.dbapiprovider:DBAPIProvider.disconnect', 'pony.orm.dbapiprovider:Pool.disconnect', 'pony.orm.core:SessionCache.rollback'],
             _dd_configs, _dd_case, [('no_session_keeps_a_connection_the_pool_has_closed', _dd_spec)], allowed_exc=(sqlite3.OperationalError, psycopg2.OperationalError, core.DBException, core.OrmError)),
    Contract('Pool.release_drop_disconnect', ['pony.orm.dbapiprovider:Pool.release', 'pony.orm.dbapiprovider:Pool.drop', 'pony.orm.dbapiprovider:Pool.disconnect',
                                              'pony.orm.dbproviders.sqlite:SQLitePool.drop', 'pony.orm.dbproviders.sqlite:SQLitePool.disconnect'],
             _pool_configs, _pool_case, [('connection_pooled_xor_closed_once', _pool_spec)], allowed_exc=(sqlite3.OperationalError, psycopg2.OperationalError, Fault)),
    Contract('session.every_fault_point',
             ['pony.orm.core:SessionCache.connect', 'pony.orm.core:SessionCache.reconnect', 'pony.orm.core:SessionCache.prepare_connection_for_query_execution',
              'pony.orm.core:SessionCache.commit', 'pony.orm.core:SessionCache.rollback', 'pony.orm.core:SessionCache.release', 'pony.orm.core:SessionCache.close',
              'pony.orm.core:commit', 'pony.orm.core:rollback', 'pony.orm.core:DBSessionContextManager._commit_or_rollback',
              'pony.orm.dbproviders.sqlite:SQLiteProvider.release', 'pony.orm.dbapiprovider:DBAPIProvider.release', 'pony.orm.dbapiprovider:DBAPIProvider.connect',
              'pony.orm.dbapiprovider:Pool.connect', 'pony.orm.dbproviders.postgres:PGProvider.set_transaction_mode',
              'pony.orm.dbproviders.postgres:PGProvider.should_reconnect', 'pony.orm.dbproviders.postgres:PGPool.release'],
             _sess_configs, _sess_case,
             [('lock_not_left_held', _sess_lock_free), ('lock_never_double_acquired_or_double_released', _sess_lock_discipline),
              ('lock_held_iff_in_transaction_during_session', _sess_lock_iff_in_txn),
              ('connection_pooled_xor_closed_exactly_once', _sess_connection_accounting), ('session_cache_closed', _sess_session_closed),
              ('commit_failure_reported', _sess_errors_reported)],
             allowed_exc=(), doc='(+ real PGProvider / PGPool with reconnect on OperationalError) one whole session (read-only / read-then-write / body raises) x optimistic / immediate / ddl x file / memory / generic provider; '
                                 'functions inlined (executed for real) across three layers', budget=400000),
] + [c for c in _c18.CONTRACTS if c.id == 'generator_wrapper']          # a suspended generator must hold neither changes nor an open transaction (shared with C18)



def _share_two_databases():
    """the session over two databases (C17's ledger harness) also decides what C19 says about such a session: every connection released, no session cache left behind"""
    import sys
    m = sys.modules.get('contracts.c17')
    if m is not None and not hasattr(m, 'CONTRACTS'): return           # c17 is being imported and imports this module: it registers the contract itself
    from contracts import c17
    if not any(c.id == 'session.two_databases' for c in CONTRACTS): CONTRACTS.extend(c for c in c17.CONTRACTS if c.id == 'session.two_databases')


_share_two_databases()
