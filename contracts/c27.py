"""C27 Objects keep their class and polymorphic queries are exact — BOUNDED stand-in (level other).

The property quantifies over all inheritance hierarchies, objects and queries; the per-function contracts in reach (class refinement in `_get_from_identity_map_`: C11) carry only a
small part of it. Here the real code runs end to end on SQLite over an enumerated family: 6 hierarchies (linear chain, diamond, a 5-level hierarchy with a branch and a deep diamond, custom string discriminator, custom integer
discriminator with a gap) x one stored object per class x 16 ways of reaching an object in a LATER session (by key through every ancestor, get / select on every ancestor, through a
to-one reference, through a collection, as an unloaded reference that is loaded on attribute access, select_by_sql, prefetch, query projection) : the object has the class it was created
with; reaching it through a class it does not belong to raises ObjectNotFound / returns nothing; `E.select()`, `count`, `exists` and `isinstance(x, T)` / `not isinstance` / tuple forms
inside queries agree with Python's isinstance on the creation classes."""
import itertools, types
from vf.verify import Contract, Case
from vf.explore import cur
from pony import orm
from pony.orm import core

META = dict(
    level='other',
    explanation='BOUNDED: enumerated hierarchies, one object per class, every way of reaching it in a later session; polymorphic queries and isinstance tests compared with Python isinstance',
    trusted_base=['the creation class recorded by the harness is the oracle'],
    assumptions=['6 hierarchies of at most 7 classes and 5 levels; SQLite'],
)
_MODELS = {}


def build(h):
    if h in _MODELS: return _MODELS[h]
    db = orm.Database('sqlite', ':memory:')
    Req, Opt, Set = orm.Required, orm.Optional, orm.Set
    if h == 'chain':
        class A(db.Entity):
            name = Req(str); holders = Set('R', reverse='ref'); bags = Set('R', reverse='items')
        class B(A): b = Opt(int)
        class C(B): c = Opt(int)
        classes = [A, B, C]
    elif h == 'diamond':
        class A(db.Entity):
            name = Req(str); holders = Set('R', reverse='ref'); bags = Set('R', reverse='items')
        class B(A): b = Opt(int)
        class C(A): c = Opt(int)
        class D(B, C): d = Opt(int)
        class E(C): e = Opt(int)
        classes = [A, B, C, D, E]
    elif h == 'deep':                                     # five levels, a branch at level 3 and a diamond whose join sits at level 5
        class A(db.Entity):
            name = Req(str); holders = Set('R', reverse='ref'); bags = Set('R', reverse='items')
        class B(A): b = Opt(int)
        class C(B): c = Opt(int)
        class D(C): d = Opt(int)
        class E(D): e = Opt(int)
        class F(C): f = Opt(int)
        class G(E, F): g = Opt(int)
        classes = [A, B, C, D, E, F, G]
    elif h == 'str_discriminator':
        class A(db.Entity):
            _discriminator_ = 'base'
            kind = orm.Discriminator(str)
            name = Req(str); holders = Set('R', reverse='ref'); bags = Set('R', reverse='items')
        class B(A): _discriminator_ = 'bee'; b = Opt(int)
        class C(A): _discriminator_ = 'sea'; c = Opt(int)
        class D(C): _discriminator_ = 'dee'; d = Opt(int)
        classes = [A, B, C, D]
    elif h == 'zero_discriminator':
        class A(db.Entity):
            _discriminator_ = 0                          # a falsy discriminator value for the base class
            kind = orm.Discriminator(int)
            name = Req(str); holders = Set('R', reverse='ref'); bags = Set('R', reverse='items')
        class B(A): _discriminator_ = 1; b = Opt(int)
        class C(A): _discriminator_ = 2; c = Opt(int)
        classes = [A, B, C]
    else:
        class A(db.Entity):
            _discriminator_ = 1
            kind = orm.Discriminator(int)
            name = Req(str); holders = Set('R', reverse='ref'); bags = Set('R', reverse='items')
        class B(A): _discriminator_ = 2; b = Opt(int)
        class C(B): _discriminator_ = 10; c = Opt(int)
        classes = [A, B, C]

    class R(db.Entity):
        tag = Req(str)
        ref = Opt(classes[0], reverse='holders')
        items = Set(classes[0], reverse='bags')
        seconds = Set('R2')

    class R2(db.Entity):                                    # refers to a holder: the holder is known by key only when its reference is read for the first time
        tag = Req(str)
        r = Req(R)
    db.generate_mapping(create_tables=True)
    created = {}
    with orm.db_session:
        bag = R(tag='bag')
        for cls in classes:
            o = cls(name='obj_' + cls.__name__)
            orm.flush()
            created[o.id] = cls
            R2(tag='second_' + cls.__name__, r=R(tag='holder_' + cls.__name__, ref=o)); bag.items.add(o)
    M = types.SimpleNamespace(db=db, classes=classes, R=R, R2=R2, created=created, root=classes[0])
    _MODELS[h] = M
    return M


HIER = ('chain', 'diamond', 'deep', 'str_discriminator', 'int_discriminator', 'zero_discriminator')
WAYS = ('getitem_root', 'getitem_every_ancestor', 'get_every_ancestor', 'select_root', 'generator_root', 'via_reference', 'via_collection', 'via_collection_copy', 'via_collection_select',
        'unloaded_reference', 'seed_then_getitem_root', 'seed_then_getitem_own_class', 'select_by_sql',
        'prefetch', 'projection', 'get_by_name', 'two_hops_first_read', 'two_hops_read_twice')


def _rc_configs(tier):
    return [dict(hierarchy=h, way=w) for h in HIER for w in WAYS]


def _reset():
    core.local.db2cache.clear(); core.local.db_context_counter = 0; core.local.db_session = None


def _rc_case(cfg, values):
    def setup(run): _reset()
    def teardown(run):
        try: orm.rollback()
        except Exception: pass
        _reset()

    def call():
        M = build(cfg['hierarchy']); root = M.root; R = M.R
        bad = []; n = 0
        w = cfg['way']
        for pk, cls in M.created.items():
            ancestors = [c for c in M.classes if issubclass(cls, c)]
            strangers = [c for c in M.classes if not issubclass(cls, c)]
            with orm.db_session:                                   # a fresh session per object: nothing else has been loaded when it is reached
                got = []
                if w == 'getitem_root': got = [root[pk]]
                elif w == 'getitem_every_ancestor': got = [c[pk] for c in ancestors]
                elif w == 'get_every_ancestor': got = [c.get(id=pk) for c in ancestors]
                elif w == 'select_root': got = [o for o in root.select() if o.id == pk]
                elif w == 'generator_root': got = list(orm.select(a for a in root if a.id == pk))
                elif w == 'via_reference': got = [R.get(tag='holder_' + cls.__name__).ref]
                elif w == 'via_collection': got = [o for o in R.get(tag='bag').items if o._pkval_ == pk]
                elif w == 'via_collection_copy': got = [o for o in R.get(tag='bag').items.copy() if o._pkval_ == pk]
                elif w == 'via_collection_select': got = [o for o in R.get(tag='bag').items.select() if o._pkval_ == pk]
                elif w == 'unloaded_reference':
                    r = R.get(tag='holder_' + cls.__name__); o = r.ref; o.name; got = [o]
                elif w == 'seed_then_getitem_root':
                    r = R.get(tag='holder_' + cls.__name__); seed = r.ref; got = [root[pk], seed]     # known by key only (a seed) when it is looked up
                elif w == 'seed_then_getitem_own_class':
                    r = R.get(tag='holder_' + cls.__name__); seed = r.ref; got = [cls[pk], cls.get(id=pk), seed]
                elif w == 'select_by_sql': got = list(root.select_by_sql('select * from "%s" where id = %d' % (root._table_, pk)))
                elif w == 'prefetch': got = [r.ref for r in R.select().prefetch(R.ref) if r.ref is not None and r.ref._pkval_ == pk]
                elif w == 'projection': got = list(orm.select(r.ref for r in R if r.ref.id == pk))
                elif w == 'get_by_name': got = [root.get(name='obj_' + cls.__name__)]
                elif w == 'two_hops_first_read': got = [M.R2.get(tag='second_' + cls.__name__).r.ref]          # the holder is a seed: its row is loaded by this very read
                elif w == 'two_hops_read_twice':
                    h = M.R2.get(tag='second_' + cls.__name__).r; first = h.ref; t1 = type(first); second = h.ref
                    got = [first, second] if t1 is type(second) else [first, second, None]                          # (the class of one object must not change between two reads)
                n += 1
                types_now = [type(o) for o in got]                  # the class at the moment the object is handed out, before anything else is asked of it
                if len(got) < 1 or any(t is not cls for t in types_now) or len(set(map(id, got))) != 1:
                    bad.append((w, pk, cls.__name__, [t.__name__ for t in types_now]))
            with orm.db_session:
                # reaching the object through a class it does not belong to
                for s in strangers:
                    try:
                        o = s[pk]; bad.append(('stranger getitem returned', s.__name__, pk, type(o).__name__))
                    except core.ObjectNotFound: pass
                    if s.get(id=pk) is not None: bad.append(('stranger get returned', s.__name__, pk))
            with orm.db_session:
                # ... also when the object is already in the session under its own class
                own = cls[pk]
                for s in strangers:
                    try:
                        o = s[pk]; bad.append(('stranger getitem returned a cached object', s.__name__, pk, type(o).__name__))
                    except core.ObjectNotFound: pass
                    if s.get(id=pk) is not None: bad.append(('stranger get returned a cached object', s.__name__, pk))
        return bad if n else ['nothing compared']
    return Case(call, {}, [], setup, teardown)


# ------------------------------------------------------------------ polymorphic queries and isinstance
def _pq_configs(tier):
    return [dict(hierarchy=h) for h in HIER]


def _pq_case(cfg, values):
    def setup(run): _reset()
    def teardown(run):
        try: orm.rollback()
        except Exception: pass
        _reset()

    def call():
        M = build(cfg['hierarchy']); root = M.root; bad = []
        names = lambda objs: sorted(o.name for o in objs)
        want_of = lambda pred: sorted('obj_' + c.__name__ for c in M.created.values() if pred(c))
        with orm.db_session:
            for E in M.classes:
                sub = lambda c, E=E: issubclass(c, E)
                checks = [('E.select()', names(E.select()), want_of(sub)), ('select(x for x in E)', names(orm.select(x for x in E)), want_of(sub)),
                          ('E.select().count()', E.select().count(), len(want_of(sub))), ('count(x for x in E)', orm.count(x for x in E), len(want_of(sub))),
                          ('isinstance(x, E) over root', names(orm.select(x for x in root if isinstance(x, E))), want_of(sub)),
                          ('not isinstance(x, E) over root', names(orm.select(x for x in root if not isinstance(x, E))), want_of(lambda c: not sub(c))),
                          ('exists by name through E', sorted(c.__name__ for c in M.created.values() if E.exists(name='obj_' + c.__name__)), sorted(c.__name__ for c in M.created.values() if sub(c))),
                          ('bulk count via relationship', names(orm.select(r.ref for r in M.R if isinstance(r.ref, E))), want_of(sub))]
                for label, got, want in checks:
                    if got != want: bad.append((E.__name__, label, got, want))
                # random picks are picks among the objects of E (and its subclasses), whatever shortcut computes them
                for n in (1, 2):
                    for attempt in range(12):
                        strangers = sorted(set(o.name for o in E.select_random(n) if not isinstance(o, E)) | set(o.name for o in E.select().random(n) if not isinstance(o, E)))
                        if strangers: bad.append((E.__name__, 'select_random(%d) / select().random(%d) returned objects of other classes' % (n, n), strangers)); break
            for E1, E2 in itertools.combinations(M.classes, 2):
                got = names(orm.select(x for x in root if isinstance(x, (E1, E2))))
                want = want_of(lambda c: issubclass(c, (E1, E2)))
                if got != want: bad.append((E1.__name__ + '|' + E2.__name__, 'isinstance tuple', got, want))
                got = names(orm.select(x for x in E1 if isinstance(x, E2)))
                want = want_of(lambda c: issubclass(c, E1) and issubclass(c, E2))
                if got != want: bad.append((E1.__name__ + '&' + E2.__name__, 'isinstance within subclass query', got, want))
        return bad
    return Case(call, {}, [], setup, teardown)


def _empty(cfg, i, path):
    return path.outcome == 'ret' and path.value == []


CONTRACTS = [
    Contract('reloaded_class', ['pony.orm.core:EntityMeta._get_from_identity_map_', 'pony.orm.core:EntityMeta._parse_row_', 'pony.orm.core:EntityMeta._construct_discriminator_criteria_',
                                'pony.orm.core:EntityMeta._find_in_cache_', 'pony.orm.core:EntityMeta._fetch_objects', 'pony.orm.core:Entity._load_'], _rc_configs, _rc_case,
             [('object_has_its_creation_class_however_it_is_reached', _empty)], level='bounded', bound='6 hierarchies (up to 5 levels deep), one object per class, 18 ways of reaching it in a later session'),
    Contract('polymorphic_queries', ['pony.orm.core:EntityMeta._construct_discriminator_criteria_', 'pony.orm.sqltranslation:FuncIsinstanceMonad', 'pony.orm.sqltranslation:SQLTranslator.__init__'],
             _pq_configs, _pq_case, [('queries_and_isinstance_agree_with_python', _empty)], level='bounded', bound='6 hierarchies (up to 5 levels deep); every class and every pair of classes'),
]
