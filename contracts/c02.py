"""C02 The same query over the same data gives the same answer on every dialect (DESIGN 4-C02) — PARTIAL, DERIVED.

No PostgreSQL / MySQL / Oracle server or driver exists in this sandbox; the dialect modules are imported with stub driver modules so that their builder / translator /
value-class CODE is real. Every contract below takes the dialect (and paramstyle) as a quantified configuration and proves the dialect's SQL equal to the
dialect-INDEPENDENT Python meaning under the dialect's documented semantics; agreement between dialects is the corollary. The contracts are the dialect-quantified ones of
C01 (truth tests), C06 (literals, LIKE, MOD), C24 (LIMIT without bound) and C25 (string slicing), re-run here, plus dialect-only literal forms, plus (bounded) the string functions of every dialect builder (c02_strings)."""
import z3
from vf.verify import Contract, Case
from vf.inputs import Inputs, term, same
from vf.proxy import SymStr
from contracts import stubs
stubs.install_driver_stubs()
from contracts import c01, c06, c24, c25, c29, c35
from contracts import c02_strings as STR
from contracts import c02_dates as DT
from pony.orm import sqlbuilding as sb
from pony.orm.dbproviders import sqlite as sq, postgres as pg, mysql as my

META = dict(
    level='proof',
    explanation='each dialect code path is proved equal to the same dialect-independent Python meaning (see C01, C06, C24, C25 for the individual contracts); what a server does beyond '
                'the documented semantics encoded in the specification library is an assumption, not a result',
    trusted_base=c25.META['trusted_base'] + c06.META['trusted_base'] + c01.META['trusted_base'],
    assumptions=['no query is executed on PostgreSQL / MySQL / Oracle: server behaviour is represented by the clauses of vf/sqlsem.py and vf/strhom.py (manual citations there) and, for the bounded string / date function contracts, by the documented-semantics interpreters in contracts/c02_strings.py and contracts/c02_dates.py (each lists what it encodes; a form they do not know counts as a failure)',
                 'only the mechanisms under contract are compared, not whole queries'],
)


def _val_configs(tier):
    return [dict(cls=k, value=v) for k in c06.VALUE_CLASSES for v in ('True', 'False', 'None', 'int')]


def _val_case(cfg, values):
    cls, _ = c06.VALUE_CLASSES[cfg['cls']]
    I = Inputs(values)
    v = {'True': True, 'False': False, 'None': None}.get(cfg['value'], 'int')
    if v == 'int': v = I.int('n')
    return Case(lambda: cls('qmark', v).__str__(), I.terms, I.pre)


def _val_spec(cfg, i, path):
    if path.outcome != 'ret': return False
    r = path.value
    if cfg['value'] == 'None': return r == 'null'
    if cfg['value'] in ('True', 'False'):
        if cfg['cls'] == 'PGValue': return r == cfg['value'].lower()          # PostgreSQL has a boolean type
        return r == ('1' if cfg['value'] == 'True' else '0')
    if isinstance(r, SymStr):
        return len(r.pieces) == 1 and r.pieces[0][0] == 'int' and same(r.pieces[0][1], i['n']) and r.pieces[0][2] == ''
    return r == str(i['n'])


# ------------------------------------------------------------------ the LIMIT section as each builder renders it: the window the text denotes is the window that was asked for
def _lim_configs(tier):
    return [dict(dialect=d, limit=l, offset=o, order=od) for d in ('generic', 'PostgreSQL', 'MySQL', 'SQLite', 'Oracle') for l in (None, 0, 1, 3, 7) for o in (None, 0, 2, 5) for od in (False, True)
            if not (l is None and o is None)]


def _window_of(dialect, sql):
    """(first row skipped, rows kept or None) read off the rendered text - the documented meaning of LIMIT / OFFSET and of Oracle's ROWNUM idiom"""
    import re
    t = ' '.join(sql.split())
    if dialect != 'Oracle':
        m = re.search(r' LIMIT (-?\d+|null)(?: OFFSET (\d+))?$', t)
        if not m: return None
        lim = None if m.group(1) in ('null', '-1', '18446744073709551615') else int(m.group(1))
        return (int(m.group(2) or 0), lim)
    upper = re.search(r'WHERE ROWNUM <= (-?\d+)', t); lower = re.search(r'WHERE "row-num" > (\d+)', t)
    if not upper and not lower: return (0, None)
    off = int(lower.group(1)) if lower else 0
    if upper is None: return (off, None)
    return (off, max(0, int(upper.group(1)) - off))


def _lim_case(cfg, values):
    def call():
        cls, prov = c35._builder(cfg['dialect'])
        limit = cfg['limit']
        if limit is None: limit = {'SQLite': -1, 'MySQL': 18446744073709551615}.get(cfg['dialect'])          # what construct_sql_ast puts there for 'no limit' (its own contract, C24)
        sec = ['LIMIT', limit] + ([cfg['offset']] if cfg['offset'] else [])
        ast = ['SELECT', ['ALL', ['COLUMN', 'T', 'a']], ['FROM', ['T', 'TABLE', 'tbl']]] + ([['ORDER_BY', ['COLUMN', 'T', 'a']]] if cfg['order'] else []) + [sec]
        return cls(prov, ast).sql
    return Case(call, {}, [])


def _lim_spec(cfg, i, path):
    if path.outcome != 'ret': return False
    w = _window_of(cfg['dialect'], path.value)
    if w is None: return False
    rows = list(range(20))
    off = cfg['offset'] or 0
    want = rows[off:] if cfg['limit'] is None else rows[off:off + cfg['limit']]
    got = rows[w[0]:] if w[1] is None else rows[w[0]:w[0] + w[1]]
    if cfg['order'] and cfg['dialect'] == 'Oracle':
        import re
        m = re.search(r'WHERE (ROWNUM|"row-num")', path.value)
        if m and path.value.index('ORDER BY') > m.start(): return False          # the rows are numbered after they were ordered: the ORDER BY sits inside the numbered subquery
    return got == want


def _pick(mod, ids):
    return [c for c in mod.CONTRACTS if c.id in ids]


CONTRACTS = (_pick(c01, ['truth_test_and_not', 'CmpMonad.negate'])
             + _pick(c25, ['SQLBuilder.STRING_SLICE', 'SQLiteBuilder.STRING_SLICE', 'StringMixin.__getitem__'])
             + _pick(c06, ['Value.quote_str', 'StringMixin._like', 'SQLBuilder.MOD'])
             + _pick(c24, ['construct_sql_ast.LIMIT'])
             + _pick(c35, ['SELECT_FOR_UPDATE'])               # locking form of a query per dialect: the same rows in the same order (Oracle rewrites ROWNUM windows), shared with C35
             + _pick(c29, ['ArrayMixin.__getitem__'])          # array subscripts and slices per dialect (1-based PostgreSQL arithmetic), shared with C29
             + [Contract('LIMIT_section_rendering', ['pony.orm.sqlbuilding:SQLBuilder.LIMIT', 'pony.orm.dbproviders.oracle:OraBuilder.SELECT'], _lim_configs, _lim_case,
                         [('the_rendered_window_is_the_window_asked_for', _lim_spec)], level='bounded',
                         bound='5 builders x limits None / 0 / 1 / 3 / 7 x offsets None / 0 / 2 / 5 x with / without ORDER BY; the text is read by the documented meaning of LIMIT / OFFSET / ROWNUM'),
                Contract('Value.__str__.scalars', ['pony.orm.sqlbuilding:Value.__str__', 'pony.orm.dbproviders.postgres:PGValue.__str__'], _val_configs, _val_case,
                         [('booleans_null_and_integers_rendered_per_dialect', _val_spec)]),
                Contract('dialect_string_functions', ['pony.orm.sqlbuilding:SQLBuilder.TRIM', 'pony.orm.sqlbuilding:SQLBuilder.LTRIM', 'pony.orm.sqlbuilding:SQLBuilder.RTRIM',
                                                      'pony.orm.sqlbuilding:SQLBuilder.CONCAT', 'pony.orm.sqlbuilding:SQLBuilder.REPLACE', 'pony.orm.dbproviders.mysql:MySQLBuilder.TRIM',
                                                      'pony.orm.dbproviders.mysql:MySQLBuilder.LTRIM', 'pony.orm.dbproviders.mysql:MySQLBuilder.RTRIM', 'pony.orm.dbproviders.mysql:MySQLBuilder.CONCAT',
                                                      'pony.orm.dbproviders.mysql:MySQLBuilder.LENGTH'],
                         STR.configs, STR.case, [('every_dialect_answers_what_the_python_method_answers', STR.spec)], level='bounded', bound=STR.BOUND),
                Contract('dialect_date_functions', ['pony.orm.sqlbuilding:SQLBuilder.SECOND', 'pony.orm.sqlbuilding:SQLBuilder.YEAR', 'pony.orm.sqlbuilding:SQLBuilder.DATE', 'pony.orm.sqlbuilding:Value.__str__',
                                                    'pony.orm.dbproviders.postgres:PGSQLBuilder.DATETIME_ADD', 'pony.orm.dbproviders.postgres:PGSQLBuilder.DATETIME_SUB', 'pony.orm.dbproviders.postgres:PGSQLBuilder.DATETIME_DIFF',
                                                    'pony.orm.dbproviders.postgres:PGSQLBuilder.DATE_DIFF', 'pony.orm.dbproviders.postgres:PGSQLBuilder.DATE',
                                                    'pony.orm.dbproviders.mysql:MySQLBuilder.DATE_ADD', 'pony.orm.dbproviders.mysql:MySQLBuilder.DATE_SUB', 'pony.orm.dbproviders.mysql:MySQLBuilder.DATETIME_DIFF',
                                                    'pony.orm.dbproviders.mysql:MySQLBuilder.SECOND', 'pony.orm.dbproviders.mysql:MySQLValue.__str__',
                                                    'pony.orm.dbproviders.oracle:OraBuilder.DATETIME_ADD', 'pony.orm.dbproviders.oracle:OraBuilder.DATE', 'pony.orm.converting:timedelta2str'],
                         DT.configs, DT.case, [('every_dialect_answers_what_python_answers', DT.spec)], level='bounded', bound=DT.BOUND)])


def startup(rep, tier):
    c25.startup(rep, tier)
    c06.startup(rep, tier)
