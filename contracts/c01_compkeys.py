"""C01 (bounded part): navigation through references that are parts of COMPOSITE keys, against Python evaluation of the SAME expression, on real in-memory SQLite.

Model: Group has the key (dept, number); Assignment has the key (group, teacher) - a reference placed AFTER a two-column reference; Exam has the key (teacher, group, no) - the
two-column part in the middle; Lesson / Mark refer to them (three- and four-column foreign keys). The key values overlap on purpose (teacher ids, group numbers and dept numbers
are all 1..3), so a join on the wrong column of a multi-column key returns plausible but different rows. Every expression is source text: pony gets `Entity.select(lambda x: text)`
or `select((x-key, text) for x in Entity)`, and CPython evaluates the same text on the loaded objects."""
import types
from vf.verify import Case
from pony import orm
from pony.orm import core

BOUND = 'one model with composite keys made of references (2-, 3- and 4-column foreign keys; the multi-column part first, in the middle and last), 3 teachers x 6 groups, 9 assignments, 6 exams, lessons and marks; ~75 conditions and projections over 7 entities'
_M = None


def model():
    global _M
    if _M is None:
        db = orm.Database('sqlite', ':memory:')

        class Dept(db.Entity):
            number = orm.PrimaryKey(int)
            title = orm.Required(str)
            groups = orm.Set('Group')

        class Group(db.Entity):
            dept = orm.Required(Dept)
            number = orm.Required(int)
            orm.PrimaryKey(dept, number)
            label = orm.Required(str)
            assignments = orm.Set('Assignment')
            exams = orm.Set('Exam')

        class Teacher(db.Entity):
            id = orm.PrimaryKey(int)
            name = orm.Required(str)
            degree = orm.Optional(str)
            assignments = orm.Set('Assignment')
            exams = orm.Set('Exam')

        class Assignment(db.Entity):
            group = orm.Required(Group)
            teacher = orm.Required(Teacher)
            orm.PrimaryKey(group, teacher)
            hours = orm.Required(int)
            lessons = orm.Set('Lesson')

        class Exam(db.Entity):
            teacher = orm.Required(Teacher)
            group = orm.Required(Group)
            no = orm.Required(int)
            orm.PrimaryKey(teacher, group, no)
            room = orm.Optional(str)
            marks = orm.Set('Mark')

        class Lesson(db.Entity):
            id = orm.PrimaryKey(int)
            assignment = orm.Required(Assignment)
            topic = orm.Required(str)

        class Mark(db.Entity):
            id = orm.PrimaryKey(int)
            exam = orm.Optional(Exam)
            value = orm.Required(int)
        db.generate_mapping(create_tables=True)
        with orm.db_session:
            d = {n: Dept(number=n, title='dept %d' % n) for n in (1, 2)}
            g = {(dn, n): Group(dept=d[dn], number=n, label='g%d%d' % (dn, n)) for dn in (1, 2) for n in (1, 2, 3)}
            t = {1: Teacher(id=1, name='Smith', degree='PhD'), 2: Teacher(id=2, name='Jones', degree=''), 3: Teacher(id=3, name='Brown', degree='MSc')}
            k = 0
            for gk, tn, hours in (((1, 1), 2, 10), ((1, 2), 3, 20), ((1, 3), 1, 30), ((2, 1), 1, 40), ((2, 2), 2, 50), ((2, 3), 2, 60), ((2, 1), 3, 70), ((1, 1), 1, 15), ((2, 2), 3, 25)):
                a = Assignment(group=g[gk], teacher=t[tn], hours=hours)
                for topic in ('intro', 'exam'):
                    k += 1; Lesson(id=k, assignment=a, topic=topic)
            k = 0
            for tn, gk, no, room in ((1, (2, 3), 1, 'r1'), (2, (1, 2), 1, ''), (3, (1, 1), 2, 'r2'), (2, (2, 1), 3, 'r1'), (1, (1, 2), 2, 'r3'), (3, (2, 2), 1, '')):
                x = Exam(teacher=t[tn], group=g[gk], no=no, room=room)
                for v in (tn, no + 3):
                    k += 1; Mark(id=k, exam=x, value=v)
            Mark(id=100, value=9)
        _M = types.SimpleNamespace(db=db, Dept=Dept, Group=Group, Teacher=Teacher, Assignment=Assignment, Exam=Exam, Lesson=Lesson, Mark=Mark)
    return _M


ITEMS = {
    'Assignment': ["x.teacher.name == 'Smith'", "x.teacher.degree == ''", 'x.teacher.id == 2', 'x.group.number == 2', 'x.group.dept.number == 1', "x.group.label == 'g21'", "x.group.dept.title == 'dept 2'",
                   "x.hours > 20 and x.teacher.name < 'K'", 'x.group.dept.number == x.teacher.id', 'x.group.number == x.teacher.id', "x.teacher.name == 'Jones' or x.group.label == 'g11'",
                   'x.teacher.name', 'x.group.label', 'x.group.dept.title', '(x.hours, x.teacher.name, x.group.label)', 'x.teacher.degree', 'len(x.lessons)', 'x.teacher.id + x.group.number'],
    'Lesson': ["x.assignment.teacher.name == 'Jones'", 'x.assignment.group.number == 1', 'x.assignment.group.dept.number == 2', 'x.assignment.hours > 30', "x.assignment.teacher.degree != ''",
               "x.assignment.group.label == 'g11' and x.topic == 'exam'", 'x.assignment.teacher.id == x.assignment.group.number', "x.assignment.group.dept.title == 'dept 1'",
               'x.assignment.teacher.name', 'x.assignment.group.label', '(x.topic, x.assignment.hours, x.assignment.teacher.name)', 'x.assignment.group.dept.title', 'x.assignment.teacher.id'],
    'Exam': ["x.teacher.name == 'Smith'", 'x.group.number == 2', 'x.group.dept.number == 2', "x.group.label == 'g12'", 'x.no == x.teacher.id', 'x.no == x.group.number', "x.room == '' and x.teacher.name > 'B'",
             "x.group.dept.title == 'dept 1'", 'x.teacher.name', 'x.group.label', '(x.no, x.teacher.name, x.group.label, x.group.dept.title)', 'len(x.marks)', 'x.teacher.degree'],
    'Mark': ["x.exam.teacher.name == 'Brown'", 'x.exam.group.number == 1', 'x.exam.group.dept.number == 1', 'x.exam.no == 2', "x.exam.group.label == 'g22'", 'x.value == x.exam.teacher.id', 'x.value == x.exam.group.number',
             "x.exam.room == 'r1'", 'x.exam is None', 'x.exam.teacher.name', 'x.exam.group.label', '(x.value, x.exam.no, x.exam.teacher.name)', 'x.exam.group.dept.title', 'x.exam.no'],
    'Group': ["x.dept.title == 'dept 1'", 'x.dept.number == x.number', 'len(x.assignments) == 2', 'len(x.exams) > 0', "x.label > 'g13'", 'x.dept.title', '(x.label, len(x.assignments), len(x.exams))'],
    'Teacher': ['len(x.assignments) == 3', 'len(x.exams) == 2', "x.degree == ''", '(x.name, len(x.assignments))', 'sum(a.hours for a in x.assignments)', 'max(a.group.number for a in x.assignments)',
                'len(x.assignments) > len(x.exams)', 'min(e.group.dept.number for e in x.exams)', 'max(x.exams.no)', 'sum(x.exams.no) == 3', 'min(x.exams.no) == x.id', 'max(x.exams.no) > len(x.assignments)'],
    'Dept': ['sum(x.groups.number)', 'max(x.groups.number) == 3', 'len(x.groups)', "x.title == 'dept 1'"],
}


def _is_cond(text):
    return any(op in text for op in (' == ', ' != ', ' > ', ' < ', ' is ')) and not text.startswith('(')


def configs(tier):
    return [dict(entity=e, text=t) for e, ts in ITEMS.items() for t in ts]


def _reset():
    try: orm.rollback()
    except Exception: pass
    core.local.db2cache.clear(); core.local.db_context_counter = 0; core.local.db_session = None


def _py(f, obj):
    try: return f(obj)
    except (TypeError, AttributeError): return None          # navigation through a missing reference


def case(cfg, values):
    def call():
        M = model(); E = getattr(M, cfg['entity']); text = cfg['text']; env = {cfg['entity']: E, 'E': E}
        f = eval('lambda x: ' + text, env)
        with orm.db_session:
            objs = list(E.select())
            key = lambda o: repr(o.get_pk())
            if _is_cond(text):
                want = sorted(key(o) for o in objs if _py(f, o) is True)
                try: got = sorted(key(o) for o in E.select(f))
                except (core.TranslationError, NotImplementedError, TypeError) as e: return ['rejected', type(e).__name__]
                if got != want: return ['differs', 'pony selects %r' % got, 'python selects %r' % want]
                return []
            skip = set()                                         # rows on which Python raises (navigation through a missing reference) are not compared
            want = []
            for o in objs:
                try: want.append((key(o), f(o)))
                except (TypeError, AttributeError): skip.add(key(o))
            want.sort(key=repr)
            inner = text[1:-1] if text.startswith('(') else text
            try: rows = orm.select(eval('((x, %s) for x in E)' % inner, env))[:]
            except (core.TranslationError, NotImplementedError, TypeError) as e: return ['rejected', type(e).__name__]
            got = sorted(((key(r[0]), r[1] if len(r) == 2 else tuple(r[1:])) for r in rows if key(r[0]) not in skip), key=repr)
            if got != want: return ['differs'] + [('pony: %r' % (g,), 'python: %r' % (w,)) for g, w in zip(got, want) if g != w][:4] + ['%d rows / %d objects' % (len(got), len(want))]
            return []
    return Case(call, {}, [], lambda r: _reset(), lambda r: _reset())


def spec(cfg, i, path):
    """equal to Python, or refused (a query Pony cannot translate raises an error)"""
    return path.outcome == 'ret' and (path.value == [] or path.value[:1] == ['rejected'])
