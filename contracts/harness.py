"""Shared harness pieces (DESIGN Appendix A): a real in-memory SQLite model and a real translator.
Nothing here re-implements Pony logic: entities, translators and monads are the real objects."""
import copy
from pony.orm import core, sqltranslation as st
from pony import orm

_MODEL = None


class Model(object):
    pass


def model():
    """Real Database + entities on in-memory SQLite (built once per process, under the instrumenting hook)."""
    global _MODEL
    if _MODEL is not None:
        return _MODEL
    M = Model()
    db = orm.Database('sqlite', ':memory:')

    class P(db.Entity):
        name = orm.Required(str)
        opt = orm.Optional(str, nullable=True)
        i = orm.Required(int)
        j = orm.Required(int)
        oi = orm.Optional(int)
        flag = orm.Required(bool, default=False)
        oflag = orm.Optional(bool)
        f = orm.Optional(float)

    db.generate_mapping(create_tables=True)
    M.db = db; M.P = P
    with orm.db_session:
        q = orm.select(p for p in P)
        M.tr0 = q._translator
    M.tr = None
    M.saved_dialect = db.provider.dialect
    _MODEL = M
    return M


def push_translator(M, dialect=None):
    """A fresh shallow copy of the real translator (own vars / fixed_param_values), pushed on the translator stack
    exactly as SQLTranslator.__enter__ does; provider.dialect overridden per configuration."""
    tr = copy.copy(M.tr0)
    tr.root_translator = tr
    tr.vars = {}
    tr.fixed_param_values = {}
    M.tr = tr
    prov = M.db.provider
    if dialect is not None:
        prov.dialect = dialect          # instance attribute shadows the class attribute
        tr.dialect = dialect
    st.local.translators.append(tr)


def pop_translator(M):
    st.local.translators.pop()
    prov = M.db.provider
    if 'dialect' in prov.__dict__:
        del prov.dialect
    M.tr = None
