"""C16 Flush emits writes in an order the database accepts (DESIGN 4-C16).

PROOF (finite, ghost order): Entity._save_principal_objects_ / _save_ on stub object graphs: every referenced object with status 'created' is saved before the
object that refers to it, each exactly once, and a reference cycle among created objects raises UnresolvableCyclicDependency before anything of the cycle
is written; SessionCache.flush round shape: before-hooks, remove_m2m, saves, add_m2m (link rows of deleted objects go first, link rows of new objects last).
BOUNDED (end to end): every script of up to 3 (thorough: 5) operations from a 17-operation alphabet (create with / without references, re-point references in
both directions so that cycles arise, delete, many-to-many link / unlink) on a real SQLite database with immediately enforced foreign keys: when the references
among the objects still to be inserted can be ordered the commit succeeds and the database equals a reference model of the script; when they form a cycle
the flush raises and the database is unchanged."""
import itertools, types
from vf.verify import Contract, Case
from vf.explore import cur
from vf.effects import Patch, note
from pony import orm
from pony.orm import core

META = dict(
    level='proof',
    explanation='principal-first saving and cycle detection decided on the real functions over enumerated reference graphs (finite, ghost order); acceptance by a database with '
                'immediate foreign keys and the final contents checked by exhaustive short scripts against a reference model (bounded)',
    trusted_base=['reference model of the script semantics (40 lines, in this file)', 'SQLite enforces foreign keys immediately'],
    assumptions=['scripts of length <= 3 (quick) / 4 (thorough) over 3 entities', 'stub graphs of up to 4 objects'],
)


# ------------------------------------------------------------------ _save_ / _save_principal_objects_ on stub graphs
class Attr(object):
    def __init__(self, name): self.name = name; self.reverse = True
    def __repr__(self): return self.name


A1, A2 = Attr('r1'), Attr('r2')


class Cache(object):
    is_alive = True
    def __init__(self): self.saved_objects = []; self.objects_to_save = []


def _mk_stub(cache, n, status):
    o = object.__new__(StubEntity)
    o.n = n; o._status_ = status; o._vals_ = {A1: None, A2: None}; o._session_cache_ = cache; o._wbits_ = 3
    o._save_pos_ = len(cache.objects_to_save); cache.objects_to_save.append(o)
    return o


class StubEntity(object):
    """carries the REAL Entity._save_ and Entity._save_principal_objects_; the three statement emitters are ghost events"""
    _attrs_with_columns_ = [A1, A2]
    _save_ = core.Entity._save_
    _save_principal_objects_ = core.Entity._save_principal_objects_
    def _attrs_with_bit_(self, attrs, bits): return list(attrs)
    def _save_created_(self): note('insert', self.n); self._status_ = 'inserted'
    def _save_updated_(self): note('update', self.n); self._status_ = 'updated'
    def _save_deleted_(self): note('delete', self.n); self._status_ = 'deleted'
    def __repr__(self): return 'S%d' % self.n


def _gr_configs(tier):
    """all reference graphs over 3 objects (each object: 2 reference slots -> None, another object or ITSELF), statuses created/modified, every start object"""
    n = 3
    out = []
    targets = [None] + list(range(n))
    for refs in itertools.product(targets, repeat=n):                     # slot r1 of each object
        for extra in ((None,) * n, (1, 2, 0), (2, 0, 1)):                 # slot r2: none, or one of two rotations
            for statuses in itertools.product(('created', 'modified'), repeat=n):
                if statuses.count('modified') > 1: continue
                out.append(dict(r1=refs, r2=extra, statuses=statuses))
    return out


def _gr_case(cfg, values):
    def call():
        st = cur().state
        cache = Cache()
        objs = [_mk_stub(cache, k, s) for k, s in enumerate(cfg['statuses'])]
        for k, o in enumerate(objs):
            for attr, slot in ((A1, cfg['r1'][k]), (A2, cfg['r2'][k])):
                if slot is not None: o._vals_[attr] = objs[slot]                      # (an object may refer to itself: a cycle of length one)
        st['objs'] = objs; st['cache'] = cache
        # exactly what SessionCache.flush does with the queue
        for obj in cache.objects_to_save:
            if obj is not None: obj._save_()
        return 'saved'
    return Case(call, {}, [])


def _edges(cfg):
    e = {}
    for k in range(len(cfg['statuses'])):
        e[k] = [t for t in (cfg['r1'][k], cfg['r2'][k]) if t is not None]
    return e


def _has_created_cycle(cfg):
    """a cycle through references to CREATED objects, reachable from an object that is saved"""
    e = _edges(cfg); st = cfg['statuses']
    def dfs(k, stack):
        for t in e[k]:
            if st[t] != 'created': continue
            if t in stack: return True
            if dfs(t, stack + [t]): return True
        return False
    return any(dfs(k, [k]) for k in e)


def _gr_spec(cfg, i, path):
    ghost = [g for g in path.ghost if g[0] in ('insert', 'update')]
    pos = {g[1]: k for k, g in enumerate(ghost)}
    if len(pos) != len(ghost): return False                                        # nothing is written twice
    e = _edges(cfg); stt = cfg['statuses']
    for k, ts in e.items():                                                        # principal first, for everything that was written
        if k in pos:
            for t in ts:
                if stt[t] == 'created' and not (t in pos and pos[t] < pos[k]): return False
    if path.outcome == 'exc':
        return isinstance(path.value, core.UnresolvableCyclicDependency) and _has_created_cycle(cfg)
    if _has_created_cycle(cfg): return False
    return len(ghost) == len(stt) and all(o is None for o in path.state['cache'].objects_to_save) \
        and [(o.n, s) for o, s in path.state['cache'].saved_objects] == [(g[1], 'inserted' if g[0] == 'insert' else 'updated') for g in ghost]


# ------------------------------------------------------------------ SessionCache.flush round shape
def _fr_case(cfg, values):
    def call():
        st = cur().state
        db = core.Database(); db.provider = types.SimpleNamespace()
        core.local.db_context_counter = 1
        cache = core.SessionCache(db)

        class O(object):
            def __init__(o, n): o.n = n
            def _before_save_(o): note('before', o.n)
            def _save_(o): note('save', o.n)

        class M2M(object):
            def __init__(a, n): a.n = n
            def remove_m2m(a, removed): note('remove_m2m', a.n)
            def add_m2m(a, added): note('add_m2m', a.n)
        cache.objects_to_save.extend([O(0), None, O(1)]); cache.modified = True
        a, b = M2M('a'), M2M('b')
        cache._calc_modified_m2m = lambda: {a: ({1}, {2}), b: (set(), {3})}
        cache.call_after_save_hooks = lambda: note('after_hooks')
        cache.flush()
        return 'flushed'
    return Case(call, {}, [], lambda run: None, lambda run: (core.local.db2cache.clear(), setattr(core.local, 'db_context_counter', 0)))


def _fr_spec(cfg, i, path):
    if path.outcome != 'ret': return False
    return [g[:2] for g in path.ghost] == [('before', 0), ('before', 1), ('remove_m2m', 'a'), ('remove_m2m', 'b'), ('save', 0), ('save', 1), ('add_m2m', 'a'), ('after_hooks',)]


# ------------------------------------------------------------------ end to end scripts
_M = None


def model():
    global _M
    if _M is None:
        db = orm.Database('sqlite', ':memory:')

        class X(db.Entity):
            name = orm.Required(str, unique=True)
            y = orm.Optional('Y', reverse='xs')
            owned = orm.Set('Y', reverse='owner')
            tags = orm.Set('T')
            note = orm.Optional(str)
            zs = orm.Set('Z', cascade_delete=False)          # required on the other side, no cascade: the foreign key has no ON DELETE action

        class Y(db.Entity):
            name = orm.Required(str, unique=True)
            xs = orm.Set(X, reverse='y')
            owner = orm.Optional(X, reverse='owned')

        class T(db.Entity):
            name = orm.Required(str, unique=True)
            xs = orm.Set(X)

        class Z(db.Entity):
            name = orm.Required(str, unique=True)
            p = orm.Required(X)
        db.generate_mapping(create_tables=True)
        _M = types.SimpleNamespace(db=db, X=X, Y=Y, T=T, Z=Z)
    return _M


def _reset_data(M):
    with orm.db_session:
        for t in ('T_X', 'Z', 'X', 'Y', 'T'): M.db.execute('delete from "%s"' % t)
        M.db.execute("insert into Y(id, name, owner) values (1, 'y0', null)")
        M.db.execute("insert into X(id, name, y, note) values (1, 'x0', 1, '')")
        M.db.execute("insert into T(id, name) values (1, 't0')")
        M.db.execute("insert into T_X(t, x) values (1, 1)")
        M.db.execute("insert into Z(id, name, p) values (1, 'z0', 1)")


class RefModel(object):
    """reference semantics of the scripts: names -> rows; `pending` = created and not yet flushed"""
    def __init__(self):
        self.x = {'x0': 'y0'}; self.y = {'y0': None}; self.t = {'t0'}; self.links = {('t0', 'x0')}
        self.z = {'z0': 'x0'}; self.note = {}
        self.pending = set(); self.cycle = False

    def op(self, name):
        k, a = name[0], name[1:]
        x, y = self.x, self.y
        if name == 'cx1': self._new(x, 'x1', None)
        elif name == 'cx1y0': self._need(y, 'y0'); self._new(x, 'x1', 'y0')
        elif name == 'cx1y1': self._need(y, 'y1'); self._new(x, 'x1', 'y1')
        elif name == 'cy1': self._new(y, 'y1', None)
        elif name == 'cy1x0': self._need(x, 'x0'); self._new(y, 'y1', 'x0')
        elif name == 'cy1x1': self._need(x, 'x1'); self._new(y, 'y1', 'x1')
        elif name == 'x1.y=y1': self._need(x, 'x1'); self._need(y, 'y1'); x['x1'] = 'y1'
        elif name == 'y1.owner=x1': self._need(x, 'x1'); self._need(y, 'y1'); y['y1'] = 'x1'
        elif name == 'x0.y=y1': self._need(x, 'x0'); self._need(y, 'y1'); x['x0'] = 'y1'
        elif name == 'y0.owner=x1': self._need(x, 'x1'); self._need(y, 'y0'); y['y0'] = 'x1'
        elif name in ('ex0', 'ex1'): self._need(x, name[1:]); self.note[name[1:]] = 'edited'
        elif name == 'z0.p=x1': self._need(x, 'x1'); self._need(self.z, 'z0'); self.z['z0'] = 'x1'
        elif name == 'dz0': self._need(self.z, 'z0'); del self.z['z0']
        elif name in ('dx0', 'dx1'):
            n = name[1:]; self._need(x, n)
            if n in self.z.values(): raise LookupError('refused: a required dependent without cascade')          # such a delete is refused (C15); not a script of this family
            del x[n]; self.pending.discard(n); self.note.pop(n, None)
            for k2 in y:
                if y[k2] == n: y[k2] = None
            self.links = {l for l in self.links if l[1] != n}
        elif name in ('dy0', 'dy1'):
            n = name[1:]; self._need(y, n); del y[n]; self.pending.discard(n)
            for k2 in x:
                if x[k2] == n: x[k2] = None
        elif name == 't0+x1': self._need(x, 'x1'); self._need(self.t, 't0'); self.links.add(('t0', 'x1'))
        elif name == 't0-x0':
            self._need(x, 'x0'); self._need(self.t, 't0')
            self.links.discard(('t0', 'x0'))
        elif name == 'ct1x1': self._need(x, 'x1'); self._new(self.t, 't1', None); self.links.add(('t1', 'x1'))
        elif name == 'dt0':
            self._need(self.t, 't0'); self.t.discard('t0'); self.links = {l for l in self.links if l[0] != 't0'}
        else: raise KeyError(name)

    def _need(self, d, n):
        if n not in d: raise LookupError(n)

    def _new(self, d, n, ref):
        if n in d: raise LookupError('exists ' + n)
        if isinstance(d, set): d.add(n)
        else: d[n] = ref
        self.pending.add(n)

    def flush(self):
        """can the pending inserts be ordered? edges between PENDING objects only"""
        e = {}
        for n in self.pending:
            ref = self.x.get(n) if n in self.x else self.y.get(n) if n in self.y else None
            e[n] = [ref] if ref in self.pending else []
        def cyc(n, stack):
            return any(t in stack or cyc(t, stack + [t]) for t in e[n])
        if any(cyc(n, [n]) for n in e): self.cycle = True
        else: self.pending = set()

    def rows(self):
        return dict(x=sorted(self.x.items()), y=sorted(self.y.items()), t=sorted(self.t), links=sorted(self.links), z=sorted(self.z.items()), note=sorted(self.note.items()))


OPS = ['cx1', 'cx1y0', 'cx1y1', 'cy1', 'cy1x0', 'cy1x1', 'x1.y=y1', 'y1.owner=x1', 'x0.y=y1', 'y0.owner=x1', 'dx0', 'dx1', 'dy0', 'dy1', 't0+x1', 't0-x0', 'ct1x1', 'dt0',
       'ex0', 'ex1', 'z0.p=x1', 'dz0']


def _valid(seq):
    m = RefModel()
    try:
        for o in seq: m.op(o)
    except LookupError:
        return False
    return True


def _key_reuse(seq):
    """a unique name is deleted and created again later in the same session (see known_findings.json)"""
    for k, o in enumerate(seq):
        if o in ('dx1', 'dy1'):
            n = o[1:]
            if any(o2.startswith('c' + n) for o2 in seq[k + 1:]): return True
    return False


EXTRA = [('cx1', 'z0.p=x1', 'dx0', 'dz0'), ('cx1', 'ex0', 'z0.p=x1', 'dx0'), ('ex0', 'cx1', 'z0.p=x1', 'dx0'), ('ex0', 'dy0', 'dz0', 'dx0'), ('cx1', 'ex1', 'z0.p=x1', 'dz0', 'dx1'),
         ('cx1', 'cy1x0', 'dx1', 'cx1', 'y1.owner=x1'), ('cy1', 'cx1y0', 'dy1', 'cy1', 'x1.y=y1'), ('cx1', 'cy1x0', 'dx1', 'cx1', 'dy1'), ('cx1', 'cy1x1', 'x1.y=y1', 'dt0')]


def _sc_configs(tier):
    n = 5 if tier == 'thorough' else 3
    out = []
    for L in range(1, n + 1):
        for seq in itertools.product(OPS, repeat=L):
            if not _valid(seq): continue
            out.append(dict(script=' ; '.join(seq), flush_between=False, key_reuse=_key_reuse(seq), preload=False))
            # with everything loaded beforehand no operation needs a query, so nothing is flushed until the end: the whole script is ONE flush
            if L <= 3 or tier == 'thorough' and L == 4: out.append(dict(script=' ; '.join(seq), flush_between=False, key_reuse=_key_reuse(seq), preload=True))
            if L == 3 and tier == 'thorough' or L == 2: out.append(dict(script=' ; '.join(seq), flush_between=True, key_reuse=_key_reuse(seq), preload=False))
    if tier != 'thorough':
        out.extend(dict(script=' ; '.join(seq), flush_between=False, key_reuse=_key_reuse(seq), preload=pl) for seq in EXTRA for pl in (False, True))
    return out


def _apply(M, name):
    X, Y, T = M.X, M.Y, M.T
    gx = lambda n: X.get(name=n); gy = lambda n: Y.get(name=n); gt = lambda n: T.get(name=n)
    if name == 'cx1': X(name='x1')
    elif name == 'cx1y0': X(name='x1', y=gy('y0'))
    elif name == 'cx1y1': X(name='x1', y=gy('y1'))
    elif name == 'cy1': Y(name='y1')
    elif name == 'cy1x0': Y(name='y1', owner=gx('x0'))
    elif name == 'cy1x1': Y(name='y1', owner=gx('x1'))
    elif name == 'x1.y=y1': gx('x1').y = gy('y1')
    elif name == 'y1.owner=x1': gy('y1').owner = gx('x1')
    elif name == 'x0.y=y1': gx('x0').y = gy('y1')
    elif name == 'y0.owner=x1': gy('y0').owner = gx('x1')
    elif name in ('ex0', 'ex1'): gx(name[1:]).note = 'edited'
    elif name == 'z0.p=x1': M.Z.get(name='z0').p = gx('x1')
    elif name == 'dz0': M.Z.get(name='z0').delete()
    elif name[0] == 'd' and name[1] == 'x': gx(name[1:]).delete()
    elif name[0] == 'd' and name[1] == 'y': gy(name[1:]).delete()
    elif name == 't0+x1': gt('t0').xs.add(gx('x1'))
    elif name == 't0-x0': gt('t0').xs.remove(gx('x0'))
    elif name == 'ct1x1': T(name='t1', xs=[gx('x1')])
    elif name == 'dt0': gt('t0').delete()
    else: raise KeyError(name)


def _db_rows(M):
    con = M.db.provider.pool.con
    q = lambda s: sorted(con.execute(s).fetchall())
    return dict(x=q('select X.name, Y.name from X left join Y on X.y = Y.id'), y=q('select Y.name, X.name from Y left join X on Y.owner = X.id'),
                t=[r[0] for r in q('select name from T')], links=q('select T.name, X.name from T_X join T on T.id = T_X.t join X on X.id = T_X.x'),
                z=q('select Z.name, X.name from Z join X on Z.p = X.id'), note=q("select name, note from X where note <> ''")), \
        con.execute('PRAGMA foreign_key_check').fetchall(), con.execute('select count(*) from T_X').fetchone()[0]


def _sc_case(cfg, values):
    M = model()

    def setup(run):
        core.local.db2cache.clear(); core.local.db_context_counter = 0; core.local.db_session = None
        run.state['patch'] = Patch()

    def teardown(run):
        run.state['patch'].restore()
        try: orm.rollback()
        except Exception: pass
        core.local.db2cache.clear(); core.local.db_context_counter = 0; core.local.db_session = None

    def call():
        st = cur().state
        seq = cfg['script'].split(' ; ')
        _reset_data(M)
        st['before'] = _db_rows(M)[0]
        ref = RefModel()
        st['exc'] = None
        real_flush = core.SessionCache.flush

        def flush(cache):
            # the reference model flushes exactly when the session does (explicit, automatic before a query, or at commit)
            if cache.modified and not cache.noflush_counter and cache.database is M.db: ref.flush()
            return real_flush(cache)
        st['patch'].set(core.SessionCache, 'flush', flush)
        try:
            with orm.db_session:
                if cfg['preload']:
                    for E in (M.X, M.Y, M.T, M.Z): list(E.select())
                    for x in M.X.select(): list(x.tags); list(x.zs); list(x.owned)
                    for y in M.Y.select(): list(y.xs)
                for k, o in enumerate(seq):
                    _apply(M, o); ref.op(o)
                    if cfg['flush_between'] and k < len(seq) - 1: orm.flush()
        except Exception as e:
            st['exc'] = e
        st['patch'].restore()
        st['ref'] = ref
        st['after'], st['fk'], st['nlinks'] = _db_rows(M)
        return 'done'
    return Case(call, {}, [], setup, teardown)


def _sc_spec(cfg, i, path):
    if path.outcome != 'ret': return False
    st = path.state; ref = st['ref']
    if st['fk']: return False
    if ref.cycle:
        # references that cannot be ordered: an error, and nothing of the session is committed
        return st['exc'] is not None and isinstance(st['exc'], (core.UnresolvableCyclicDependency, core.CommitException)) and st['after'] == st['before']
    if st['exc'] is not None: return False                                   # orderable: the flush must succeed under immediate foreign keys
    want = ref.rows()
    got = {k: [tuple(r) if isinstance(r, (tuple, list)) else r for r in v] for k, v in st['after'].items()}
    return got == want and st['nlinks'] == len(want['links'])


CONTRACTS = [
    Contract('principal_first_saving', ['pony.orm.core:Entity._save_', 'pony.orm.core:Entity._save_principal_objects_'], _gr_configs, _gr_case,
             [('created_principals_saved_first_each_once_cycles_refused', _gr_spec)], allowed_exc=(core.UnresolvableCyclicDependency,)),
    Contract('SessionCache.flush.round', 'pony.orm.core:SessionCache.flush', [dict()], _fr_case, [('before_hooks_remove_m2m_saves_add_m2m_after_hooks', _fr_spec)]),
    Contract('scripts_under_immediate_foreign_keys', ['pony.orm.core:SessionCache.flush', 'pony.orm.core:Entity._save_', 'pony.orm.core:Entity._save_principal_objects_',
                                                       'pony.orm.core:SessionCache._calc_modified_m2m', 'pony.orm.core:Set.add_m2m', 'pony.orm.core:Set.remove_m2m', 'pony.orm.core:Entity._delete_'],
             _sc_configs, _sc_case, [('orderable_scripts_commit_and_match_the_model_cycles_are_refused', _sc_spec)], level='bounded',
             bound='all valid scripts of length <= 3 (thorough: 5) over a 22-operation alphabet on 4 entities (two opposite optional many-to-one references, one required many-to-one without cascade, one many-to-many, edits of a plain attribute)', budget=100),
]
