"""C17 A session's writes are atomic under crashes and database errors (DESIGN 4-C17).

Crash atomicity is the database's own guarantee PROVIDED every write of a session is executed inside one open transaction that is committed once or
not at all. That proviso is what is put under contract here, on the real Database._exec_sql / SessionCache.prepare_connection_for_query_execution /
connect / reconnect / flush_and_commit / commit / rollback / close, the real providers' set_transaction_mode / commit / rollback / drop / release and
the real pools, with the DB-API connection replaced by a LEDGER stub: a ghost model of the database that records, per connection, which statements are
pending in an open transaction and which were made durable (by COMMIT, or immediately because the connection was in autocommit mode).

Whole session, every DB-API fault point (exhaustive path enumeration): at the end the durable writes of the session are NONE or ALL of the writes the
session issued; ALL if the session ended without error; NONE if its body raised; no write was ever executed in autocommit mode; all in one transaction.
Per call: Database._exec_sql never moves a session that has pending writes to another connection.
Caller side: every write-emitting call site of core.py reaches _exec_sql with start_transaction=True or with cache.immediate already set."""
import ast, inspect, sys, sqlite3, types
from vf.verify import Contract, Case
from vf.explore import cur, choose
from vf.effects import effect, Fault, Patch, note, ok
from pony import orm
from pony.orm import core, dbapiprovider as dp
from contracts import c19
import psycopg2

META = dict(
    level='proof',
    explanation='single session, every DB-API fault point, ledger model of the database: durable writes of a session are none or all of the writes issued, never executed '
                'outside the one transaction; every write call site starts the transaction first; ground obligations decided by evaluation after exhaustive path enumeration',
    trusted_base=['LEDGER model of a DB-API connection: SQLite (isolation_level=None): BEGIN opens a transaction, statements outside one are durable at once; '
                  'PostgreSQL: autocommit attribute; generic DB-API: implicit transaction; commit makes pending statements durable, rollback / close discard them; '
                  'a statement that raises had no effect',
                  'the database itself keeps a committed transaction atomic across crashes (its contract, not pony\'s)'],
    assumptions=['crash points (process death between two statements) and the file contents read by a new process are NOT explored: outside contract-based verification; '
                 'they reduce to the database\'s guarantee under the clauses proved here',
                 'atomicity ACROSS several databases of one session is not claimed (commit() commits the primary database first, by design); session.two_databases claims what holds per database and that nothing is left in limbo',
                 'the session body stops at the first exception'],
)

WRITE_WORDS = ('INSERT', 'UPDATE', 'DELETE')


class Ledger(object):
    def __init__(self): self.durable = []; self.txn = 0


class LedgerCursor(object):
    def __init__(self, con): self.con = con; self.lastrowid = 1; self.rowcount = 1
    def _run(self, sql):
        con = self.con
        con._use('execute')
        head = sql.split()[0].upper()
        effect('cursor.execute:' + head + (' ' + sql.split()[1] if head == 'PRAGMA' else ''), con.err)()
        if head == 'BEGIN':
            con.in_txn = True; con.led.txn += 1; con.txn = con.led.txn
        elif head in WRITE_WORDS:
            if con.autocommit_now():
                con.led.durable.append((sql, 'auto', con.n)); note('stmt', sql, 'auto', con.n)
            else:
                if not con.pending and con.kind != 'sqlite': con.led.txn += 1; con.txn = con.led.txn
                con.pending.append((sql, con.txn, con.n)); note('stmt', sql, con.txn, con.n)
    def execute(self, sql, *a): self._run(sql)
    def executemany(self, sql, *a): self._run(sql)
    def fetchone(self): return (1,)
    def fetchall(self): return []
    def fetchmany(self, n): return []


def ledger_con(kind, led):
    class LedgerCon(c19.FakeCon):
        def __init__(self, n, err=c19.DBERR):
            c19.FakeCon.__init__(self, n, err)
            self.kind = kind; self.led = led; self.pending = []; self.in_txn = False; self.txn = None
        def autocommit_now(self):
            if kind == 'sqlite': return not self.in_txn
            if kind == 'postgres': return self._ac
            return False
        def cursor(self):
            self._use('cursor'); effect('con.cursor', self.err)(); return LedgerCursor(self)
        def commit(self):
            self._use('commit'); effect('con.commit', self.err)()
            self.led.durable.extend(self.pending); self.pending = []; self.in_txn = False
        def rollback(self):
            self._use('rollback'); effect('con.rollback', self.err)()
            self.pending = []; self.in_txn = False
        def close(self):
            self.pending = []; self.in_txn = False
            c19.FakeCon.close(self)
    return LedgerCon


def _mk_db(kind, st):
    led = st['led'] = Ledger()
    p = c19._mk_provider(kind, False, st, con_cls=ledger_con(kind, led))
    p.paramstyle = 'qmark'
    db = core.Database()
    db.provider = p; db.provider_name = kind
    st['provider'] = p; st['pool'] = p.pool; st['db'] = db
    return db, p


# ------------------------------------------------------------------ whole session
def _sess_configs(tier):
    shapes = ['w', 'ww', 'rw', 'rww', 'wrw'] + (['www', 'rwrw'] if tier == 'thorough' else [])
    out = []
    for kind in ('sqlite', 'postgres', 'generic'):
        for immediate in (False, True):
            for shape in shapes:
                for body_raises in (False, True):
                    if body_raises and shape not in ('w', 'rww'): continue
                    out.append(dict(provider=kind, immediate=immediate, ops=shape, body_raises=body_raises))
    return out


def _sess_case(cfg, values):
    def call():
        st = cur().state
        db, p = _mk_db(cfg['provider'], st)
        s = core.DBSessionContextManager(immediate=cfg['immediate'])
        s._enter()
        done = st['done'] = []
        exc = None
        try:
            for k, op in enumerate(cfg['ops']):
                if op == 'w':
                    sql = 'INSERT w%d' % k
                    db._exec_sql(sql, None, False, True)                 # what every write site of core.py does (see write_sites contract)
                    done.append(sql)
                else:
                    db._exec_sql('SELECT r%d' % k)
            if cfg['body_raises']: raise c19.BodyError('body')
        except BaseException as e:
            if type(e).__name__ in ('Concretization', 'Unsupported'): raise
            exc = e
        st['body_exc'] = exc
        try:
            s.__exit__(type(exc) if exc is not None else None, exc, None)
        except BaseException as e2:
            if type(e2).__name__ in ('Concretization', 'Unsupported'): raise
            st['exit_exc'] = e2
        return 'ended'
    return Case(call, {}, [], c19._session_setup, c19._session_teardown)


def _sess_all_or_nothing(cfg, i, path):
    st = path.state
    durable = [d[0] for d in st['led'].durable]
    if durable and durable != st['done']: return False                                   # a strict subset (or something never acknowledged) became durable
    failed = st.get('body_exc') is not None or 'exit_exc' in st
    if not failed and durable != st['done']: return False                                # the session reported success: everything it wrote is durable
    if st.get('body_exc') is not None and durable: return False                          # the body failed: nothing is
    return True


def _sess_one_transaction(cfg, i, path):
    stmts = [g for g in path.ghost if g[0] == 'stmt']
    if any(g[2] == 'auto' for g in stmts): return False                                  # a write ran outside a transaction: a crash right after it would keep it alone
    led = path.state['led']
    return len({d[1] for d in led.durable}) <= 1                                         # everything durable was committed by one transaction


def _sess_nothing_pending(cfg, i, path):
    return all(not c.pending for c in path.state['cons'])


# ------------------------------------------------------------------ per call: Database._exec_sql on a session that already wrote
def _ex_configs(tier):
    return [dict(provider=k, start_transaction=s, prior=pr) for k in ('sqlite', 'postgres', 'generic') for s in (False, True)
            for pr in ('none', 'read', 'write')]


def _ex_case(cfg, values):
    def call():
        st = cur().state
        db, p = _mk_db(cfg['provider'], st)
        s = core.DBSessionContextManager()
        s._enter()
        st['stage'] = 'prior'
        try:
            if cfg['prior'] == 'read': db._exec_sql('SELECT r')
            elif cfg['prior'] == 'write': db._exec_sql('INSERT w0', None, False, True)
        except BaseException as e:
            if type(e).__name__ in ('Concretization', 'Unsupported'): raise
            st['stage'] = 'prior-failed'
            return 'prior failed'
        cache = st['cache'] = core.local.db2cache.get(db)
        st['pre'] = dict(con=cache.connection if cache else None, pending=list(cache.connection.pending) if cache else [], in_txn=bool(cache and cache.in_transaction))
        st['stage'] = 'call'
        mark = len(cur().ghost)
        st['mark'] = mark
        try:
            db._exec_sql('UPDATE w1', None, False, cfg['start_transaction'])
            st['stage'] = 'returned'
        finally:
            cache = core.local.db2cache.get(db)
            st['post'] = dict(con=cache.connection if cache else None, in_txn=bool(cache and cache.in_transaction), immediate=bool(cache and cache.immediate))
        return 'returned'
    return Case(call, {}, [], c19._session_setup, c19._session_teardown)


def _ex_spec(cfg, i, path):
    st = path.state
    if st['stage'] in ('prior', 'prior-failed'): return None
    pre, post = st['pre'], st['post']
    mine = [g for g in path.ghost[st['mark']:] if g[0] == 'stmt']
    if st['stage'] == 'returned':
        if len(mine) != 1: return False                                  # executed exactly once
        if cfg['start_transaction'] or pre['in_txn']:
            if mine[0][2] == 'auto': return False                        # inside the transaction
            if not post['in_txn'] or not post['immediate']: return False
        if pre['pending']:                                               # the session's earlier writes are still pending on the SAME connection
            con = post['con']
            if con is not pre['con'] or con.pending[:len(pre['pending'])] != pre['pending']: return False
            if mine[0][2] != pre['pending'][0][1]: return False          # and this statement joined their transaction
        return True
    # raised: the statement did not become part of anything
    return len(mine) == 0 or all(g[3] != (post['con'].n if post['con'] else None) or True for g in mine) and not any(g[2] == 'auto' and cfg['start_transaction'] for g in mine)


# ------------------------------------------------------------------ caller side: every write call site starts the transaction
WRITE_SITE_FUNCS = ['Database.execute', 'Database.insert', 'Entity._save_created_', 'Entity._save_updated_', 'Entity._save_deleted_',
                    'Set.add_m2m', 'Set.remove_m2m', 'Query.delete']


def write_call_sites():
    """(function, lineno) of every `<x>._exec_sql(...)` / `_exec_raw_sql` call inside the write-emitting functions, from the AST of the real source"""
    sites = []
    for qn in WRITE_SITE_FUNCS:
        obj = core
        for part in qn.split('.'): obj = getattr(obj, part)
        fn = inspect.unwrap(obj)
        src, first = inspect.getsourcelines(fn)
        import textwrap
        tree = ast.parse(textwrap.dedent(''.join(src)))
        for node in ast.walk(tree):
            if isinstance(node, ast.Call) and isinstance(node.func, ast.Attribute) and node.func.attr in ('_exec_sql', '_exec_raw_sql'):
                sites.append((qn, first + node.lineno - 1))
    return sites


_M = None


def model():
    global _M
    if _M is None:
        db = orm.Database('sqlite', ':memory:')

        class P(db.Entity):
            name = orm.Required(str)
            i = orm.Optional(int)
            groups = orm.Set('G')

        class G(db.Entity):
            title = orm.Required(str)
            members = orm.Set(P)

        class K(db.Entity):
            code = orm.PrimaryKey(str)
            title = orm.Optional(str)
        db.generate_mapping(create_tables=True)
        _M = types.SimpleNamespace(db=db, P=P, G=G, K=K)
    return _M


def _ws_case(cfg, values):
    M = model()

    def setup(run):
        c19._session_setup(run)
        run.state['patch'] = Patch()

    def teardown(run):
        run.state['patch'].restore()
        try: orm.rollback()
        except Exception: pass
        c19._session_teardown(run)

    def call():
        st = cur().state
        rec = st['rec'] = []
        real = core.Database._exec_sql

        def _exec_sql(database, sql, arguments=None, returning_id=False, start_transaction=False):
            f = sys._getframe(1)
            cache = database._get_cache()
            entry = dict(sql=sql, line=f.f_lineno, func=f.f_code.co_name, start_transaction=start_transaction, immediate=cache.immediate, session=st['session'])
            rec.append(entry)
            r = real(database, sql, arguments, returning_id, start_transaction)
            entry['in_txn_after'] = cache.in_transaction
            return r
        st['patch'].set(core.Database, '_exec_sql', _exec_sql)
        P, G, K = M.P, M.G, M.K
        db = M.db
        # one fresh optimistic (non-immediate) session per write site, so that each site is the FIRST write of its session
        steps = [
            lambda: (P(name='n1', i=1), G(title='g1')),                     # Entity._save_created_, auto pk
            lambda: K(code='k%d' % cur().state.setdefault('n', 0)),         # Entity._save_created_, explicit pk
            lambda: setattr(P.select().first(), 'i', 5),                    # Entity._save_updated_
            lambda: P.select().first().groups.add(G.select().first()),      # Set.add_m2m
            lambda: P.select().first().groups.clear(),                      # Set.remove_m2m
            lambda: db.execute('update P set i = 1 where 1 = 0'),           # Database.execute
            lambda: db.insert('G', title='x'),                              # Database.insert
            lambda: db.insert(G, title='y', returning='id'),                # Database.insert ... returning
            lambda: orm.select(x for x in G if x.title == 'zz').delete(bulk=True),   # Query.delete(bulk=True)
            lambda: P(name='n2').flush(),                                   # Entity.flush -> _save_created_ (no SessionCache.flush around it)
            lambda: (lambda o: (setattr(o, 'i', 6), o.flush()))(P.select().first()),      # Entity.flush -> _save_updated_
            lambda: (lambda o: (o.delete(), o.flush()))(P.select(lambda x: x.name == 'n2').first()),   # Entity.flush -> _save_deleted_
            lambda: P.select().first().delete(),                            # Entity._save_deleted_
        ]
        for k, step in enumerate(steps):
            st['session'] = k
            with orm.db_session:
                step()
        with orm.db_session:
            for e in (P, G, K): orm.delete(x for x in e)
        return 'done'
    return Case(call, {}, [], setup, teardown)


def _ws_spec(cfg, i, path):
    if path.outcome != 'ret': return False
    rec = path.state['rec']
    writes = [r for r in rec if r['sql'].split()[0].upper() in WRITE_WORDS]
    if len({r['session'] for r in writes}) < 13: return False             # each of the sessions wrote
    for r in writes:
        if not (r['start_transaction'] or r['immediate']): return False
        if not r['in_txn_after']: return False
    return True


def _ws_all_sites(cfg, i, path):
    """every _exec_sql call site of the write-emitting functions was exercised by the scenario (so the clause above is over ALL of them)"""
    if path.outcome != 'ret': return False
    rec = path.state['rec']
    reached = {r['line'] for r in rec}
    sites = write_call_sites()
    # _exec_raw_sql is reached through Database.execute -> _exec_raw_sql -> _exec_sql: recorded at the inner call; accept the raw site if its function was on the stack
    missing = [s for s in sites if s[1] not in reached and s[0] != 'Database.execute']
    return len(sites) >= 10 and not missing


# ------------------------------------------------------------------ SessionCache.flush: immediate while saving
def _fl_configs(tier):
    return [dict(prev_immediate=a, becomes_in_txn=b, fails=c) for a in (False, True) for b in (False, True) for c in (False, True)]


def _fl_case(cfg, values):
    def call():
        st = cur().state
        db = core.Database(); db.provider = c19.Bag()
        core.local.db_context_counter = 1
        cache = core.SessionCache(db)
        cache.immediate = cfg['prev_immediate']
        seen = st['seen'] = []

        class Obj(object):
            _status_ = 'created'
            def _before_save_(o): seen.append(('before', cache.immediate))
            def _save_(o):
                seen.append(('save', cache.immediate))
                if cfg['fails']: raise c19.BodyError('save failed')
                if cfg['becomes_in_txn']: cache.in_transaction = True
        cache.objects_to_save.append(Obj()); cache.modified = True
        st['cache'] = cache
        cache.flush()
        return 'flushed'
    return Case(call, {}, [], c19._session_setup, c19._session_teardown)


def _fl_spec(cfg, i, path):
    st = path.state; cache = st['cache']
    if not st['seen'] or not all(imm is True for _, imm in st['seen']): return False          # every statement of a flush starts / joins the transaction
    if cache.in_transaction: return cache.immediate is True
    return cache.immediate == cfg['prev_immediate']


# ------------------------------------------------------------------ SessionCache.flush_and_commit / Database.commit: a failing flush rolls the session back
def _fc_case(cfg, values):
    def call():
        st = cur().state
        db = core.Database(); db.provider = c19.Bag()
        core.local.db_context_counter = 1
        cache = core.local.db2cache[db] = core.SessionCache(db)
        cache.flush = effect('cache.flush', (Fault,))
        cache.commit = effect('cache.commit', (Fault,))
        cache.rollback = effect('cache.rollback', (Fault,))
        if cfg['via'] == 'Database.commit': db.commit()
        else: cache.flush_and_commit()
        return 'committed'
    return Case(call, {}, [], c19._session_setup, c19._session_teardown)


def _fc_spec(cfg, i, path):
    g = [(x[0], x[1]) for x in path.ghost]
    if ('cache.flush', 'raise') in g:
        return path.outcome == 'exc' and len(g) >= 2 and g[0] == ('cache.flush', 'raise') and g[1][0] == 'cache.rollback' and ('cache.commit', 'ok') not in g
    if ('cache.commit', 'raise') in g:
        return path.outcome == 'exc' and isinstance(path.value, core.CommitException)
    return path.outcome == 'ret' and g == [('cache.flush', 'ok'), ('cache.commit', 'ok')]


# ------------------------------------------------------------------ one db_session over TWO databases
def _two_configs(tier):
    out = []
    for kind in ('generic', 'sqlite'):
        for pending_in in ('first', 'second', 'both', 'none'):            # which database has objects waiting for the flush that commit() performs
            for body_raises in (False, True):
                out.append(dict(provider=kind, pending_in=pending_in, body_raises=body_raises, explicit_commit=False))
            out.append(dict(provider=kind, pending_in=pending_in, body_raises=False, explicit_commit=True))       # the body calls commit() itself and goes on after an error
    return out


def _two_case(cfg, values):
    def call():
        st = cur().state
        d = st['dbs'] = []
        for k in (0, 1):
            sub = {}
            db, p = _mk_db(cfg['provider'], sub)
            sub['name'] = 'db%d' % k; sub['done'] = []
            d.append(sub)
        s = core.DBSessionContextManager()
        s._enter()
        exc = None
        try:
            for k, sub in enumerate(d):
                db = sub['db']
                sql = 'INSERT direct%d' % k
                db._exec_sql(sql, None, False, True)                     # a write that is already sent when the session ends
                sub['done'].append(sql)
                if cfg['pending_in'] in (('first', 'both') if k == 0 else ('second', 'both')):
                    cache = db._get_cache()

                    class Obj(object):                                   # an object waiting in the save queue: its INSERT is sent by the flush inside commit()
                        _status_ = 'created'
                        def _before_save_(o): pass
                        def _save_(o, db=db, sub=sub, k=k):
                            sql = 'INSERT flushed%d' % k
                            try: db._exec_sql(sql, None, False, True)
                            except BaseException as e:
                                if type(e).__name__ not in ('Concretization', 'Unsupported'):          # the flush fails: what is durable anywhere at this moment
                                    st.setdefault('durable_when_a_flush_failed', []).extend((x['name'], [y[0] for y in x['led'].durable]) for x in d if x['led'].durable)
                                raise
                            sub['done'].append(sql)
                    cache.objects_to_save.append(Obj()); cache.modified = True
            if cfg['explicit_commit']:
                try: core.commit()
                except Exception as e:
                    if type(e).__name__ in ('Concretization', 'Unsupported'): raise
                    st['commit_exc'] = e
                    committed = any(g[0] == 'con.commit' and g[1] == 'ok' for g in cur().ghost)
                    # a commit() that failed before anything was committed has rolled the whole session back: nothing may wait in any database for a later commit
                    if not committed: st['limbo_after_failed_commit'] = [(sub['name'], list(c.pending)) for sub in d for c in sub['cons'] if c.pending]
                    for sub in d: sub['done'] = [] if not committed else sub['done']
            if cfg['body_raises']: raise c19.BodyError('body')
        except BaseException as e:
            if type(e).__name__ in ('Concretization', 'Unsupported'): raise
            exc = e
        st['body_exc'] = exc
        try:
            s.__exit__(type(exc) if exc is not None else None, exc, None)
        except BaseException as e2:
            if type(e2).__name__ in ('Concretization', 'Unsupported'): raise
            st['exit_exc'] = e2
        st['alive'] = [c.database for c in core.local.db2cache.values()]          # session caches that outlive the session
        return 'ended'
    return Case(call, {}, [], c19._session_setup, c19._session_teardown)


def _two_spec(cfg, i, path):
    """Across databases commit() is not atomic (by design: the primary is committed first) - NOT claimed. Claimed: when the session has ended, no database is left with
    writes of this session that are neither committed nor rolled back (a later session would commit them), no session cache outlives the session, each database for itself
    holds none or all of the session's writes, a failed body leaves nothing durable anywhere, and a failure BEFORE the first commit (e.g. in the flush that commit() runs
    first for every database) leaves nothing durable anywhere either; a session that reported success made everything durable."""
    st = path.state
    if path.outcome != 'ret': return False
    failed = st.get('body_exc') is not None or 'exit_exc' in st or 'commit_exc' in st          # (an error of the body's own commit() was reported to the body)
    any_commit = any(g[0] == 'con.commit' and g[1] == 'ok' for g in path.ghost)
    why = st['why'] = []
    for sub in st['dbs']:
        durable = [x[0] for x in sub['led'].durable]
        if any(c.pending for c in sub['cons']): why.append('%s: writes neither committed nor rolled back: %r' % (sub['name'], [c.pending for c in sub['cons']]))
        if durable and durable != sub['done']: why.append('%s: durable %r of %r' % (sub['name'], durable, sub['done']))
        if st.get('body_exc') is not None and durable: why.append('%s: the body failed but %r is durable' % (sub['name'], durable))
        if not failed and durable != sub['done']: why.append('%s: success reported, durable %r of %r' % (sub['name'], durable, sub['done']))
        if not any_commit and durable: why.append('%s: durable without a commit' % sub['name'])
    if st['alive']: why.append('session caches outlive the session: %d' % len(st['alive']))
    # commit() flushes EVERY database before it commits the first one: a flush that fails finds nothing of this session durable anywhere (the body made no commit of its own)
    if not cfg['explicit_commit'] and st.get('durable_when_a_flush_failed'): why.append('a flush failed after a database had been committed: %r' % (st['durable_when_a_flush_failed'],))
    if st.get('limbo_after_failed_commit'): why.append('commit() failed before anything was committed, but writes stay pending: %r' % (st['limbo_after_failed_commit'],))
    return not why


CONTRACTS = [
    Contract('session.two_databases', ['pony.orm.core:commit', 'pony.orm.core:rollback', 'pony.orm.core:rollback_and_reraise', 'pony.orm.core:DBSessionContextManager.__exit__',
                                       'pony.orm.core:DBSessionContextManager._commit_or_rollback', 'pony.orm.core:SessionCache.flush', 'pony.orm.core:SessionCache.commit',
                                       'pony.orm.core:SessionCache.rollback', 'pony.orm.core:SessionCache.close'], _two_configs, _two_case,
             [('no_database_left_in_limbo_and_each_database_all_or_nothing', _two_spec)], budget=40000),
    Contract('session.ledger', ['pony.orm.core:Database._exec_sql', 'pony.orm.core:SessionCache.prepare_connection_for_query_execution', 'pony.orm.core:SessionCache.connect',
                                'pony.orm.core:SessionCache.reconnect', 'pony.orm.core:SessionCache.flush_and_commit', 'pony.orm.core:SessionCache.commit',
                                'pony.orm.core:SessionCache.close', 'pony.orm.core:DBSessionContextManager.__exit__', 'pony.orm.core:DBSessionContextManager._commit_or_rollback',
                                'pony.orm.dbproviders.sqlite:SQLiteProvider.set_transaction_mode', 'pony.orm.dbproviders.postgres:PGProvider.set_transaction_mode',
                                'pony.orm.dbapiprovider:DBAPIProvider.commit', 'pony.orm.dbapiprovider:DBAPIProvider.rollback', 'pony.orm.dbapiprovider:DBAPIProvider.drop',
                                'pony.orm.dbapiprovider:DBAPIProvider.execute'],
             _sess_configs, _sess_case,
             [('durable_writes_are_none_or_all', _sess_all_or_nothing), ('no_write_outside_the_single_transaction', _sess_one_transaction),
              ('nothing_left_pending', _sess_nothing_pending)], budget=20000),
    Contract('Database._exec_sql', ['pony.orm.core:Database._exec_sql', 'pony.orm.core:SessionCache.reconnect'], _ex_configs, _ex_case,
             [('statement_joins_the_sessions_transaction_on_the_same_connection', _ex_spec)],
             allowed_exc=(Exception,), budget=20000),
    Contract('write_sites', ['pony.orm.core:' + f for f in WRITE_SITE_FUNCS], [dict()], _ws_case,
             [('every_write_statement_starts_or_is_inside_the_transaction', _ws_spec), ('every_write_call_site_exercised', _ws_all_sites)]),
    Contract('SessionCache.flush', 'pony.orm.core:SessionCache.flush', _fl_configs, _fl_case,
             [('immediate_while_saving_and_restored_unless_in_transaction', _fl_spec)], allowed_exc=(c19.BodyError,)),
    Contract('SessionCache.flush_and_commit', ['pony.orm.core:SessionCache.flush_and_commit', 'pony.orm.core:Database.commit'],
             [dict(via='flush_and_commit'), dict(via='Database.commit')], _fc_case,
             [('failed_flush_rolls_back_and_propagates_failed_commit_reported', _fc_spec)], allowed_exc=(Fault, core.CommitException)),
]
from contracts import c18 as _c18
# a body interrupted half way (by any BaseException) must never be committed: the decorator form and the context-manager exit are contracted under C18 and shared here
CONTRACTS += [c for c in _c18.CONTRACTS if c.id in ('_wrap_function.new_func', '_commit_or_rollback')]

if hasattr(c19, 'CONTRACTS') and not any(c.id == 'session.two_databases' for c in c19.CONTRACTS):
    c19.CONTRACTS.extend(c for c in CONTRACTS if c.id == 'session.two_databases')          # shared with C19 (see c19._share_two_databases)
