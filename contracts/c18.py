"""C18 A db_session commits exactly when its body succeeds (DESIGN 4-C18, Appendix A3)."""
import sys, types, itertools
from vf.verify import Contract, Case
from vf.explore import cur, choose, choose_from
from vf.effects import effect, Fault, Patch, note, names, ok, occ
from contracts import stubs
stubs.install_stub_modules()
from pony.orm import core
import pony.flask as pflask
from pony.orm.integration import bottle_plugin

META = dict(
    level='proof',
    explanation='every path of the session-exit functions over {no exception, allowed, other} x every dependency (commit, rollback, release, '
                'allowed/retry predicates, body) returning or raising; obligations are ground after path enumeration (decided by evaluation '
                'of the ghost trace, no solver)',
    trusted_base=['effect stubs: commit(), rollback(), cache.release(), user predicates and the body return or raise and do not otherwise touch '
                  'the session-local state', 'stub flask / bottle modules only provide the names the integration modules import'],
    assumptions=['retry count <= K (K=2 quick, 3 thorough) and nesting depth <= 3 are BOUNDED and reported separately',
                 'generator wrapper explored for <= 2 resumptions (bounded)'],
)


class Allowed(Exception): pass
class Other(Exception): pass
class Retryable(core.TransactionError): pass
class PredicateError(Exception): pass
class CommitRetryable(core.TransactionError): pass
class Abort(BaseException):
    """An exception outside the Exception hierarchy (like KeyboardInterrupt / SystemExit / GeneratorExit)."""


class FakeCache(object):
    modified = False
    in_transaction = False
    def release(self): effect('release')()


def _patch_core(run, caches=None, commit_raises=(Fault,), rollback_raises=(Fault,)):
    p = Patch(); run.state['patch'] = p
    p.set(core, 'commit', effect('commit', commit_raises))
    p.set(core, 'rollback', effect('rollback', rollback_raises))
    cs = [FakeCache()] if caches is None else caches
    p.set(core, '_get_caches', lambda: list(cs))
    core.local.db2cache.clear()
    core.local.db_context_counter = 0
    core.local.db_session = None
    run.state['debug_depth0'] = len(core.local.debug_stack)


def _unpatch_core(run):
    run.state['patch'].restore()
    run.state['db_session_after'] = core.local.db_session
    run.state['counter_after'] = core.local.db_context_counter
    run.state['debug_depth_delta'] = len(core.local.debug_stack) - run.state.get('debug_depth0', 0)
    core.local.db_session = None
    core.local.db_context_counter = 0
    core.local.db2cache.clear()
    del core.local.debug_stack[run.state.get('debug_depth0', 0):]


def _predicate(tag):
    """User-supplied callable: returns True / False or raises, decided per call."""
    def pred(exc):
        r = choose(3, 'pred:' + tag)
        note(tag, ['True', 'False', 'raise'][r])
        if r == 2: raise PredicateError(tag)
        return r == 0
    return pred


# ------------------------------------------------------------------ _commit_or_rollback
def _cor_configs(tier):
    return [dict(exc=e, allowed=a) for e in ('none', 'Allowed', 'Other', 'Abort') for a in ('()', '(Allowed,)', 'callable')]


def _cor_case(cfg, values):
    def setup(run): _patch_core(run)
    def call():
        allowed = {'()': (), '(Allowed,)': (Allowed,), 'callable': _predicate('allowed_pred')}[cfg['allowed']]
        s = core.DBSessionContextManager(allowed_exceptions=allowed)
        core.local.db_session = s
        exc = {'none': None, 'Allowed': Allowed('a'), 'Other': Other('o'), 'Abort': Abort('b')}[cfg['exc']]
        cur().state['exc'] = exc
        try:
            return s._commit_or_rollback(type(exc) if exc is not None else None, exc, None)
        finally:
            cur().state['db_session_at_exit'] = core.local.db_session
    return Case(call, {}, [], setup, _unpatch_core)


def _can_commit(cfg, path):
    """The property's rule: commit iff the body finished normally or raised an exception the session allows."""
    if cfg['exc'] == 'none': return True
    if cfg['allowed'] == '()': return False
    if cfg['allowed'] == '(Allowed,)': return cfg['exc'] == 'Allowed'
    d = [g for g in path.ghost if g[0] == 'allowed_pred']
    return bool(d) and d[0][1] == 'True'


def _cor_commit_iff(cfg, i, path):
    can = _can_commit(cfg, path)
    n = names(path.ghost)
    if can:
        # exactly one commit; a rollback is legitimate only as the cleanup AFTER that commit failed (several databases: the committed ones are still to be closed)
        if n.count('commit') != 1: return False
        if 'rollback' not in n: return True
        return not ok(path.ghost, 'commit') and n.index('rollback') > n.index('commit')
    return 'commit' not in n and n.count('rollback') == 1


def _cor_release(cfg, i, path):
    n = path.ghost
    if ok(n, 'commit'):
        return len(occ(n, 'release')) == 1 and occ(n, 'release')[0] > ok(n, 'commit')[0]
    return not occ(n, 'release')


def _cor_cleared(cfg, i, path):
    return path.state.get('db_session_at_exit') is None


def _cor_propagation(cfg, i, path):
    g = path.ghost
    faults = path.state.get('faults', [])
    pred_raised = any(x[0] == 'allowed_pred' and x[1] == 'raise' for x in g)
    if pred_raised:
        # the predicate's own exception propagates (after a rollback), unless the rollback itself failed
        return path.outcome == 'exc' and isinstance(path.value, (PredicateError, Fault))
    if cfg['exc'] == 'none':
        # a failing commit / release must not be swallowed
        if faults: return path.outcome == 'exc' and path.value is faults[0]
        return path.outcome == 'ret'
    if _can_commit(cfg, path):
        if faults: return path.outcome == 'exc' and path.value is faults[0]
        return path.outcome == 'ret'
    # body exception not allowed: returns normally so that Python re-raises the body's exception outside __exit__
    return path.outcome == 'ret' and path.value is None


# ------------------------------------------------------------------ __exit__ (modular: _commit_or_rollback replaced by its contract stub)
def _exit_configs(tier):
    return [dict(depth=d, sql_debug=s, exc=e) for d in (1, 2, 3) for s in (None, True) for e in ('none', 'Other')]


def _exit_case(cfg, values):
    def setup(run):
        _patch_core(run)
        run.state['patch'].set(core.DBSessionContextManager, '_commit_or_rollback',
                               lambda self, et, e, tb: (note('_commit_or_rollback.args', et, e), effect('_commit_or_rollback')())[1])

    def call():
        s = core.DBSessionContextManager(sql_debug=cfg['sql_debug'])
        core.local.db_session = s
        core.local.db_context_counter = cfg['depth']
        if cfg['sql_debug'] is not None:
            core.local.push_debug_state(True, None)
        exc = None if cfg['exc'] == 'none' else Other('o')
        cur().state['exc'] = exc
        try:
            return s.__exit__(type(exc) if exc else None, exc, None)
        finally:
            cur().state['counter_at_exit'] = core.local.db_context_counter
            cur().state['debug_at_exit'] = len(core.local.debug_stack) - cur().state['debug_depth0']
    return Case(call, {}, [], setup, _unpatch_core)


def _exit_outermost_only(cfg, i, path):
    n = names(path.ghost)
    return n.count('_commit_or_rollback') == (1 if cfg['depth'] == 1 else 0) and path.state['counter_at_exit'] == cfg['depth'] - 1


def _exit_passes_exception(cfg, i, path):
    a = [g for g in path.ghost if g[0] == '_commit_or_rollback.args']
    if not a: return None
    exc = path.state['exc']
    return a[0][1] is (type(exc) if exc else None) and a[0][2] is exc


def _exit_debug_popped(cfg, i, path):
    return path.state['debug_at_exit'] == 0


# ------------------------------------------------------------------ _wrap_function.new_func (retry loop) — BOUNDED by retry <= K
BODY = ['return', 'Retryable', 'Other', 'flagged', 'Allowed', 'Abort']


def _nf_configs(tier):
    K = 2 if tier == 'quick' else 3
    out = []
    for retry in range(K + 1):
        for allowed in ('()', '(Allowed,)'):
            for rex in ('default', 'callable'):
                out.append(dict(retry=retry, allowed=allowed, retry_exceptions=rex))
    return out


def _nf_case(cfg, values):
    def setup(run): _patch_core(run, commit_raises=(Fault, CommitRetryable))

    def call():
        st = cur().state
        st['bodies'] = 0

        def body():
            k = st['bodies']; st['bodies'] += 1
            o = choose_from(BODY, 'body')
            note('body', k, o)
            if o == 'return': return ('result', k)
            if o == 'Retryable': raise Retryable('r')
            if o == 'Allowed': raise Allowed('a')
            if o == 'Abort': raise Abort('b')
            e = Other('o')
            if o == 'flagged': e.should_retry = True
            raise e
        kw = dict(retry=cfg['retry'], allowed_exceptions={'()': (), '(Allowed,)': (Allowed,)}[cfg['allowed']])
        if cfg['retry_exceptions'] == 'callable': kw['retry_exceptions'] = _predicate('retry_pred')
        wrapped = core.DBSessionContextManager(**kw)(body)
        return wrapped()
    return Case(call, {}, [], setup, _unpatch_core)


def _nf_split(path):
    """Split the ghost trace into attempts: [(body event, [events after it until the next body])]."""
    atts = []
    for g in path.ghost:
        if g[0] == 'body': atts.append((g, []))
        elif atts: atts[-1][1].append(g)
    return atts


def _nf_retryable(cfg, body, after):
    """Was the attempt's failure one the session retries? (exception class / should_retry flag / predicate verdict;
    a failing commit after a successful body counts with the commit's exception class)."""
    o = body[2]
    preds = [g for g in after if g[0] == 'retry_pred']
    if o == 'return':
        cf = [g for g in after if g[0] == 'commit' and g[1] == 'raise']
        if not cf: return False
        if cfg['retry_exceptions'] == 'callable': return bool(preds) and preds[0][1] == 'True'
        return cf[0][2] == 'CommitRetryable'
    if o == 'flagged': return True
    if cfg['retry_exceptions'] == 'callable': return bool(preds) and preds[0][1] == 'True'
    return o == 'Retryable'


def _nf_attempts_bounded(cfg, i, path):
    return path.state['bodies'] <= cfg['retry'] + 1 and path.state['bodies'] >= 1


def _nf_retry_only_after_retryable_and_rollback(cfg, i, path):
    atts = _nf_split(path)
    for (b, after) in atts[:-1]:
        if not _nf_retryable(cfg, b, after): return False
        if not ok(after, 'rollback'): return False          # next attempt starts from the committed state
    return True


def _nf_no_commit_after_failed_body(cfg, i, path):
    """Safety: a successful commit is never performed on behalf of a body that raised a non-allowed exception
    (unless a successful rollback discarded that body's changes first)."""
    for (b, after) in _nf_split(path):
        o = b[2]
        good = o == 'return' or (o == 'Allowed' and cfg['allowed'] == '(Allowed,)')
        if good: continue
        rolled = False
        for g in after:
            if g[0] == 'rollback' and g[1] == 'ok': rolled = True
            if g[0] == 'commit' and g[1] == 'ok' and not rolled: return False
    return True


def _nf_outcome(cfg, i, path):
    atts = _nf_split(path)
    b, after = atts[-1]
    o = b[2]
    faults = path.state.get('faults', [])
    if path.outcome == 'ret':
        # returns only the value of a body that returned and whose changes were committed
        return o == 'return' and path.value == ('result', b[1]) and bool(ok(after, 'commit'))
    # raised: either the last body's own exception, an injected fault, or a predicate failure
    if o != 'return' and not faults and not any(g[0] == 'retry_pred' and g[1] == 'raise' for g in after):
        want = {'Retryable': Retryable, 'Other': Other, 'flagged': Other, 'Allowed': Allowed, 'Abort': Abort}[o]
        return isinstance(path.value, want)
    return True


def _nf_success_commits(cfg, i, path):
    """Liveness within one call: a body that returned with no injected fault afterwards => wrapper returns, exactly via commit."""
    atts = _nf_split(path)
    b, after = atts[-1]
    if b[2] == 'return' and not any(len(g) > 1 and g[1] == 'raise' for g in after):
        return path.outcome == 'ret' and len(ok(after, 'commit')) >= 1 and not occ(after, 'rollback')
    return None


def _nf_allowed_commits(cfg, i, path):
    atts = _nf_split(path)
    b, after = atts[-1]
    if b[2] == 'Allowed' and cfg['allowed'] == '(Allowed,)' and cfg['retry_exceptions'] == 'default' \
            and not any(len(g) > 1 and g[1] == 'raise' for g in after):
        return path.outcome == 'exc' and isinstance(path.value, Allowed) and len(ok(after, 'commit')) == 1 and not occ(after, 'rollback')
    return None


def _nf_retryable_is_retried(cfg, i, path):
    """A retryable failure with attempts left (and no injected fault in between) is followed by another attempt."""
    atts = _nf_split(path)
    for k, (b, after) in enumerate(atts):
        if k == len(atts) - 1 and k < cfg['retry'] and _nf_retryable(cfg, b, after):
            raises = [g for g in after if len(g) > 1 and g[1] == 'raise']
            first_commit = next((g for g in after if g[0] == 'commit'), None)
            clean = (raises == []) if b[2] != 'return' else (len(raises) == 1 and raises[0] is first_commit)
            if clean: return False
    return True


def _nf_state_restored(cfg, i, path):
    return path.state['db_session_after'] is None and path.state['counter_after'] == 0


# ------------------------------------------------------------------ nested decorated call: inner session never commits
def _nest_case(cfg, values):
    def setup(run): _patch_core(run)

    def call():
        def inner_body():
            o = choose_from(['return', 'Other', 'Abort'], 'inner')
            note('inner', o)
            if o == 'Other': raise Other('i')
            if o == 'Abort': raise Abort('i')
            return 1
        inner = core.DBSessionContextManager(retry=cfg['inner_retry'])(inner_body)

        def outer_body():
            note('outer.begin')
            try:
                inner()
            except Other:
                note('outer.caught')
                if cfg['outer_reraises']: raise
            note('inner.done', names(cur().ghost).count('commit'), names(cur().ghost).count('rollback'))
            return 2
        import warnings
        with warnings.catch_warnings():
            warnings.simplefilter('ignore')
            return core.DBSessionContextManager()(outer_body)()
    return Case(call, {}, [], setup, _unpatch_core)


def _nest_inner_never_commits(cfg, i, path):
    d = [g for g in path.ghost if g[0] == 'inner.done']
    if not d: return None
    return d[0][1] == 0 and d[0][2] == 0


def _nest_inner_runs_once(cfg, i, path):
    return len([g for g in path.ghost if g[0] == 'inner']) == 1


# ------------------------------------------------------------------ generator wrapper (bounded: <= 2 resumptions)
def _gen_configs(tier):
    return [dict(steps=s) for s in (0, 1, 2)]


def _gen_case(cfg, values):
    def setup(run):
        c = FakeCache()
        run.state['cache'] = c
        _patch_core(run, caches=[c])

    def call():
        st = cur().state
        c = st['cache']

        def gen():
            for k in range(cfg['steps']):
                o = choose_from(['yield-clean', 'yield-dirty', 'yield-in-transaction', 'raise', 'raise-base'], 'gen')
                note('gen', k, o)
                if o == 'raise': raise Other('g')
                if o == 'raise-base': raise Abort('g')
                c.modified = (o == 'yield-dirty')
                c.in_transaction = (o == 'yield-in-transaction')          # flushed but not committed: the connection (and the SQLite transaction lock) would stay held while suspended
                yield k
                c.modified = False; c.in_transaction = False
            note('gen', 'end', 'return')
        w = core.DBSessionContextManager()(gen)
        out = []
        for x in w():
            note('consumer', x, core.local.db_session is None and core.local.db_context_counter == 0)
            out.append(x)
        return out
    return Case(call, {}, [], setup, _unpatch_core)


def _gen_spec(cfg, i, path):
    g = path.ghost
    evs = [x for x in g if x[0] == 'gen']
    last = evs[-1]
    n = names(g)
    if last[2] == 'return':
        # generator finished: commit then release, consumer sees all items
        if any(x[0] in ('commit', 'release') and x[1] == 'raise' for x in g): return path.outcome == 'exc'
        # (the StopIteration then travels through the generic handler, which issues a rollback AFTER commit+release: a no-op)
        return path.outcome == 'ret' and bool(ok(g, 'commit')) and bool(ok(g, 'release')) and 'rollback' not in names(g[:ok(g, 'commit')[0]])
    if last[2] in ('raise', 'raise-base'):
        return path.outcome == 'exc' and isinstance(path.value, (Other, Abort, Fault)) and 'commit' not in n and n.count('rollback') == 1
    if last[2] in ('yield-dirty', 'yield-in-transaction'):
        # suspending with uncommitted changes is refused, and rolled back
        return path.outcome == 'exc' and isinstance(path.value, (core.TransactionError, Fault)) and 'commit' not in n and n.count('rollback') == 1
    return True


def _gen_never_suspends_dirty(cfg, i, path):
    g = path.ghost
    for n, x in enumerate(g):
        if x[0] == 'gen' and x[2] in ('yield-dirty', 'yield-in-transaction'):
            if any(y[0] in ('consumer', 'gen') for y in g[n + 1:]): return False
    return True


def _gen_session_closed_while_suspended(cfg, i, path):
    return all(x[2] for x in path.ghost if x[0] == 'consumer')


# ------------------------------------------------------------------ Flask / Bottle integrations
def _flask_case(cfg, values):
    def call():
        rec = []

        class Session(object):
            def __exit__(self, exc_type=None, exc=None, tb=None):
                rec.append((exc_type, exc))
        stubs.flask_request.pony_session = Session()
        exc = None if cfg['exc'] == 'none' else Other('view failed')
        try:
            pflask._exit_session(exc)
        finally:
            del stubs.flask_request.pony_session
        return rec, exc
    return Case(call, {}, [])


def _flask_precondition_of_exit(cfg, i, path):
    """Caller-side obligation: __exit__ decides on exc_type, so (exc_type is None) == (exc is None) must hold at the call."""
    if path.outcome != 'ret': return False
    rec, exc = path.value
    if len(rec) != 1: return False
    et, e = rec[0]
    return (et is None) == (exc is None) and e is exc and (et is None or et is type(exc))


def _bottle_case(cfg, values):
    import bottle
    def setup(run): _patch_core(run)

    def call():
        def view():
            note('body', 0, cfg['raises'])
            if cfg['raises'] == 'none': return 'page'
            raise {'HTTPResponse': bottle.HTTPResponse, 'HTTPError': bottle.HTTPError, 'Other': Other, 'Abort': Abort}[cfg['raises']]('x')
        wrapped = bottle_plugin.PonyPlugin().apply(view, None)
        return wrapped()
    return Case(call, {}, [], setup, _unpatch_core)


def _bottle_spec(cfg, i, path):
    n = names(path.ghost)
    faults = path.state.get('faults', [])
    can = cfg['raises'] in ('none', 'HTTPResponse')       # redirects/responses are not failures; HTTPError and others are
    if can:
        if not faults and not (n.count('commit') >= 1 and 'rollback' not in n): return False
    else:
        if ok(path.ghost, 'commit'): return False
        if not occ(path.ghost, 'rollback'): return False
    if cfg['raises'] == 'none': return faults != [] or path.outcome == 'ret'
    return path.outcome == 'exc'


# ------------------------------------------------------------------ _enter: a refused nested session leaves no trace
def _enter_configs(tier):
    kinds = ['plain', 'ddl', 'serializable']
    return [dict(outer=o, inner=n, sql_debug=sd, depth=d) for o in ['none'] + kinds for n in kinds for sd in (None, True) for d in (1, 2) if not (o == 'none' and d == 2)]


def _mk_session(kind, sql_debug=None):
    return core.DBSessionContextManager(ddl=(kind == 'ddl'), serializable=(kind == 'serializable'), sql_debug=sql_debug)


def _enter_case(cfg, values):
    def setup(run): _patch_core(run)

    def call():
        st = cur().state
        outer = None if cfg['outer'] == 'none' else _mk_session(cfg['outer'])
        core.local.db_session = outer
        core.local.db_context_counter = 0 if outer is None else cfg['depth']
        inner = _mk_session(cfg['inner'], cfg['sql_debug'])
        st.update(outer=outer, inner=inner, counter0=core.local.db_context_counter, debug0=len(core.local.debug_stack))
        try:
            return inner._enter()
        finally:
            st['counter1'] = core.local.db_context_counter; st['session1'] = core.local.db_session
            st['debug1'] = len(core.local.debug_stack)
    return Case(call, {}, [], setup, _unpatch_core)


def _enter_spec(cfg, i, path):
    st = path.state
    refused = (cfg['outer'] != 'none') and ((cfg['inner'] == 'ddl' and cfg['outer'] != 'ddl') or (cfg['inner'] == 'serializable' and cfg['outer'] != 'serializable'))
    if refused:
        # __exit__ will never run for a session whose __enter__ raised: nothing may be left behind
        return (path.outcome == 'exc' and isinstance(path.value, core.TransactionError) and st['counter1'] == st['counter0']
                and st['session1'] is st['outer'] and st['debug1'] == st['debug0'])
    want_session = st['inner'] if st['outer'] is None else st['outer']
    return (path.outcome == 'ret' and st['counter1'] == st['counter0'] + 1 and st['session1'] is want_session
            and st['debug1'] == st['debug0'] + (1 if cfg['sql_debug'] is not None else 0))


G = lambda f: (lambda cfg, i, path: f(cfg, i, path))
CONTRACTS = [
    Contract('_commit_or_rollback', 'pony.orm.core:DBSessionContextManager._commit_or_rollback', _cor_configs, _cor_case,
             [('commit_iff_body_succeeded_or_allowed', _cor_commit_iff), ('release_only_after_successful_commit', _cor_release),
              ('session_cleared_on_every_exit', _cor_cleared), ('failures_propagate', _cor_propagation)],
             allowed_exc=(Fault, PredicateError, Abort), doc='loop-free: all fault combinations of commit / rollback / release / allowed-predicate'),
    Contract('__exit__', 'pony.orm.core:DBSessionContextManager.__exit__', _exit_configs, _exit_case,
             [('commits_only_at_outermost_exit', _exit_outermost_only), ('passes_exception_through', _exit_passes_exception),
              ('debug_state_popped', _exit_debug_popped)], allowed_exc=(Fault,),
             doc='modular: _commit_or_rollback replaced by an effect stub; nesting depth 1..3 (the function only tests counter == 0)'),
    Contract('_enter', 'pony.orm.core:DBSessionContextManager._enter', _enter_configs, _enter_case,
             [('refused_nested_session_leaves_no_trace_else_counter_incremented', _enter_spec)], allowed_exc=(core.TransactionError,),
             doc='outer session none / plain / ddl / serializable x inner plain / ddl / serializable x depth 1, 2'),
    Contract('_wrap_function.new_func', ['pony.orm.core:DBSessionContextManager._wrap_function', 'pony.orm.core:DBSessionContextManager._enter'],
             _nf_configs, _nf_case,
             [('attempts_at_most_retry_plus_one', _nf_attempts_bounded), ('retry_only_after_retryable_failure_and_rollback', _nf_retry_only_after_retryable_and_rollback),
              ('no_commit_on_behalf_of_failed_body', _nf_no_commit_after_failed_body), ('outcome_is_last_attempts', _nf_outcome),
              ('successful_body_is_committed', _nf_success_commits), ('allowed_exception_commits_and_propagates', _nf_allowed_commits),
              ('retryable_failure_is_retried_while_attempts_remain', _nf_retryable_is_retried),
              ('session_state_restored', _nf_state_restored)],
             level='bounded', bound='retry <= 2 (quick) / 3 (thorough); per attempt the body returns or raises one of 4 exception kinds; commit may raise a retryable or a plain fault',
             allowed_exc=(Fault, PredicateError, Allowed, Other, Retryable, CommitRetryable, Abort), budget=2000000),
    Contract('nested_decorated_call', 'pony.orm.core:DBSessionContextManager._wrap_function',
             [dict(inner_retry=r, outer_reraises=o) for r in (0, 2) for o in (False, True)], _nest_case,
             [('inner_session_never_commits_or_rolls_back', _nest_inner_never_commits), ('inner_retry_ignored', _nest_inner_runs_once)],
             level='bounded', bound='nesting depth 2', allowed_exc=(Fault, Other, Abort)),
    Contract('generator_wrapper', 'pony.orm.core:DBSessionContextManager._wrap_coroutine_or_generator_function', _gen_configs, _gen_case,
             [('commit_on_finish_rollback_on_error_or_dirty_suspend', _gen_spec), ('no_session_while_suspended', _gen_session_closed_while_suspended),
              ('never_suspends_with_uncommitted_changes_or_an_open_transaction', _gen_never_suspends_dirty)],
             level='bounded', bound='<= 2 resumptions', allowed_exc=(Fault, Other, Abort, core.TransactionError)),
    Contract('flask._exit_session', 'pony.flask:_exit_session', [dict(exc='none'), dict(exc='Other')], _flask_case,
             [('satisfies_precondition_of___exit__', _flask_precondition_of_exit)],
             doc='caller-side obligation of __exit__: exc_type is None iff exc is None'),
    Contract('bottle.PonyPlugin', ['pony.orm.integration.bottle_plugin:PonyPlugin.apply', 'pony.orm.integration.bottle_plugin:is_allowed_exception'],
             [dict(raises=r) for r in ('none', 'HTTPResponse', 'HTTPError', 'Other', 'Abort')], _bottle_case, [('commit_iff_view_succeeded_or_responded', _bottle_spec)],
             allowed_exc=(Fault, Other, Exception, Abort)),
]
