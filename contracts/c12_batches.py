"""C12 (bounded part): collections loaded in BATCHES (the automatic N+1 prefetch of Set.load) agree with the stored links and with their other end.

When a collection of one object is read and more objects of the same entity with unread collections are in the session, Set.load fetches a whole batch of them with one
query, at most provider.max_params_count // (key columns) objects at a time. Here the limit is 3 (many-to-many, one-to-many and a composite key owner), the session holds
0..7 other objects, and the collections are read in several orders from either end. Every collection must equal the stored links, `x in y.coll` must agree with
`y in x.coll` for every pair, and nothing may raise."""
import itertools, types
from vf.verify import Case
from pony import orm
from pony.orm import core

BOUND = 'batches of at most 3 objects (1 with the composite key); 8 students x 4 courses x 3 groups; 1..8 objects in the session; 6 read orders; many-to-many from either end, one-to-many, composite-key owner'
_M = None
N = 8
LINKS = {1: (1, 2), 2: (1,), 3: (), 4: (2, 3, 4), 5: (1, 4), 6: (3,), 7: (1, 2, 3, 4), 8: (4,)}          # student -> courses
GROUP = {1: 1, 2: 1, 3: 2, 4: 1, 5: 2, 6: 3, 7: 1, 8: 2}                                              # student -> group


def model():
    global _M
    if _M is None:
        db = orm.Database('sqlite', ':memory:')

        class Group(db.Entity):
            id = orm.PrimaryKey(int)
            students = orm.Set('Student')

        class Student(db.Entity):
            id = orm.PrimaryKey(int)
            group = orm.Required(Group)
            courses = orm.Set('Course')
            badges = orm.Set('Badge')

        class Course(db.Entity):
            id = orm.PrimaryKey(int)
            students = orm.Set(Student)

        class Desk(db.Entity):                           # composite key owner: the batch limit counts columns
            room = orm.Required(int)
            no = orm.Required(int)
            orm.PrimaryKey(room, no)
            badges = orm.Set('Badge')

        class Badge(db.Entity):
            id = orm.PrimaryKey(int)
            student = orm.Optional(Student)
            desk = orm.Optional(Desk)
        db.generate_mapping(create_tables=True)
        db.provider.max_params_count = 3
        with orm.db_session:
            g = {i: Group(id=i) for i in (1, 2, 3)}; c = {i: Course(id=i) for i in (1, 2, 3, 4)}
            d = {i: Desk(room=1 + i % 2, no=i) for i in range(1, 6)}
            for i in range(1, N + 1):
                s = Student(id=i, group=g[GROUP[i]], courses=[c[j] for j in LINKS[i]])
                for k in range(i % 3): Badge(id=10 * i + k, student=s, desk=d[1 + (i + k) % 5])
        _M = types.SimpleNamespace(db=db, Group=Group, Student=Student, Course=Course, Desk=Desk, Badge=Badge)
    return _M


ORDERS = ('students first, ascending', 'students first, descending', 'courses first', 'interleaved', 'last student only, then the others', 'membership tests first')


def configs(tier):
    return [dict(students=n, order=o) for n in range(1, N + 1) for o in ORDERS]


def _reset():
    try: orm.rollback()
    except Exception: pass
    core.local.db2cache.clear(); core.local.db_context_counter = 0; core.local.db_session = None


def case(cfg, values):
    def call():
        M = model(); bad = []; n = cfg['students']; order = cfg['order']
        try:
            with orm.db_session:
                studs = list(M.Student.select(lambda s: s.id <= n).order_by(M.Student.id))
                courses = list(M.Course.select().order_by(M.Course.id)); groups = list(M.Group.select().order_by(M.Group.id)); desks = list(M.Desk.select().order_by(M.Desk.room, M.Desk.no))
                seen = {}

                def read_s(s): seen[('s', s.id)] = sorted(c.id for c in s.courses)
                def read_c(c): seen[('c', c.id)] = sorted(s.id for s in c.students if s.id <= n)
                if order == 'students first, ascending':
                    for s in studs: read_s(s)
                    for c in courses: read_c(c)
                elif order == 'students first, descending':
                    for s in reversed(studs): read_s(s)
                    for c in courses: read_c(c)
                elif order == 'courses first':
                    for c in courses: read_c(c)
                    for s in studs: read_s(s)
                elif order == 'interleaved':
                    for s, c in itertools.zip_longest(studs, courses):
                        if s is not None: read_s(s)
                        if c is not None: read_c(c)
                elif order == 'last student only, then the others':
                    read_s(studs[-1])
                    for c in courses: read_c(c)
                    for s in studs: read_s(s)
                else:
                    for s in studs:
                        for c in courses:
                            a, b = c in s.courses, s in c.students
                            if a != b or a != (c.id in LINKS[s.id]): bad.append(('Course[%d] in Student[%d].courses: %r, the other end: %r, stored: %r' % (c.id, s.id, a, b, c.id in LINKS[s.id]),))
                    for s in studs: read_s(s)
                    for c in courses: read_c(c)
                for s in studs:
                    if seen[('s', s.id)] != sorted(LINKS[s.id]): bad.append(('Student[%d].courses' % s.id, seen[('s', s.id)], 'stored: %r' % sorted(LINKS[s.id])))
                    if len(s.courses) != len(LINKS[s.id]) or s.courses.count() != len(LINKS[s.id]): bad.append(('Student[%d].courses len / count' % s.id, len(s.courses), s.courses.count(), len(LINKS[s.id])))
                for c in courses:
                    want = sorted(i for i in range(1, n + 1) if c.id in LINKS[i])
                    if seen[('c', c.id)] != want: bad.append(('Course[%d].students' % c.id, seen[('c', c.id)], 'stored: %r' % want))
                for s in studs:
                    for c in courses:
                        a, b = c in s.courses, s in c.students
                        if a != b: bad.append(('the ends disagree about Student[%d] / Course[%d]' % (s.id, c.id), a, b))
                # one-to-many in batches, from the many side and from the one side
                for g in groups:
                    got = sorted(s.id for s in g.students if s.id <= n); want = sorted(i for i in range(1, n + 1) if GROUP[i] == g.id)
                    if got != want: bad.append(('Group[%d].students' % g.id, got, 'stored: %r' % want))
                for s in studs:
                    got = sorted(b.id for b in s.badges); want = [10 * s.id + k for k in range(s.id % 3)]
                    if got != want: bad.append(('Student[%d].badges' % s.id, got, 'stored: %r' % want))
                    for b in s.badges:
                        if b.student is not s: bad.append(('Badge[%d].student is not the student whose collection holds it' % b.id,))
                for d in desks:
                    got = sorted(b.id for b in d.badges)
                    want = sorted(10 * i + k for i in range(1, N + 1) for k in range(i % 3) if 1 + (i + k) % 5 == d.no)
                    if got != want: bad.append(('Desk[%d, %d].badges' % (d.room, d.no), got, 'stored: %r' % want))
        except Exception as e:
            bad.append(('raises %s: %s' % (type(e).__name__, str(e)[:120]),))
        finally:
            _reset()
        return bad[:4]
    return Case(call, {}, [], lambda r: _reset(), lambda r: _reset())


def spec(cfg, i, path):
    return path.outcome == 'ret' and path.value == []
