"""C05 (bounded part): the per-entity caches of generated SQL (EntityMeta._find_sql_cache_, _batchload_sql_cache_) are transparent.

EntityMeta._construct_sql_ (lookups by attribute values: get / exists / select(**kw) / get_for_update) and EntityMeta._construct_batchload_sql_ (loading of objects and
collections in batches) keep what they built under a key made of their arguments. For every argument tuple out of an enumerated family the COLD answer (empty cache) is
recorded: the SQL text, the positions of the attributes in the row and what the parameter adapter makes of sample values. Then the caches are warmed with the whole family
in several orders and every tuple is asked again: the WARM answer must equal the cold one. An argument that is missing from the key makes two tuples share an entry, and
one of them then differs. The statements are rendered by the generic SQLBuilder (which puts FOR UPDATE / NOWAIT / SKIP LOCKED into the text; the SQLite builder drops them)."""
import itertools, random, types
from vf.verify import Case
from pony import orm
from pony.orm import core, sqlbuilding as sb

BOUND = '_construct_sql_: 9 attribute sets x order_by_pk x 3 limits x 4 lock modes on 3 entities (plain, subclass with discriminator, composite key); _construct_batchload_sql_: 3 batch sizes x 3 attributes x from_seeds x 2 prefetch contexts; 4 warming orders'
_M = None


def model():
    global _M
    if _M is None:
        db = orm.Database('sqlite', ':memory:')

        class Owner(db.Entity):
            id = orm.PrimaryKey(int)
            things = orm.Set('Thing')
            crates = orm.Set('Crate')

        class Thing(db.Entity):
            id = orm.PrimaryKey(int)
            a = orm.Optional(int)
            b = orm.Optional(str)
            note = orm.Optional(str, lazy=True)
            owner = orm.Optional(Owner)
            other = orm.Optional('Crate')

        class Gadget(Thing):
            volts = orm.Optional(int)

        class Crate(db.Entity):
            x = orm.Required(int)
            y = orm.Required(int)
            orm.PrimaryKey(x, y)
            label = orm.Optional(str)
            owner = orm.Optional(Owner)
            things = orm.Set(Thing)
        db.generate_mapping(create_tables=True)
        _M = types.SimpleNamespace(db=db, Owner=Owner, Thing=Thing, Gadget=Gadget, Crate=Crate)
    return _M


LOCKS = ((False, False, False), (True, False, False), (True, True, False), (True, False, True))


def find_family(M):
    out = []
    for ename in ('Thing', 'Gadget', 'Crate'):
        E = getattr(M, ename)
        if ename == 'Crate': sets = [{}, {E.label: False}, {E.label: True}, {E.owner: False}, {E.owner: True}, {E.x: False}, {E.x: False, E.y: False}, {E.label: False, E.owner: False}, {E.y: False}]
        else: sets = [{}, {E.a: False}, {E.a: True}, {E.b: False}, {E.owner: False}, {E.owner: True}, {E.a: False, E.b: False}, {E.a: False, E.owner: True}, {E.other: False}]
        for qa in sets:
            for order_by_pk in (False, True):
                for limit in (None, 1, 2):
                    for lock in LOCKS:
                        out.append((ename, tuple(sorted((a.name, v) for a, v in qa.items())), order_by_pk, limit) + lock)
    return out


def batch_family(M):
    out = []
    for ename, attrs in (('Thing', (None, 'owner', 'other')), ('Crate', (None, 'owner'))):
        for size in (1, 2, 3):
            for attr in attrs:
                for from_seeds in (True, False):
                    for prefetch in (False, True):
                        out.append((ename, size, attr, from_seeds, prefetch))
    return out


_EM = type('EntityMeta', (type,), {})                # Param.eval takes the raw key of a referenced object: a stand-in object with a two-column key
_REF = _EM('Ref', (), {'_get_raw_pkval_': lambda self: (100, 101), '_pkval_': (100, 101), '_status_': 'loaded'})


def _ask_find(M, t):
    ename, qa, order_by_pk, limit, fu, nw, sl = t
    E = getattr(M, ename)
    query_attrs = {getattr(E, n): v for n, v in qa}
    sql, adapter, attr_offsets = E._construct_sql_(query_attrs, order_by_pk, limit, fu, nw, sl)
    values = {}
    for n, v in qa:
        attr = getattr(E, n)
        if v: continue
        values[attr] = _REF() if attr.reverse else 7 if attr.py_type is int else 'seven'
    return sql, repr(adapter(values)), repr(sorted((a.name, o) for a, o in attr_offsets.items()))


def _ask_batch(M, t):
    ename, size, attr, from_seeds, prefetch = t
    E = getattr(M, ename)
    a = None if attr is None else getattr(E, attr)
    pc = None
    if prefetch:
        pc = core.PrefetchContext(M.db)
        pc.attrs_to_prefetch_dict[E].add(E.note if ename == 'Thing' else E.label)
    if pc is not None: core.local.prefetch_context_stack.append(pc)
    try: sql, adapter, attr_offsets = E._construct_batchload_sql_(size, a, from_seeds)
    finally:
        if pc is not None: core.local.prefetch_context_stack.pop()
    values = {i: (_REF() if from_seeds else (100 + i, 200 + i)) for i in range(size)}          # seeds (objects) or raw key tuples: the adapter reads them differently
    try: args = repr(adapter(values))
    except Exception as e: args = 'adapter raises %s' % type(e).__name__
    return sql, args, repr(sorted((x.name, o) for x, o in attr_offsets.items()))


def _clear(M):
    for E in (M.Owner, M.Thing, M.Gadget, M.Crate):
        E._find_sql_cache_.clear(); E._batchload_sql_cache_.clear()
    M.db._constructed_sql_cache.clear()


def configs(tier):
    return [dict(function=f, order=o) for f in ('_construct_sql_', '_construct_batchload_sql_') for o in ('forward', 'backward', 'shuffled 1', 'shuffled 2')]


def case(cfg, values):
    def call():
        M = model()
        real_cls = M.db.provider.sqlbuilder_cls
        M.db.provider.sqlbuilder_cls = sb.SQLBuilder
        try:
            fam, ask = (find_family(M), _ask_find) if cfg['function'] == '_construct_sql_' else (batch_family(M), _ask_batch)
            cold = {}
            for t in fam:
                _clear(M); cold[t] = ask(M, t)
            if len(set(cold.values())) < len(fam) // 3: return ['the family does not distinguish its members: %d different answers for %d tuples' % (len(set(cold.values())), len(fam))]
            order = list(fam)
            if cfg['order'] == 'backward': order.reverse()
            elif cfg['order'].startswith('shuffled'): random.Random(int(cfg['order'][-1])).shuffle(order)
            _clear(M)
            for t in order: ask(M, t)
            bad = []
            for t in fam:
                warm = ask(M, t)
                if warm != cold[t]: bad.append((t, 'warm: %r' % (warm,), 'cold: %r' % (cold[t],)))
            return bad[:3]
        finally:
            M.db.provider.sqlbuilder_cls = real_cls; _clear(M)
    return Case(call, {}, [])


def spec(cfg, i, path):
    return path.outcome == 'ret' and path.value == []


# ------------------------------------------------------------------ the statement caches of saving (_update_sql_cache_, _insert_sql_cache_, _delete_sql_cache_)
BOUND_SAVE = '21 saving operations on two objects (values present / missing; 4 sets of attributes read before; 2 sets written; 3 kinds of new object; delete): every ordered pair, the second one warm vs cold'


def save_ops(M):
    ops = []
    for oid in (1, 2):
        for reads in ((), ('a',), ('a', 'b'), ('owner',)):
            for writes in (('b',), ('a', 'b')):
                ops.append(('update', oid, reads, writes))
    ops += [('insert', 10, (), ()), ('insert', 11, (), ('a',)), ('insert', 12, (), ('a', 'b', 'owner')), ('delete', 1, ('a',), ()), ('delete', 2, (), ())]
    return ops


def _save_run(M, op, rec):
    kind, oid, reads, writes = op
    try:
        with orm.db_session:
            if kind == 'insert':
                kw = {}
                if 'a' in writes: kw['a'] = 5
                if 'b' in writes: kw['b'] = 'new'
                if 'owner' in writes: kw['owner'] = M.Owner[1]
                M.Thing(id=oid, **kw)
            else:
                o = M.Thing[oid]
                for r in reads: getattr(o, r)
                if kind == 'delete': o.delete()
                else:
                    if 'a' in writes: o.a = 77
                    if 'b' in writes: o.b = 'changed'
            del rec[:]                                   # only the statements of the flush are compared
            orm.flush()
            out = list(rec)
            orm.rollback()
        return ('ok', out)
    except Exception as e:
        return (type(e).__name__, list(rec))


def save_configs(tier):
    n = len(save_ops(model()))
    return [dict(first=i) for i in range(n)]


def save_case(cfg, values):
    def call():
        M = model(); ops = save_ops(M); bad = []
        rec = []
        real = core.Database._exec_sql
        def _exec_sql(database, sql, arguments=None, returning_id=False, start_transaction=False):
            if sql.split()[0].upper() in ('UPDATE', 'INSERT', 'DELETE'): rec.append((sql, repr(arguments)))
            return real(database, sql, arguments, returning_id, start_transaction)
        core.Database._exec_sql = _exec_sql
        def data():
            with orm.db_session:
                for t in ('Thing', 'Crate', 'Owner'): M.db.execute('delete from "%s"' % t)
                M.db.execute('insert into Owner(id) values (1)')
                M.db.execute("insert into Thing(id, a, b, note, owner, classtype) values (1, 1, 'x', 'n', 1, 'Thing'), (2, null, '', '', null, 'Thing')")
        def clear_save_caches():
            for E in (M.Owner, M.Thing, M.Gadget, M.Crate):
                for name in ('_update_sql_cache_', '_insert_sql_cache_', '_delete_sql_cache_', '_find_sql_cache_', '_batchload_sql_cache_', '_load_sql_cache_'):
                    c = getattr(E, name, None)
                    if c is not None: c.clear()
            M.db._constructed_sql_cache.clear()
        try:
            first = ops[cfg['first']]
            for second in ops:
                data(); clear_save_caches(); cold = _save_run(M, second, rec)
                data(); clear_save_caches(); _save_run(M, first, rec); data(); warm = _save_run(M, second, rec)
                if warm != cold: bad.append(('after %r' % (first,), 'operation %r' % (second,), 'warm: %r' % (warm,), 'cold: %r' % (cold,)))
                if cold[0] not in ('ok',): bad.append(('the operation fails by itself', repr(second), repr(cold)))
        finally:
            core.Database._exec_sql = real
            try: data()
            except Exception: pass
            core.local.db2cache.clear(); core.local.db_context_counter = 0; core.local.db_session = None
        return bad[:3]
    return Case(call, {}, [])
